"""Contracts for matid/clustering/cluster.py (C13) and the inner function merge of SBC._merge_clusters (sidecar)."""
from __future__ import annotations

import z3

from contracts.sbc_model import (sbc_ctx, cluster_ctx, S, DUP, SPEC, init_heap, DistancesShim, CLUSTER_SCHEMA, CACHE_NONE, CACHE_SET, TOK,
                                 RadiiRef, RadiiSel, ThrRef, RegionRef)
from engine import contexts
from engine.aseshim import SymAtoms, sym_int_rows
from engine.heap import HObj, SymSet, SymList, SubAtoms, OptSetToken, OptInt, havoc_field, snapshot, I, B, SetSort, _arr
from engine.pyvc import SR, SB, sint, sreal, z3num, z3bool, mkbool, Obj
from engine.errors import Unsupported

DIMSPEC_NONE = z3.Function("dimspec_is_none", SetSort, I, I, B)   # get_dimensionality(atoms of index set, threshold token, radii token) is None
DIMSPEC_VAL = z3.Function("dimspec_value", SetSort, I, I, I)


def getdim_contract(it, st, bound, site):
    """matid.geometry.get_dimensionality(system, cluster_threshold, dist_matrix_radii_mic_1x, return_clusters, radii)
    requires: a given matrix is the radii-corrected MIC matrix of `system` (same atoms) built with the radii passed;
    ensures: the result is a function of (system, threshold, radii) only."""
    sysm = bound["system"]
    st.prove(site + ".pre.system-is-the-clusters-atoms", z3.BoolVal(isinstance(sysm, SubAtoms)))
    if not isinstance(sysm, SubAtoms):
        raise Unsupported("get_dimensionality called on %r" % type(sysm))
    idx = sysm.indices
    M = bound["dist_matrix_radii_mic_1x"]
    if M is not None:
        st.prove(site + ".pre.matrix-is-for-these-atoms", z3.BoolVal(isinstance(M, OptSetToken)))
        if isinstance(M, OptSetToken):
            st.prove(site + ".pre.matrix-coherent-with-indices", z3.Or(M.isnone, M.set == idx.s.arr))
    thr = bound["cluster_threshold"]
    st.prove(site + ".pre.threshold-is-the-clustering-threshold", z3.BoolVal(isinstance(thr, ThrRef)) if not isinstance(thr, ThrRef) else thr.tok == st.ghost["thr_tok"])
    rad = bound["radii"]
    ok = isinstance(rad, RadiiSel)
    st.prove(site + ".pre.radii-are-the-clustering-radii-of-these-atoms",
             z3.And(rad.tok == st.ghost["radii_tok"], rad.indices.s.arr == idx.s.arr) if ok else z3.BoolVal(False))
    if ok:
        # radii[k] must be the radius of the k-th atom of `system`: same elements is not enough, the order has to agree
        from engine.heap import same_order
        st.prove(site + ".pre.radii-in-the-order-of-the-atoms", same_order(rad.indices, idx))
    st.prove(site + ".pre.return_clusters-false", z3.BoolVal(bound["return_clusters"] is False))
    ttok = thr.tok if isinstance(thr, ThrRef) else z3.IntVal(-7)
    rtok = rad.tok if ok else z3.IntVal(-7)
    return OptInt(DIMSPEC_NONE(idx.s.arr, ttok, rtok), DIMSPEC_VAL(idx.s.arr, ttok, rtok))


def mk_getdim(st, it):
    init_heap(st)
    n = sint("n_atoms")
    st.assume(n.t >= 1)
    cm = cluster_ctx()
    system = SymAtoms(n, None, None, None, sym_int_rows("Z", n))
    CLUSTER_SCHEMA["_system"].default = system
    CLUSTER_SCHEMA["_distances"].default = DistancesShim(n)
    cid = z3.Int("self_id")
    self_ = HObj(cm.defs["Cluster"], CLUSTER_SCHEMA, cid, "Cluster")
    # state of a cluster returned by get_clusters: radii and threshold are the clustering ones; representation invariant of the caches
    st.ghost["radii_tok"] = z3.Int("radii_used")
    st.ghost["thr_tok"] = z3.Int("threshold_used")
    st.assume(st.ghost["radii_tok"] >= 0)
    st.assume(TOK(st, "_radii", cid) == st.ghost["radii_tok"])
    st.assume(TOK(st, "_bond_threshold", cid) == st.ghost["thr_tok"])
    st.assume(z3.Or(CACHE_NONE(st, cid), CACHE_SET(st, cid) == S(st, cid)))
    dn = _arr(st, "Cluster", "_dimensionality", "isnone", B)
    dv = _arr(st, "Cluster", "_dimensionality", "v", I)
    spec_none = DIMSPEC_NONE(S(st, cid), st.ghost["thr_tok"], st.ghost["radii_tok"])
    spec_val = DIMSPEC_VAL(S(st, cid), st.ghost["thr_tok"], st.ghost["radii_tok"])
    # cached dimensionality: not yet computed (None), or the value computed earlier for these indices
    st.assume(z3.Or(dn[cid], z3.And(z3.Not(spec_none), dv[cid] == spec_val)))
    return [self_], {}, {"cid": cid, "self": self_, "spec": (spec_none, spec_val), "H0": snapshot(st)}


def post_getdim(st, ctx, r):
    cid = ctx["cid"]
    spec_none, spec_val = ctx["spec"]
    H0 = ctx["H0"]
    if r is None:
        st.prove("result-equals-get_dimensionality-of-own-atoms", spec_none)
        second = None
    else:
        if not isinstance(r, OptInt):
            st.prove("result-equals-get_dimensionality-of-own-atoms", z3.BoolVal(False))
            return
        st.prove("result-equals-get_dimensionality-of-own-atoms", z3.And(r.isnone == spec_none, z3.Implies(z3.Not(spec_none), r.v == spec_val)))
    st.prove("indices-unchanged", S(st, cid) == S(st, cid, H0))
    st.prove("cache-still-coherent", z3.Or(CACHE_NONE(st, cid), CACHE_SET(st, cid) == S(st, cid)))
    # idempotence: a second call returns the same value
    it = ctx["interp"]
    cm = cluster_ctx()
    r2 = it.call(cm.get("Cluster.get_dimensionality"), [ctx["self"]])
    if isinstance(r, OptInt) and isinstance(r2, OptInt):
        st.prove("repeated-call-same-value", z3.And(r.isnone == r2.isnone, z3.Implies(z3.Not(r.isnone), r.v == r2.v)))
    else:
        st.prove("repeated-call-same-value", z3.BoolVal(r is r2))


GETDIM_CONTRACTS = {"matid/geometry/geometry.py:get_dimensionality": getdim_contract}


# ---- Cluster.__init__ -----------------------------------------------------------------------------
def mk_init(st, it):
    from engine.heap import fresh_set

    cm = cluster_ctx()
    o = Obj(cm.defs["Cluster"])
    idx = fresh_set(st, "idx")
    sp = fresh_set(st, "species")
    rad = RadiiRef(z3.Int("radii_tok"))
    thr = ThrRef(z3.Int("thr_tok"))
    return [o, idx, sp, RegionRef(z3.Int("region_tok"))], {"system": "SYS", "distances": "DIST", "radii": rad, "bond_threshold": thr}, \
        {"o": o, "idx": idx, "sp": sp, "rad": rad, "thr": thr}


def post_init(st, ctx, r):
    o = ctx["o"]
    f = o._f
    st.prove("indices-is-a-list-with-the-same-elements", z3.BoolVal(isinstance(f.get("indices"), SymList)) if not isinstance(f.get("indices"), SymList)
             else f["indices"].s.arr == ctx["idx"].arr)
    if isinstance(f.get("indices"), SymList):
        st.prove("indices-from-a-set-are-duplicate-free", z3bool(f["indices"].dupfree))
    st.prove("species-stored", z3.BoolVal(f.get("species") is ctx["sp"]))
    st.prove("distance-cache-empty", z3.BoolVal("_distance_matrix_radii_mic" in f and f["_distance_matrix_radii_mic"] is None))
    st.prove("dimensionality-not-set", z3.BoolVal("_dimensionality" in f and f["_dimensionality"] is None))
    st.prove("not-merged", z3.BoolVal(f.get("_merged") is False))
    st.prove("radii-stored", z3.BoolVal(f.get("_radii") is ctx["rad"]))
    st.prove("threshold-stored", z3.BoolVal(f.get("_bond_threshold") is ctx["thr"]))
    st.prove("system-and-distances-stored", z3.BoolVal(f.get("_system") == "SYS" and f.get("_distances") == "DIST"))


# ---- merge (inner function of SBC._merge_clusters) ----------------------------------------------------
def mk_merge(st, it):
    init_heap(st)
    n = sint("n_atoms")
    st.assume(n.t >= 1)
    cm = cluster_ctx()
    Z = sym_int_rows("Z", n)
    system = SymAtoms(n, None, None, None, Z)
    ida, idb = z3.Ints("id_a id_b")
    st.assume(ida != idb)
    A = HObj(cm.defs["Cluster"], CLUSTER_SCHEMA, ida, "Cluster")
    Bc = HObj(cm.defs["Cluster"], CLUSTER_SCHEMA, idb, "Cluster")
    a, q = z3.Ints("a!m q!m")
    Zf = z3.Function("Z", I, I)
    for cid in (ida, idb):  # WF(a), WF(b)
        st.assume(z3.ForAll([a], z3.Implies(S(st, cid)[a], z3.And(a >= 0, a < n.t, SPEC(st, cid)[Zf(a)]))))
        st.assume(DUP(st, cid))
    rt = z3.Int("radii_used")
    st.assume(z3.And(TOK(st, "_radii", ida) == rt, TOK(st, "_radii", idb) == rt))
    # closure variables of the inner function
    from engine.pyvc import Env
    env = Env()
    thr = ThrRef(z3.Int("thr_tok"))
    env.vars.update({"distances": "DIST", "bond_threshold": thr, "self": None})
    # every other parameter of the enclosing _merge_clusters is visible to the inner function: distinct tokens
    import ast as _ast
    outer = sbc_ctx().get("SBC._merge_clusters").node
    for a_ in outer.args.args:
        if a_.arg not in env.vars and a_.arg not in ("system",):
            env.vars[a_.arg] = ThrRef(z3.Int("outer_param_" + a_.arg))
    return [system, A, Bc], {}, {"closure": env, "ida": ida, "idb": idb, "n": n, "Zf": Zf, "rt": rt, "thr": thr, "H0": snapshot(st)}


def post_merge(st, ctx, r):
    ida, idb, n, Zf = ctx["ida"], ctx["idb"], ctx["n"], ctx["Zf"]
    a = z3.Int("a!m")
    st.prove("returns-a-new-cluster", z3.BoolVal(isinstance(r, Obj) and r._cls.name == "Cluster"))
    if not isinstance(r, Obj):
        return
    f = r._f
    idx = f["indices"]
    Sa, Sb, Pa, Pb = S(st, ida), S(st, idb), SPEC(st, ida), SPEC(st, idb)
    la, lb = SymList(SymSet(Sa), True)._len().t, SymList(SymSet(Sb), True)._len().t
    a_is_target = la > lb
    St = z3.If(a_is_target, Sa, Sb)
    Ss = z3.If(a_is_target, Sb, Sa)
    Pt = z3.If(a_is_target, Pa, Pb)
    R = idx.s.arr
    st.prove("indices.duplicate-free", z3bool(idx.dupfree))
    st.prove("indices.are-target-plus-same-species-atoms-of-source", z3.ForAll([a], R[a] == z3.Or(St[a], z3.And(Ss[a], Pt[Zf(a)]))))
    st.prove("indices.subset-of-union", z3.ForAll([a], z3.Implies(R[a], z3.Or(Sa[a], Sb[a]))))
    st.prove("indices.in-range", z3.ForAll([a], z3.Implies(R[a], z3.And(a >= 0, a < n.t))))
    sp = f["species"]
    st.prove("species.are-the-targets", sp.arr == Pt if isinstance(sp, SymSet) else z3.BoolVal(False))
    if isinstance(sp, SymSet):
        st.prove("species.cover-every-atom", z3.ForAll([a], z3.Implies(R[a], sp.arr[Zf(a)])))
    st.prove("radii-forwarded(C13)", f["_radii"].tok == ctx["rt"] if isinstance(f.get("_radii"), RadiiRef) else z3.BoolVal(False))
    st.prove("threshold-forwarded", z3.BoolVal(f.get("_bond_threshold") is ctx["thr"]))
    st.prove("distance-cache-empty", z3.BoolVal(f.get("_distance_matrix_radii_mic", 1) is None))
    st.prove("inputs-untouched", z3.And(S(st, ida) == S(st, ida, ctx["H0"]), S(st, idb) == S(st, idb, ctx["H0"])))
