"""Contract and loop invariant of SBC._merge_clusters (the while loop) — sidecar. The inner function merge is under the contract proved in
section merge."""
from __future__ import annotations

import z3

from contracts.sbc_model import (sbc_ctx, cluster_ctx, S, DUP, SPEC, init_heap, DistancesShim, CLUSTER_SCHEMA, CACHE_NONE, TOK, ThrRef)
from contracts.sbc_main import WFbag, ZF, ZRows
from engine import contexts
from engine.aseshim import SymAtoms
from engine.heap import HObj, SymSet, ObjBag, fresh_set, havoc_field, snapshot, I, B, _arr
from engine.pyvc import SR, sint, sreal, z3num, z3bool, cur
from engine.symcoll import LoopSpec

FN = "SBC._merge_clusters"
a, c = z3.Ints("a!ml c!ml")


def mk(st, it):
    init_heap(st)
    n = sint("n_atoms")
    st.assume(n.t >= 1)
    st.ghost["n"] = n
    cm = cluster_ctx()
    Z = ZRows(n, lambda i: SR(ZF(z3num(i))), ())
    system = SymAtoms(n, None, None, None, Z)
    st.n += 1
    bag = ObjBag(z3.Const("clusters_in", z3.ArraySort(I, B)), cm.defs["Cluster"], CLUSTER_SCHEMA, "Cluster")
    st.ghost["W"] = z3.Int("watermark0")
    st.ghost["rt"], st.ghost["tt"] = z3.Int("radii_tok"), z3.Int("thr_tok")
    for nm, f in WFbag(st, bag.ids, n, st.ghost["rt"], st.ghost["tt"], st.ghost["W"]):
        st.assume(f)
    st.ghost["in_ids"] = bag.ids
    st.ghost["H0"] = snapshot(st)
    thr = ThrRef(st.ghost["tt"])

    def alloc(cls):
        return None

    self_ = contexts.make_self(sbc_ctx(), "SBC")
    return [self_, system, bag, sreal("merge_threshold"), "DIST", thr], {}, {"n": n, "bag": bag}


def merge_contract(it, st, bound, site):
    """inner merge(system, a, b): a new cluster (proved in section merge): atoms from a and b, in range, duplicate-free, non-empty, species cover every atom,
    caches empty, radii/threshold of the inputs"""
    A, Bc = bound["a"], bound["b"]
    n = st.ghost["n"]
    W = st.ghost["W"]
    nid = st.fresh_int("merged_cluster")
    st.assume(nid >= W)
    st.ghost["W"] = nid + 1
    o = HObj(cluster_ctx().defs["Cluster"], CLUSTER_SCHEMA, nid, "Cluster")
    x = z3.Int("x!mc")
    # fields of the fresh object (only this id is written)
    from engine.heap import SymList, OptSetToken
    T = fresh_set(st, "merged_indices")
    Sa, Sb = S(st, A.id), S(st, Bc.id)
    st.assume(z3.ForAll([x], z3.Implies(T.mem(x), z3.Or(Sa[x], Sb[x]))))
    w = st.fresh_int("member_of_merged")
    st.assume(T.mem(w))  # non-empty: contains the target cluster's atoms (explicit witness)
    P = fresh_set(st, "merged_species")
    st.assume(z3.ForAll([x], z3.Implies(T.mem(x), P.mem(ZF(x)))))
    o.write("indices", SymList(T, True, None))
    o.write("species", P)
    o.write("_merged", False)
    o.write("_dimensionality", None)
    o.write("_distance_matrix_radii_mic", None)
    from contracts.sbc_model import RadiiRef, RegionRef
    o.write("_radii", RadiiRef(TOK(st, "_radii", A.id)))
    o.write("_bond_threshold", ThrRef(TOK(st, "_bond_threshold", A.id)))
    o.write("_region", RegionRef(st.fresh_int("region")))
    return o


def _iso_name(env):
    """the list of clusters that were not merged, whatever the code calls it (the only list-valued local besides the work list)"""
    from engine.symcoll import local_named
    return local_named(env, "isolated_clusters", lambda v: isinstance(v, (list, ObjBag)), exclude=("clusters", "overlaps"))


def all_ids(env):
    iso = ObjBag.ids_of(env.vars[_iso_name(env)])
    cl = ObjBag.ids_of(env.lookup("clusters"))
    return z3.Map(z3.Or(z3.Bool("b1"), z3.Bool("b2")).decl(), iso, cl)


def inv(st, env, k, old):
    n = st.ghost["n"]
    ids = all_ids(env)
    H0 = st.ghost["H0"]
    x = z3.Int("x!iv")
    c0 = z3.Int("c0!iv")
    out = WFbag(st, ids, n, st.ghost["rt"], st.ghost["tt"], st.ghost["W"])
    # atoms only come from the input clusters
    out.append(("atoms-come-from-the-input-clusters",
                z3.ForAll([c, a], z3.Implies(z3.And(ids[c], S(st, c)[a]), z3.Exists([c0], z3.And(st.ghost["in_ids"][c0], S(st, c0, H0)[a]))))))
    return out


def havoc(st, env, old):
    for f in ("indices", "species", "_merged", "_dimensionality", "_distance_matrix_radii_mic", "_radii", "_bond_threshold", "_region"):
        havoc_field(st, "Cluster", f)
    cm = cluster_ctx()
    for nm in ("clusters", _iso_name(env)):
        st.n += 1
        env.vars[nm] = ObjBag(z3.Const("%s!%d" % (nm, st.n), z3.ArraySort(I, B)), cm.defs["Cluster"], CLUSTER_SCHEMA, "Cluster")
    # the parameter `clusters` is mutated in place by pop/append: the havocked object replaces it for the rest of the function
    st.ghost["W"] = st.fresh_int("watermark")
    for nm in ("i_cluster", "i_indices", "isolated", "overlaps", "best_overlap", "best_grain", "target_cluster", "best_overlap_score", "merged"):
        env.vars.pop(nm, None)


def variant(st, env):
    """termination: the length of the work list. Every iteration removes the head; a merge removes one more element and appends one.
    CARD is uninterpreted: the facts about finite sets that the argument needs (card(S - x), card(S + x)) are instantiated along the
    chain of updates of this iteration (lemma L-CARD; the list holds distinct objects, see WFbag)."""
    from engine.heap import CARD, card_store_facts
    cl = ObjBag.ids_of(env.lookup("clusters"))
    card_store_facts(st, cl)
    st.assume(CARD(cl) >= 0)
    return CARD(cl)


LOOPS = {(FN, 1): LoopSpec(inv, havoc, variant=variant, name="merge-loop")}
CONTRACTS = {"matid/clustering/sbc.py:SBC._merge_clusters.merge": merge_contract}


def post(st, ctx, r):
    n = ctx["n"]
    ids = ObjBag.ids_of(r)
    H0 = st.ghost["H0"]
    c0 = z3.Int("c0!p")
    for nm, f in WFbag(st, ids, n, st.ghost["rt"], st.ghost["tt"], st.ghost["W"]):
        st.prove("result." + nm, f)
    st.prove("result.atoms-come-from-the-input-clusters",
             z3.ForAll([c, a], z3.Implies(z3.And(ids[c], S(st, c)[a]), z3.Exists([c0], z3.And(st.ghost["in_ids"][c0], S(st, c0, H0)[a])))))
