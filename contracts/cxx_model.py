"""Model objects for the translated C++ of matid/ext (sidecar): arrays of symbolic shape, integer lists, bins."""
from __future__ import annotations

import numpy as np
import z3

from engine import cxxvc, cxxrt
from engine.errors import Unsupported
from engine.heap import SymSet, fresh_set, I
from engine.pyvc import ModuleCtx, SR, SB, cur, z3num, z3bool, mkbool

R = z3.RealSort()

SPEC = [("geometry.cpp", "norm", None, None), ("geometry.cpp", "cross", None, None), ("geometry.cpp", "dot", None, None),
        ("geometry.cpp", "extend_system", None, None), ("geometry.cpp", "get_cell_list", None, None),
        ("geometry.cpp", "get_displacement_tensor", None, "get_displacement_tensor_cpp"),
        ("celllist.cpp", "CellList", "CellList", "CellList_ctor"), ("celllist.cpp", "init", "CellList", "CellList_init"),
        ("celllist.cpp", "get_neighbours_for_position", "CellList", "CellList_get_neighbours_for_position"),
        ("celllist.cpp", "get_displacement_tensor", "CellList", "CellList_get_displacement_tensor")]

_cache = {}


def module():
    if "m" not in _cache:
        src, info = cxxvc.translate_all(SPEC)
        m = ModuleCtx.from_source("matid/ext (translated C++)", src, dict(cxxrt.RUNTIME))
        m.cxx_info = info
        _cache["m"] = m
    return _cache["m"]


class IntList:
    """std::vector<int>/<double> with symbolic length: (len, index -> value)"""

    _symbolic_iter = True

    def __init__(self, length, arr, sort="int"):
        self.length = length
        self.arr = arr
        self.sort = sort

    @staticmethod
    def fresh(st, name, sort="int"):
        st.n += 1
        rs = I if sort == "int" else R
        ln = SR(st.fresh_int("len_" + name))
        st.assume(ln.t >= 0)
        return IntList(ln, z3.Const("%s!%d" % (name, st.n), z3.ArraySort(I, rs)), sort)

    @staticmethod
    def of(x, sort="int"):
        if isinstance(x, IntList):
            return x
        if isinstance(x, list):
            rs = I if sort == "int" else R
            a = z3.K(I, z3.IntVal(0) if sort == "int" else z3.RealVal(0))
            for k, v in enumerate(x):
                a = z3.Store(a, k, z3num(v))
            return IntList(SR(z3.IntVal(len(x))), a, sort)
        raise Unsupported("not a vector: %r" % type(x))

    def append(self, v):
        self.arr = z3.Store(self.arr, self.length.t, z3num(v))
        self.length = SR(self.length.t + 1)

    def _len(self):
        return self.length

    def _getitem(self, i):
        cur().safety("vector-index", z3.And(z3num(i) >= 0, z3num(i) < self.length.t))
        return SR(z3.Select(self.arr, z3num(i)))

    def _at(self, k):
        return SR(z3.Select(self.arr, z3num(k)))

    def _state(self):
        return [self.length.t, self.arr]


class SymArr:
    """array of symbolic shape (pybind array created by the C++ code): nested z3 arrays; writes are recorded"""

    def __init__(self, name, shape, sort="real"):
        self.name = name
        self.shape = tuple(shape)
        rs = R if sort == "real" else I
        s = rs
        for _ in shape:
            s = z3.ArraySort(I, s)
        st = cur()
        st.n += 1
        self.a = z3.Const("%s!%d" % (name, st.n), s)
        self.writes = []

    def _idx(self, idx):
        if not isinstance(idx, tuple):
            idx = (idx,)
        if len(idx) != len(self.shape):
            raise Unsupported("partial index of %s" % self.name)
        return [z3num(i) for i in idx]

    def _getitem(self, idx):
        t = self.a
        for i in self._idx(idx):
            t = z3.Select(t, i)
        return SR(t)

    def _setitem(self, idx, v):
        ii = self._idx(idx)
        st = cur()
        for i, d in zip(ii, self.shape):
            st.safety("array-bounds(%s)" % self.name, z3.And(i >= 0, i < z3num(d)))
        self.writes.append((ii, z3num(v)))

        def upd(arr, k):
            if k == len(ii) - 1:
                val = z3num(v)
                if z3.is_int(val) and arr.sort().range() == R:
                    val = z3.ToReal(val)
                return z3.Store(arr, ii[k], val)
            return z3.Store(arr, ii[k], upd(z3.Select(arr, ii[k]), k + 1))

        self.a = upd(self.a, 0)

    def _state(self):
        return [self.a]
