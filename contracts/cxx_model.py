"""Model objects for the translated C++ of matid/ext (sidecar): arrays of symbolic shape, integer lists, bins."""
from __future__ import annotations

import numpy as np
import z3

from engine import cxxvc, cxxrt
from engine.errors import Unsupported
from engine.heap import SymSet, fresh_set, I
from engine.pyvc import ModuleCtx, SR, SB, cur, z3num, z3bool, mkbool

R = z3.RealSort()

SPEC = [("geometry.cpp", "norm", None, None), ("geometry.cpp", "cross", None, None), ("geometry.cpp", "dot", None, None),
        ("geometry.cpp", "extend_system", None, None), ("geometry.cpp", "get_cell_list", None, None),
        ("geometry.cpp", "get_displacement_tensor", None, "get_displacement_tensor_cpp"),
        ("celllist.cpp", "CellList", "CellList", "CellList_ctor"), ("celllist.cpp", "init", "CellList", "CellList_init"),
        ("celllist.cpp", "get_neighbours_for_position", "CellList", "CellList_get_neighbours_for_position"),
        ("celllist.cpp", "get_displacement_tensor", "CellList", "CellList_get_displacement_tensor")]

_cache = {}


def module():
    if "m" not in _cache:
        src, info = cxxvc.translate_all(SPEC)
        m = ModuleCtx.from_source("matid/ext (translated C++)", src, dict(cxxrt.RUNTIME))
        m.cxx_info = info
        _cache["m"] = m
    return _cache["m"]


class IntList:
    """std::vector<int>/<double> with symbolic length: (len, index -> value)"""

    _symbolic_iter = True

    def __init__(self, length, arr, sort="int"):
        self.length = length
        self.arr = arr
        self.sort = sort

    @staticmethod
    def fresh(st, name, sort="int"):
        st.n += 1
        rs = I if sort == "int" else R
        ln = SR(st.fresh_int("len_" + name))
        st.assume(ln.t >= 0)
        return IntList(ln, z3.Const("%s!%d" % (name, st.n), z3.ArraySort(I, rs)), sort)

    @staticmethod
    def of(x, sort="int"):
        if isinstance(x, IntList):
            return x
        if isinstance(x, list):
            rs = I if sort == "int" else R
            a = z3.K(I, z3.IntVal(0) if sort == "int" else z3.RealVal(0))
            for k, v in enumerate(x):
                a = z3.Store(a, k, z3num(v))
            return IntList(SR(z3.IntVal(len(x))), a, sort)
        raise Unsupported("not a vector: %r" % type(x))

    def append(self, v):
        self.arr = z3.Store(self.arr, self.length.t, z3num(v))
        self.length = SR(self.length.t + 1)

    def _len(self):
        return self.length

    def _getitem(self, i):
        cur().safety("vector-index", z3.And(z3num(i) >= 0, z3num(i) < self.length.t))
        return SR(z3.Select(self.arr, z3num(i)))

    def _at(self, k):
        return SR(z3.Select(self.arr, z3num(k)))

    def _state(self):
        return [self.length.t, self.arr]


class SymArr:
    """array of symbolic shape (pybind array created by the C++ code): nested z3 arrays; writes are recorded"""

    def __init__(self, name, shape, sort="real"):
        self.name = name
        self.shape = tuple(shape)
        rs = R if sort == "real" else I
        s = rs
        for _ in shape:
            s = z3.ArraySort(I, s)
        st = cur()
        st.n += 1
        self.a = z3.Const("%s!%d" % (name, st.n), s)
        self.writes = []

    def _idx(self, idx):
        if not isinstance(idx, tuple):
            idx = (idx,)
        if len(idx) != len(self.shape):
            raise Unsupported("partial index of %s" % self.name)
        return [z3num(i) for i in idx]

    def _getitem(self, idx):
        t = self.a
        for i in self._idx(idx):
            t = z3.Select(t, i)
        return SR(t)

    def _setitem(self, idx, v):
        ii = self._idx(idx)
        st = cur()
        for i, d in zip(ii, self.shape):
            st.safety("array-bounds(%s)" % self.name, z3.And(i >= 0, i < z3num(d)))
        self.writes.append((ii, z3num(v)))

        def upd(arr, k):
            if k == len(ii) - 1:
                val = z3num(v)
                if z3.is_int(val) and arr.sort().range() == R:
                    val = z3.ToReal(val)
                return z3.Store(arr, ii[k], val)
            return z3.Store(arr, ii[k], upd(z3.Select(arr, ii[k]), k + 1))

        self.a = upd(self.a, 0)

    def _state(self):
        return [self.a]


# ---------------------------------------------------------------------------------------------
# CellList model
class PosList:
    """vector<vector<double>> positions of the extended system: N rows given by uninterpreted functions"""

    def __init__(self, N, prefix="X"):
        self.N = N
        self.fx = [z3.Function("%s%d" % (prefix, k), I, R) for k in range(3)]

    def _len(self):
        return self.N

    def _getitem(self, i):
        cur().safety("positions-index", z3.And(z3num(i) >= 0, z3num(i) < z3num(self.N)))
        return [SR(f(z3num(i))) for f in self.fx]

    def at(self, i, k):
        return self.fx[k](z3num(i))


class RowList:
    """vector<vector<double>> (factors) / vector<int> (indices) by uninterpreted functions"""

    def __init__(self, N, name, width=None, sort="real"):
        self.N = N
        self.width = width
        rs = R if sort == "real" else I
        self.f = [z3.Function("%s%d" % (name, k), I, rs) for k in range(width)] if width else [z3.Function(name, I, rs)]

    def _len(self):
        return self.N

    def _getitem(self, i):
        if self.width:
            return [SR(f(z3num(i))) for f in self.f]
        return SR(self.f[0](z3num(i)))


class Bins:
    """vector<vector<vector<vector<int>>>>: which extended atom sits in which bin (three ghost arrays idx -> bin coordinate)"""

    def __init__(self, dims):
        self.dims = dims
        st = cur()
        st.n += 1
        self.b = [z3.Const("bin%s!%d" % (c, st.n), z3.ArraySort(I, I)) for c in "xyz"]
        self.filled = SymSet()

    def _getitem(self, i):
        return _BinView(self, [i])

    def _state(self):
        return list(self.b) + [self.filled.arr]


class _BinView:
    _symbolic_iter = True

    def __init__(self, bins, idx):
        self.bins = bins
        self.idx = idx

    def _getitem(self, j):
        return _BinView(self.bins, self.idx + [j])

    def _check(self):
        st = cur()
        for v, d, c in zip(self.idx, self.bins.dims, "xyz"):
            st.prove_or_assume("bin-index-in-range(%s)" % c, z3.And(z3num(v) >= 0, z3num(v) < z3num(d)))

    def append(self, idx):
        if len(self.idx) != 3:
            raise Unsupported("append to a partial bin index")
        self._check()
        B = self.bins
        for k in range(3):
            B.b[k] = z3.Store(B.b[k], z3num(idx), z3num(self.idx[k]))
        B.filled = SymSet(z3.Store(B.filled.arr, z3num(idx), z3.BoolVal(True)))

    # iteration over the content of one bin (order not assumed)
    def _setdom(self):
        B = self.bins
        st = cur()
        s_ = fresh_set(st, "bincontent")
        q = z3.Int("q!bin")
        st.assume(z3.ForAll([q], s_.mem(q) == z3.And(B.filled.mem(q), *[z3.Select(B.b[k], q) == z3num(self.idx[k]) for k in range(3)])))
        return s_

    def _elem(self, x):
        return x

    def _cxx_iter(self):
        return self


class AppendLog:
    """result vector of a query: the values appended on this path are recorded"""

    def __init__(self, name):
        self.name = name
        self.log = []

    def append(self, v):
        self.log.append(v)

    def _state(self):
        return []


class MinMap:
    """unordered_map<int, tuple<double, vector, vector>> : key set + per-key tuple components"""

    def __init__(self):
        st = cur()
        st.n += 1
        self.keys = SymSet()
        self.dist = z3.Const("mm_dist!%d" % st.n, z3.ArraySort(I, R))
        self.src = z3.Const("mm_src!%d" % st.n, z3.ArraySort(I, I))  # ghost: extended index the entry came from
        self.disp = [z3.Const("mm_disp%d!%d" % (k, st.n), z3.ArraySort(I, R)) for k in range(3)]
        self.fac = [z3.Const("mm_fac%d!%d" % (k, st.n), z3.ArraySort(I, R)) for k in range(3)]

    def havoc(self):
        st = cur()
        st.n += 1
        self.keys = fresh_set(st, "mm_keys")
        self.dist = z3.Const("mm_dist!%d" % st.n, z3.ArraySort(I, R))
        self.src = z3.Const("mm_src!%d" % st.n, z3.ArraySort(I, I))
        self.disp = [z3.Const("mm_disp%d!%d" % (k, st.n), z3.ArraySort(I, R)) for k in range(3)]
        self.fac = [z3.Const("mm_fac%d!%d" % (k, st.n), z3.ArraySort(I, R)) for k in range(3)]

    def _find(self, k):
        return _Find(self, k)

    def _getitem(self, k):
        kk = z3num(k)
        cur().safety("map-key-present", self.keys.mem(kk))
        return (SR(z3.Select(self.dist, kk)), [SR(z3.Select(a, kk)) for a in self.disp], [SR(z3.Select(a, kk)) for a in self.fac])

    def _setitem(self, k, v):
        kk = z3num(k)
        d, disp, fac = v
        self.keys = SymSet(z3.Store(self.keys.arr, kk, z3.BoolVal(True)))
        self.dist = z3.Store(self.dist, kk, z3num(d))
        self.disp = [z3.Store(a, kk, z3num(x)) for a, x in zip(self.disp, disp)]
        self.fac = [z3.Store(a, kk, z3num(x)) for a, x in zip(self.fac, fac)]
        st = cur()
        if "current_idx" in st.ghost:
            self.src = z3.Store(self.src, kk, z3num(st.ghost["current_idx"]))

    def _state(self):
        return [self.keys.arr, self.dist] + self.disp + self.fac

    # iteration over (key, value) pairs
    _symbolic_iter = True

    def _cxx_iter(self):
        return self

    def _setdom(self):
        return self.keys

    def _elem(self, x):
        kk = z3num(x)
        return (x, (SR(z3.Select(self.dist, kk)), [SR(z3.Select(a, kk)) for a in self.disp], [SR(z3.Select(a, kk)) for a in self.fac]))


class _Find:
    def __init__(self, m, k):
        self.m, self.k = m, k

    def __eq__(self, o):
        if isinstance(o, _End):
            return mkbool(z3.Not(self.m.keys.mem(z3num(self.k))))
        return NotImplemented

    def __ne__(self, o):
        if isinstance(o, _End):
            return mkbool(self.m.keys.mem(z3num(self.k)))
        return NotImplemented

    __hash__ = None


class _End:
    def __init__(self, m):
        self.m = m
