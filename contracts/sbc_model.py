"""Model objects and module context for matid/clustering/sbc.py and cluster.py (sidecar; nothing here is proved code)."""
from __future__ import annotations

import z3

from engine import contexts
from engine.heap import (Field, SymSet, SymList, HObj, SymObjSeq, SymObjMap, fresh_set, heap, I, B, SetSort, empty_set,
                         havoc_field, snapshot, _arr)
from engine.npshim import NP
from engine.pyvc import ModuleCtx, SR, SB, cur, z3num, z3bool, mkbool
from engine.aseshim import AseModule
from engine.errors import Unsupported

CLUSTER_SCHEMA = {
    "indices": Field("intlist"),
    "species": Field("intset"),
    "_merged": Field("bool"),
    "_dimensionality": Field("optint"),
    "_distance_matrix_radii_mic": Field("optset"),
    "_region": Field("int"),       # region token (-1: None)
    "_radii": Field("int"),        # radii token (-1: None)
    "_bond_threshold": Field("int"),  # threshold token
}


class MaskShim:
    def __init__(self, n):
        self.n = n

    def _argwhere(self):
        return ArgwhereShim(self.n)


class ArgwhereShim:
    def __init__(self, n):
        self.n = n

    def _getitem(self, idx):
        st = cur()
        s = fresh_set(st, "near")
        a = z3.Int("a!near")
        st.assume(z3.ForAll([a], z3.Implies(z3.Select(s.arr, a), z3.And(a >= 0, a < z3num(self.n)))))
        return SymList(s, True, None)


class RowShim:
    def __init__(self, n):
        self.n = n

    def __lt__(self, o):
        return MaskShim(self.n)

    def __le__(self, o):
        return MaskShim(self.n)


class MatShim:
    """n x n float matrix the contracts do not look into"""

    def __init__(self, n, name="D"):
        self.n = n
        self.name = name

    def _getitem(self, idx):
        if isinstance(idx, tuple) and len(idx) == 2 and isinstance(idx[1], slice):
            cur().safety("row-index", z3.And(z3num(idx[0]) >= 0, z3num(idx[0]) < z3num(self.n)))
            return RowShim(self.n)
        h = getattr(idx, "_ix_select", None)
        if h is not None:
            return h(self)
        raise Unsupported("matrix index %r" % (idx,))


class DistancesShim:
    def __init__(self, n):
        self.dist_matrix_radii_mic = MatShim(n, "dist_matrix_radii_mic")
        self.dist_matrix_mic = MatShim(n, "dist_matrix_mic")
        self.n = n


_cache = {}


def cluster_ctx():
    if "cluster" not in _cache:
        geo = contexts.geometry_ctx()
        g = {"np": NP, "Atoms": AseModule.Atoms,
             "matid": contexts.ModNS("matid", None, {"geometry": contexts.ModNS("matid.geometry", geo)})}
        _cache["cluster"] = ModuleCtx("matid/clustering/cluster.py", g)
    return _cache["cluster"]


def sbc_ctx():
    if "sbc" not in _cache:
        geo = contexts.geometry_ctx()
        cm = cluster_ctx()
        ClusterCls = cm.defs["Cluster"]

        def dd(factory=None):
            return SymObjMap(ClusterCls, CLUSTER_SCHEMA, "Cluster")

        g = {"np": NP, "ase": AseModule(), "defaultdict": dd, "Cluster": ClusterCls,
             "matid": contexts.ModNS("matid", None, {"geometry": contexts.ModNS("matid.geometry", geo)})}
        _cache["sbc"] = ModuleCtx("matid/clustering/sbc.py", g)
    return _cache["sbc"]


def cluster_seq(n, name="clusters"):
    return SymObjSeq(n, cluster_ctx().defs["Cluster"], CLUSTER_SCHEMA, name, "Cluster")


def S(st, cid, hp=None):
    """set view of the indices of cluster id `cid` (z3 array) in the current heap or a snapshot"""
    a = hp[("Cluster", "indices", "set")] if hp is not None else _arr(st, "Cluster", "indices", "set", SetSort)
    return z3.Select(a, cid)


def DUP(st, cid, hp=None):
    a = hp[("Cluster", "indices", "dupfree")] if hp is not None else _arr(st, "Cluster", "indices", "dupfree", B)
    return z3.Select(a, cid)


def SPEC(st, cid, hp=None):
    a = hp[("Cluster", "species", "set")] if hp is not None else _arr(st, "Cluster", "species", "set", SetSort)
    return z3.Select(a, cid)


def init_heap(st):
    """touch every field so that snapshots contain all arrays"""
    for f, fd in CLUSTER_SCHEMA.items():
        parts = {"intlist": [("set", SetSort), ("dupfree", B)], "intset": [("set", SetSort)], "bool": [("v", B)], "int": [("v", I)],
                 "optint": [("isnone", B), ("v", I)], "optset": [("isnone", B), ("set", SetSort)]}[fd.kind]
        for p, srt in parts:
            _arr(st, "Cluster", f, p, srt)
