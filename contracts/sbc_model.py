"""Model objects and module context for matid/clustering/sbc.py and cluster.py (sidecar; nothing here is proved code)."""
from __future__ import annotations

import z3

from engine import contexts
from engine.heap import (Field, SymSet, SymList, HObj, SymObjSeq, SymObjMap, fresh_set, heap, I, B, SetSort, empty_set,
                         havoc_field, snapshot, _arr)
from engine.npshim import NP
from engine.pyvc import ModuleCtx, SR, SB, cur, z3num, z3bool, mkbool
from engine.aseshim import AseModule
from engine.errors import Unsupported

CLUSTER_SCHEMA = {
    "indices": Field("intlist"),
    "species": Field("intset"),
    "_merged": Field("bool"),
    "_dimensionality": Field("optint"),
    "_distance_matrix_radii_mic": Field("optset"),
    "_region": Field("int"),       # region token (-1: None)
    "_radii": Field("int"),        # radii token (-1: None)
    "_bond_threshold": Field("int"),  # threshold token
}


class MaskShim:
    def __init__(self, n):
        self.n = n

    def _argwhere(self):
        return ArgwhereShim(self.n)


class ArgwhereShim:
    def __init__(self, n):
        self.n = n

    def _getitem(self, idx):
        st = cur()
        s = fresh_set(st, "near")
        a = z3.Int("a!near")
        st.assume(z3.ForAll([a], z3.Implies(z3.Select(s.arr, a), z3.And(a >= 0, a < z3num(self.n)))))
        return SymList(s, True, None)


class RowShim:
    def __init__(self, n):
        self.n = n

    def __lt__(self, o):
        return MaskShim(self.n)

    def __le__(self, o):
        return MaskShim(self.n)


class MatShim:
    """n x n float matrix the contracts do not look into"""

    def __init__(self, n, name="D"):
        self.n = n
        self.name = name

    def _getitem(self, idx):
        if isinstance(idx, tuple) and len(idx) == 2 and isinstance(idx[1], slice):
            cur().safety("row-index", z3.And(z3num(idx[0]) >= 0, z3num(idx[0]) < z3num(self.n)))
            return RowShim(self.n)
        h = getattr(idx, "_ix_select", None)
        if h is not None:
            return h(self)
        raise Unsupported("matrix index %r" % (idx,))


class DistancesShim:
    def __init__(self, n):
        self.dist_matrix_radii_mic = MatShim(n, "dist_matrix_radii_mic")
        self.dist_matrix_mic = MatShim(n, "dist_matrix_mic")
        self.n = n


_cache = {}


def cluster_ctx():
    if "cluster" not in _cache:
        geo = contexts.geometry_ctx()
        g = {"np": NP, "Atoms": AseModule.Atoms,
             "matid": contexts.ModNS("matid", None, {"geometry": contexts.ModNS("matid.geometry", geo)})}
        _cache["cluster"] = ModuleCtx("matid/clustering/cluster.py", g)
    return _cache["cluster"]


def sbc_ctx():
    if "sbc" not in _cache:
        geo = contexts.geometry_ctx()
        cm = cluster_ctx()
        ClusterCls = cm.defs["Cluster"]

        def dd(factory=None):
            return SymObjMap(ClusterCls, CLUSTER_SCHEMA, "Cluster")

        g = {"np": NP, "ase": AseModule(), "defaultdict": dd, "Cluster": ClusterCls,
             "matid": contexts.ModNS("matid", None, {"geometry": contexts.ModNS("matid.geometry", geo)})}
        _cache["sbc"] = ModuleCtx("matid/clustering/sbc.py", g)
    return _cache["sbc"]


def cluster_seq(n, name="clusters"):
    return SymObjSeq(n, cluster_ctx().defs["Cluster"], CLUSTER_SCHEMA, name, "Cluster")


def S(st, cid, hp=None):
    """set view of the indices of cluster id `cid` (z3 array) in the current heap or a snapshot"""
    a = hp[("Cluster", "indices", "set")] if hp is not None else _arr(st, "Cluster", "indices", "set", SetSort)
    return z3.Select(a, cid)


def DUP(st, cid, hp=None):
    a = hp[("Cluster", "indices", "dupfree")] if hp is not None else _arr(st, "Cluster", "indices", "dupfree", B)
    return z3.Select(a, cid)


def SPEC(st, cid, hp=None):
    a = hp[("Cluster", "species", "set")] if hp is not None else _arr(st, "Cluster", "species", "set", SetSort)
    return z3.Select(a, cid)


def init_heap(st):
    """touch every field so that snapshots contain all arrays"""
    for f, fd in CLUSTER_SCHEMA.items():
        parts = {"intlist": [("set", SetSort), ("dupfree", B)], "intset": [("set", SetSort)], "bool": [("v", B)], "int": [("v", I)],
                 "optint": [("isnone", B), ("v", I)], "optset": [("isnone", B), ("set", SetSort)], "tok": [("v", I)], "const": []}[fd.kind]
        for p, srt in parts:
            _arr(st, "Cluster", f, p, srt)


# ---------------------------------------------------------------------------------------------
# tokens for fields the contracts only compare
class RegionRef:
    """value of Cluster._region: a LinkedUnitCollection (token) or None (-1)"""

    BASIS = z3.Function("region_basis", I, SetSort)

    def __init__(self, tok):
        self.tok = tok

    def _is_none(self):
        return mkbool(self.tok == -1)

    def _truth(self):
        # LinkedUnitCollection is a dict: truthiness = non-empty (assumed non-empty for regions returned by get_region)
        return mkbool(self.tok != -1)

    def get_basis_indices(self):
        return SymSet(RegionRef.BASIS(self.tok))


class RadiiRef:
    """value of Cluster._radii: the per-atom radii array used for the clustering (token) or None (-1)"""

    def __init__(self, tok):
        self.tok = tok

    def _is_none(self):
        return mkbool(self.tok == -1)

    def _as_array(self):
        return self

    def _getitem(self, idx):
        if isinstance(idx, SymList):
            return RadiiSel(self.tok, idx)
        raise Unsupported("radii[%r]" % (idx,))


class RadiiSel:
    """radii[indices]"""

    def __init__(self, tok, indices):
        self.tok = tok
        self.indices = indices


class ThrRef:
    def __init__(self, tok):
        self.tok = tok

    def _is_none(self):
        return mkbool(self.tok == -1)


CLUSTER_SCHEMA["_region"] = Field("tok", RegionRef)
CLUSTER_SCHEMA["_radii"] = Field("tok", RadiiRef)
CLUSTER_SCHEMA["_bond_threshold"] = Field("tok", ThrRef)
CLUSTER_SCHEMA["_system"] = Field("const", None)
CLUSTER_SCHEMA["_distances"] = Field("const", None)
CLUSTER_SCHEMA["_cell"] = Field("const", None)


def CACHE_NONE(st, cid, hp=None):
    a = hp[("Cluster", "_distance_matrix_radii_mic", "isnone")] if hp is not None else _arr(st, "Cluster", "_distance_matrix_radii_mic", "isnone", B)
    return z3.Select(a, cid)


def CACHE_SET(st, cid, hp=None):
    a = hp[("Cluster", "_distance_matrix_radii_mic", "set")] if hp is not None else _arr(st, "Cluster", "_distance_matrix_radii_mic", "set", SetSort)
    return z3.Select(a, cid)


def TOK(st, field, cid, hp=None):
    a = hp[("Cluster", field, "v")] if hp is not None else _arr(st, "Cluster", field, "v", I)
    return z3.Select(a, cid)


# ---- sub-matrix D[np.ix_(idx, idx)] -----------------------------------------------------------
class IxShim:
    def __init__(self, a, b):
        self.a, self.b = a, b

    def _ix_select(self, mat):
        from engine.heap import OptSetToken

        if self.a is not self.b and not (isinstance(self.a, SymList) and isinstance(self.b, SymList) and self.a.s.arr.eq(self.b.s.arr)):
            raise Unsupported("np.ix_ with two different index lists")
        return OptSetToken(z3.BoolVal(False), self.a.s.arr)


def _ix(self, *others):
    return IxShim(self, others[0] if others else self)


SymList._ix = _ix

# ---- geometry.get_clusters (DBSCAN groups) under contract: A-SK -----------------------------------
COMP = z3.Function("is_largest_bonded_component", SetSort, SetSort, B)  # COMP(T, S): T is a largest connected component of the bonding graph on S


class GroupsShim:
    """result of matid.geometry.get_clusters(submatrix of index list L): a partition of the positions of L into the connected
    components of the graph {D <= threshold} (A-SK, and the contract of geometry.get_clusters proved under C09)"""

    def __init__(self, lst_set):
        self.src = lst_set

    def _max(self, key):
        return PositionsShim(self.src)

    def _len(self):
        n = SR(cur().fresh_int("ngroups"))
        cur().assume(n.t >= 1)
        return n


class PositionsShim:
    """a largest group: non-empty, duplicate-free set of positions of the source list"""

    def __init__(self, src):
        self.src = src

    def _select_positions(self, index_array):
        return SelShim(index_array.lst, self)


class SelShim:
    def __init__(self, lst, pos):
        self.lst = lst
        self.pos = pos

    def tolist(self):
        st = cur()
        T = fresh_set(st, "component")
        x = z3.Int("x!comp")
        st.assume(T.subset_of(self.lst.s))
        st.assume(z3.Exists([x], T.mem(x)))
        st.assume(COMP(T.arr, self.lst.s.arr))
        return SymList(T, self.lst.dupfree, None)


def get_clusters_contract(it, st, bound, site):
    """geometry.get_clusters(dist_matrix, threshold, min_samples): raises on an empty matrix (A-SK), else the groups"""
    from engine.heap import OptSetToken

    mtx = bound["dist_matrix"]
    if not isinstance(mtx, OptSetToken):
        raise Unsupported("get_clusters on %r" % type(mtx))
    x = z3.Int("x!gc")
    if not st.fork(z3.Exists([x], z3.Select(mtx.set, x))):
        raise ValueError("Found array with 0 sample(s)")
    return GroupsShim(mtx.set)
