"""Contract and loop invariants of SBC._localize_clusters (sidecar)."""
from __future__ import annotations

import z3

from contracts.sbc_model import (sbc_ctx, cluster_seq, S, DUP, init_heap, DistancesShim, CLUSTER_SCHEMA)
from engine import contexts
from engine.aseshim import SymAtoms
from engine.heap import HObj, SymSet, havoc_field, snapshot, heap, empty_set, SymObjMap, I
from engine.pyvc import SR, sint, sreal, z3num, z3bool
from engine.symcoll import LoopSpec

FN = "SBC._localize_clusters"
a, c, c1, c2, q = z3.Ints("a!q c!q c1!q c2!q q!q")


class Ctx:
    pass


def member(cx, cid, upto=None):
    p = cx.pos(cid)
    hi = cx.K.t if upto is None else upto
    return z3.And(p >= 0, p < hi, cx.seq.ids(p) == cid)


def mk(st, it):
    cx = Ctx()
    init_heap(st)
    cx.n = sint("n_atoms")
    cx.K = sint("n_clusters")
    st.assume(z3.And(cx.n.t >= 0, cx.K.t >= 0))
    cx.seq = cluster_seq(cx.K)
    cx.pos = z3.Function("pos_clusters", I, I)
    st.assume(z3.ForAll([q], z3.Implies(z3.And(q >= 0, q < cx.K.t), cx.pos(cx.seq.ids(q)) == q)))  # distinct objects
    cx.H0 = snapshot(st)
    # WF precondition: indices in range, duplicate free
    st.assume(z3.ForAll([c, a], z3.Implies(z3.And(member(cx, c), S(st, c)[a]), z3.And(a >= 0, a < cx.n.t))))
    st.assume(z3.ForAll([c], z3.Implies(member(cx, c), DUP(st, c))))
    system = SymAtoms(cx.n, None, None, None, None)
    m = sbc_ctx()
    self_ = contexts.make_self(m, "SBC")
    st.ghost["cx"] = cx
    return [self_, system, cx.seq, sreal("merge_radius"), DistancesShim(cx.n)], {}, {"cx": cx}


def _R(env):
    return env.lookup("overlap_map").R


def havoc_env(names, objs=()):
    def h(st, env, old):
        for nm in names:
            env.vars.pop(nm, None)
        for nm in objs:
            env.vars[nm] = HObj(cx_of(st).seq.cls, CLUSTER_SCHEMA, st.fresh_int(nm), "Cluster")
    return h


def cx_of(st):
    return st.ghost["cx"]


# ---- loop 1 / 2: building the overlap map ---------------------------------------------------
def inv1(st, env, k, old):
    cx = cx_of(st)
    R = _R(env)
    return [("map-is-membership-relation-of-processed-atoms",
             z3.ForAll([a, c], R[a][c] == z3.And(a >= 0, a < k.t, member(cx, c), S(st, c, cx.H0)[a])))]


def havoc1(st, env, old):
    mp = env.lookup("overlap_map")
    st.n += 1
    mp.R = z3.Const("R!%d" % st.n, mp.R.sort())
    for nm in ("i", "cluster"):
        env.vars.pop(nm, None)


def inv2(st, env, p, old):
    cx = cx_of(st)
    R = _R(env)
    i = z3num(env.lookup("i"))
    return [("map-of-earlier-atoms-and-earlier-clusters",
             z3.ForAll([a, c], R[a][c] == z3.Or(z3.And(a >= 0, a < i, member(cx, c), S(st, c, cx.H0)[a]),
                                               z3.And(a == i, member(cx, c, p.t), S(st, c, cx.H0)[i]))))]


def havoc2(st, env, old):
    mp = env.lookup("overlap_map")
    st.n += 1
    mp.R = z3.Const("R!%d" % st.n, mp.R.sort())
    env.vars.pop("cluster", None)


# ---- loop 3: resolving shared atoms ---------------------------------------------------------
def J(st, cx, D, R):
    H0 = cx.H0
    return [
        ("only-removals", z3.ForAll([c, a], z3.Implies(S(st, c)[a], S(st, c, H0)[a]))),
        ("unprocessed-atoms-unchanged", z3.ForAll([c, a], z3.Implies(z3.Not(D.mem(a)), S(st, c)[a] == S(st, c, H0)[a]))),
        ("processed-atoms-in-at-most-one-cluster",
         z3.ForAll([a, c1, c2], z3.Implies(z3.And(D.mem(a), member(cx, c1), member(cx, c2), c1 != c2),
                                          z3.Not(z3.And(S(st, c1)[a], S(st, c2)[a]))))),
        ("processed-atoms-not-lost",
         z3.ForAll([a], z3.Implies(z3.And(D.mem(a), z3.Exists([c], z3.And(member(cx, c), S(st, c, H0)[a]))),
                                   z3.Exists([c], z3.And(member(cx, c), S(st, c)[a]))))),
        ("duplicate-free", z3.ForAll([c], z3.Implies(member(cx, c), DUP(st, c)))),
    ]


def inv3(st, env, D, old):
    cx = cx_of(st)
    return J(st, cx, D, _R(env))


def havoc3(st, env, old):
    havoc_field(st, "Cluster", "indices")
    for nm in ("i", "i_clusters", "surrounding_indices", "max_near", "max_cluster", "cluster", "n_near", "ind_set"):
        env.vars.pop(nm, None)


# ---- loop 4: arg-max over the clusters of atom i ---------------------------------------------
def inv4(st, env, E, old):
    R = _R(env)
    i = z3num(env.lookup("i"))
    mx = env.lookup("max_cluster")
    return [("keeper-is-one-of-the-clusters-of-the-atom", R[i][mx.id])]


def havoc4(st, env, old):
    for nm in ("max_near", "n_near", "cluster"):
        env.vars.pop(nm, None)
    env.vars["max_near"] = SR(st.fresh_int("max_near"))
    env.vars["max_cluster"] = HObj(cx_of(st).seq.cls, CLUSTER_SCHEMA, st.fresh_int("max_cluster"), "Cluster")


# ---- loop 5: removal from the non-keepers ------------------------------------------------------
def inv5(st, env, E, old):
    R = _R(env)
    i = z3num(env.lookup("i"))
    mx = env.lookup("max_cluster").id
    Hp = old["__heap__"]
    return [
        ("visited-non-keepers-lost-the-atom", z3.ForAll([c], z3.Implies(z3.And(E.mem(c), c != mx), z3.Not(S(st, c)[i])))),
        ("only-this-atom-changes", z3.ForAll([c, a], z3.Implies(a != i, S(st, c)[a] == S(st, c, Hp)[a]))),
        ("unvisited-clusters-unchanged", z3.ForAll([c], z3.Implies(z3.Not(E.mem(c)), z3.And(S(st, c) == S(st, c, Hp), DUP(st, c) == DUP(st, c, Hp))))),
        ("keeper-keeps-the-atom", S(st, mx)[i] == S(st, mx, Hp)[i]),
        ("visited-are-duplicate-free", z3.ForAll([c], z3.Implies(E.mem(c), DUP(st, c)))),
    ]


def havoc5(st, env, old):
    havoc_field(st, "Cluster", "indices")
    for nm in ("cluster", "ind_set"):
        env.vars.pop(nm, None)


LOOPS = {
    (FN, 1): LoopSpec(inv1, havoc1, name="localize.build-map.atoms"),
    (FN, 2): LoopSpec(inv2, havoc2, name="localize.build-map.clusters"),
    (FN, 3): LoopSpec(inv3, havoc3, name="localize.resolve"),
    (FN, 4): LoopSpec(inv4, havoc4, name="localize.argmax"),
    (FN, 5): LoopSpec(inv5, havoc5, name="localize.remove"),
}


def post(st, ctx, r):
    cx = ctx["cx"]
    H0 = cx.H0
    st.prove("returns-the-same-list", z3.BoolVal(r is cx.seq))
    st.prove("subset-of-input", z3.ForAll([c, a], z3.Implies(S(st, c)[a], S(st, c, H0)[a])))
    st.prove("pairwise-disjoint",
             z3.ForAll([a, c1, c2], z3.Implies(z3.And(member(cx, c1), member(cx, c2), c1 != c2), z3.Not(z3.And(S(st, c1)[a], S(st, c2)[a])))))
    st.prove("no-atom-lost",
             z3.ForAll([a], z3.Implies(z3.Exists([c], z3.And(member(cx, c), S(st, c, H0)[a])), z3.Exists([c], z3.And(member(cx, c), S(st, c)[a])))))
    st.prove("duplicate-free", z3.ForAll([c], z3.Implies(member(cx, c), DUP(st, c))))
    st.prove("in-range", z3.ForAll([c, a], z3.Implies(z3.And(member(cx, c), S(st, c)[a]), z3.And(a >= 0, a < cx.n.t))))
