"""Contract and loop invariants of SymmetryAnalyzer._get_wyckoff_sets (set formation, return_parameters=False) — sidecar."""
from __future__ import annotations

import z3

from engine import contexts
from engine.errors import Unsupported
from engine.heap import HObj, Field, SymSet, SymList, ObjBag, fresh_set, havoc_field, snapshot, empty_set, I, B, SetSort, _arr, CARD
from engine.larr import RowArr
from engine.pyvc import SR, SB, sint, sreal, z3num, z3bool, mkbool, cur
from engine.symcoll import LoopSpec, Opaque

FN = "SymmetryAnalyzer._get_wyckoff_sets"
REL = "matid/symmetry/symmetryanalyzer.py"
E = z3.Function("orbit_id", I, I)          # equivalent_atoms[i]
LC = z3.Function("class_letter", I, I)     # A-SPG: letter is constant on orbits
ELC = z3.Function("class_element", I, I)
U = z3.Function("unique_value", I, I)
F1 = z3.Function("first_index", I, I)
CLS = z3.Function("class_position", I, I)  # position of E(i) among the unique values

WS = {"wyckoff_letter": Field("int"), "element": Field("int"), "atomic_number": Field("int"), "multiplicity": Field("int"), "indices": Field("intlist"),
      "space_group": Field("const"), "representative": Field("const"), "x": Field("const"), "y": Field("const"), "z": Field("const")}

q, v, i_, o = z3.Ints("q!w v!w i!w o!w")


class EqArr(RowArr):
    def _unique(self, return_index=False, **k):
        """A-NP: np.unique(a, return_index=True): sorted distinct values and the index of the first occurrence of each"""
        st = cur()
        P = SR(st.fresh_int("n_sets"))
        n = z3num(self.n)
        st.ghost["P"] = P
        q2 = z3.Int("q2!w")
        st.assume(z3.And(P.t >= 1, P.t <= n))
        st.assume(z3.ForAll([q], z3.Implies(z3.And(q >= 0, q < P.t), z3.And(F1(q) >= 0, F1(q) < n, E(F1(q)) == U(q)))))
        st.assume(z3.ForAll([q, i_], z3.Implies(z3.And(q >= 0, q < P.t, i_ >= 0, i_ < F1(q)), E(i_) != U(q))))
        st.assume(z3.ForAll([q, q2], z3.Implies(z3.And(q >= 0, q < q2, q2 < P.t), U(q) < U(q2))))
        st.assume(z3.ForAll([i_], z3.Implies(z3.And(i_ >= 0, i_ < n), z3.And(CLS(i_) >= 0, CLS(i_) < P.t, U(CLS(i_)) == E(i_)))))
        vals = RowArr(P, lambda k_: SR(U(z3num(k_))), ())
        idx = RowArr(P, lambda k_: SR(F1(z3num(k_))), ())
        return (vals, idx) if return_index else vals


class Sys:
    def __init__(self, n):
        self.n = n

    def get_cell(self):
        return Opaque("cell")

    def get_chemical_symbols(self):
        return RowArr(self.n, lambda i: SR(ELC(E(z3num(i)))), ())

    def get_atomic_numbers(self):
        return RowArr(self.n, lambda i: SR(ELC(E(z3num(i))) + 1000), ())

    def get_scaled_positions(self):
        return Opaque("positions")


class InfoShim:
    def _getitem(self, k):
        if isinstance(k, (SR, int)):
            return {"expressions": [Opaque("representative")]}
        raise Unsupported("wyckoff_infos[%r]" % (k,))


class TablesShim:
    def _getitem(self, sg):
        return InfoShim()


class SetsMap:
    """OrderedDict from orbit id to WyckoffSet object: key set + key -> object id"""

    _symbolic_iter = True

    def __init__(self):
        cur().ghost["sets"] = self
        self.K = SymSet()
        self.M = z3.K(I, z3.IntVal(-1))

    def _setitem(self, k, obj):
        kk = z3num(k)
        self.K = SymSet(z3.Store(self.K.arr, kk, z3.BoolVal(True)))
        self.M = z3.Store(self.M, kk, obj.id)

    def _getitem(self, k):
        kk = z3num(k)
        st = cur()
        if not st.fork(self.K.mem(kk)):
            raise KeyError(k)
        return HObj(None, WS, z3.Select(self.M, kk), "WyckoffSet")

    def values(self):
        return Values(self)

    def _state(self):
        return [self.K.arr, self.M]


class Values:
    _symbolic_iter = True

    def __init__(self, m):
        self.m = m

    def _setdom(self):
        return self.m.K

    def _elem(self, x):
        return HObj(None, WS, z3.Select(self.m.M, z3num(x)), "WyckoffSet")

    def _tolist(self):
        st = cur()
        st.n += 1
        ids = z3.Const("result_ids!%d" % st.n, z3.ArraySort(I, B))
        st.assume(z3.ForAll([o], ids[o] == z3.Exists([v], z3.And(self.m.K.mem(v), z3.Select(self.m.M, v) == o))))
        return ObjBag(ids, None, WS, "WyckoffSet")


def wset_factory(wyckoff_letter=None, element=None, atomic_number=None, space_group=None, representative=None, **kw):
    st = cur()
    W = st.ghost["W"]
    nid = st.fresh_int("wset")
    st.assume(nid >= W)
    st.ghost["W"] = nid + 1
    ob = HObj(None, WS, nid, "WyckoffSet")
    ob.write("wyckoff_letter", wyckoff_letter)
    ob.write("element", element)
    ob.write("atomic_number", atomic_number)
    ob.write("space_group", space_group)
    ob.write("representative", representative)
    ob.write("multiplicity", -1)
    for nm in ("x", "y", "z"):
        ob.write(nm, None)
    ob.write("indices", [])
    return ob


def fld(st, name, part, sort, hp=None):
    return hp[("WyckoffSet", name, part)] if hp is not None else _arr(st, "WyckoffSet", name, part, sort)


def Sx(st, oid):
    return z3.Select(fld(st, "indices", "set", SetSort), oid)


def mk(st, it):
    n = sint("n_atoms")
    st.assume(n.t >= 1)
    st.ghost["n"] = n
    st.ghost["W"] = z3.Int("watermark0")
    for f, fd in WS.items():
        if fd.kind == "int":
            _arr(st, "WyckoffSet", f, "v", I)
        elif fd.kind == "intlist":
            _arr(st, "WyckoffSet", f, "set", SetSort)
            _arr(st, "WyckoffSet", f, "dupfree", B)
    eq = EqArr(n, lambda i: SR(E(z3num(i))), ())
    letters = RowArr(n, lambda i: SR(LC(E(z3num(i)))), ())  # A-SPG: atoms of one orbit carry one letter
    m = contexts.symmetry_ctx()
    self_ = contexts.make_self(m, "SymmetryAnalyzer")
    return [self_, Sys(n), 47, letters, eq], {"precision": sreal("tol"), "return_parameters": False}, {"n": n}


def _common(st, env, upto_keys):
    """facts about the objects created by loop 1: for every key U(q), q < upto_keys"""
    sets = st.ghost["sets"]
    M = sets.M
    W = st.ghost["W"]
    q2 = z3.Int("q2!c")
    Lt, El, An = fld(st, "wyckoff_letter", "v", I), fld(st, "element", "v", I), fld(st, "atomic_number", "v", I)
    return [
        ("keys-are-the-unique-values-seen", z3.ForAll([v], sets.K.mem(v) == z3.Exists([q], z3.And(q >= 0, q < upto_keys, U(q) == v)))),
        ("objects-distinct-and-allocated", z3.ForAll([q, q2], z3.Implies(z3.And(q >= 0, q2 >= 0, q < upto_keys, q2 < upto_keys),
                                                                           z3.And(z3.Select(M, U(q)) < W, z3.Implies(q != q2, z3.Select(M, U(q)) != z3.Select(M, U(q2))))))),
        ("letter-element-number-of-the-first-atom", z3.ForAll([q], z3.Implies(z3.And(q >= 0, q < upto_keys),
                                                                                z3.And(z3.Select(Lt, z3.Select(M, U(q))) == LC(U(q)),
                                                                                       z3.Select(El, z3.Select(M, U(q))) == ELC(U(q)),
                                                                                       z3.Select(An, z3.Select(M, U(q))) == ELC(U(q)) + 1000)))),
    ]


def inv1(st, env, k, old):
    sets = st.ghost["sets"]
    out = _common(st, env, k.t)
    out.append(("index-lists-empty", z3.ForAll([q], z3.Implies(z3.And(q >= 0, q < k.t), z3.And(Sx(st, z3.Select(sets.M, U(q))) == empty_set(),
                                                                                           z3.Select(fld(st, "indices", "dupfree", B), z3.Select(sets.M, U(q))))))))
    return out


def havoc1(st, env, old):
    for f in ("wyckoff_letter", "element", "atomic_number", "multiplicity", "indices"):
        havoc_field(st, "WyckoffSet", f)
    sets = st.ghost["sets"]
    st.n += 1
    sets.K = fresh_set(st, "keys")
    sets.M = z3.Const("keymap!%d" % st.n, z3.ArraySort(I, I))
    st.ghost["W"] = st.fresh_int("watermark")
    for nm in ("i_set", "index", "set_index", "set_data"):
        env.vars.pop(nm, None)


def inv2(st, env, k, old):
    sets = st.ghost["sets"]
    P = st.ghost["P"]
    out = _common(st, env, P.t)
    out.append(("index-list-is-the-orbit-among-the-atoms-seen",
                z3.ForAll([q, i_], z3.Implies(z3.And(q >= 0, q < P.t), Sx(st, z3.Select(sets.M, U(q)))[i_] == z3.And(i_ >= 0, i_ < k.t, E(i_) == U(q))))))
    out.append(("index-lists-duplicate-free", z3.ForAll([q], z3.Implies(z3.And(q >= 0, q < P.t), z3.Select(fld(st, "indices", "dupfree", B), z3.Select(sets.M, U(q)))))))
    return out


def havoc2(st, env, old):
    havoc_field(st, "WyckoffSet", "indices")
    for nm in ("i_atom", "set_number"):
        env.vars.pop(nm, None)


def inv3(st, env, D, old):
    sets = st.ghost["sets"]
    mult = fld(st, "multiplicity", "v", I)
    return [("multiplicity-is-the-size", z3.ForAll([v], z3.Implies(D.mem(v), z3.Select(mult, z3.Select(sets.M, v)) == CARD(Sx(st, z3.Select(sets.M, v))))))]


def havoc3(st, env, old):
    havoc_field(st, "WyckoffSet", "multiplicity")
    env.vars.pop("wset", None)


LOOPS = {(FN, 1): LoopSpec(inv1, havoc1, name="create-sets"), (FN, 2): LoopSpec(inv2, havoc2, name="assign-atoms"), (FN, 3): LoopSpec(inv3, havoc3, name="multiplicities")}


def ctx_sets(st):
    return st.ghost["sets"]


def post(st, ctx, r):
    n = ctx["n"]
    P = st.ghost["P"]
    ids = ObjBag.ids_of(r)
    Lt, El = fld(st, "wyckoff_letter", "v", I), fld(st, "element", "v", I)
    mult = fld(st, "multiplicity", "v", I)
    o2 = z3.Int("o2!p")
    st.prove("every-atom-in-a-reported-set", z3.ForAll([i_], z3.Implies(z3.And(i_ >= 0, i_ < n.t), z3.Exists([o], z3.And(ids[o], Sx(st, o)[i_])))))
    st.prove("sets-pairwise-disjoint", z3.ForAll([i_, o, o2], z3.Implies(z3.And(ids[o], ids[o2], o != o2), z3.Not(z3.And(Sx(st, o)[i_], Sx(st, o2)[i_])))))
    st.prove("members-are-atoms", z3.ForAll([i_, o], z3.Implies(z3.And(ids[o], Sx(st, o)[i_]), z3.And(i_ >= 0, i_ < n.t))))
    st.prove("multiplicity-is-the-size", z3.ForAll([o], z3.Implies(ids[o], z3.Select(mult, o) == CARD(Sx(st, o)))))
    st.prove("members-share-the-sets-letter-and-element", z3.ForAll([i_, o], z3.Implies(z3.And(ids[o], Sx(st, o)[i_]),
                                                                                          z3.And(z3.Select(Lt, o) == LC(E(i_)), z3.Select(El, o) == ELC(E(i_))))))
    st.prove("first-atom-of-an-orbit-is-a-member", z3.ForAll([q], z3.Implies(z3.And(q >= 0, q < P.t), Sx(st, z3.Select(ctx_sets(st).M, U(q)))[F1(q)])))
    st.prove("sets-non-empty", z3.ForAll([o], z3.Implies(ids[o], z3.Exists([i_], Sx(st, o)[i_]))))
    st.prove("a-set-is-a-whole-orbit", z3.ForAll([i_, o, q], z3.Implies(z3.And(ids[o], Sx(st, o)[i_], q >= 0, q < n.t, E(q) == E(i_)), Sx(st, o)[q])))
