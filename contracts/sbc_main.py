"""Contract and loop invariant of SBC.get_clusters (main loop) — sidecar."""
from __future__ import annotations

import numpy as np
import z3

from contracts.sbc_model import (sbc_ctx, cluster_ctx, S, DUP, SPEC, init_heap, DistancesShim, CLUSTER_SCHEMA, CACHE_NONE, CACHE_SET, TOK,
                                 RadiiRef, ThrRef, RegionRef)
from engine import contexts
from engine.aseshim import SymAtoms, sym_cell, sym_pbc, sym_positions, sym_int_rows, AseModule
from engine.errors import Unsupported
from engine.heap import HObj, SymSet, SymList, ObjBag, fresh_set, havoc_field, snapshot, heap, empty_set, I, B, SetSort, _arr
from engine.larr import RowArr
from engine.npshim import NP, NPShim, det_term
from engine.pyvc import SR, SB, sint, sreal, z3num, z3bool, mkbool, cur, Obj
from engine.symcoll import LoopSpec, Opaque

FN = "SBC.get_clusters"
a, c, c1, c2 = z3.Ints("a!g c!g c1!g c2!g")
ZF = z3.Function("Z", I, I)


class Rng:
    def __init__(self, seed):
        self.seed = seed

    def choice(self, lst, size=None):
        st = cur()
        x = st.fresh_int("seed_atom")
        s_ = SymSet.of(lst)
        y = z3.Int("y!ch")
        st.prove_choice_nonempty = True
        st.ghost.setdefault("choice_calls", []).append(s_)
        st.assume(s_.mem(x))  # A-NP: an element of the given list (the list is non-empty on this path: loop condition)
        return [SR(x)]


class RandomNS:
    def default_rng(self, seed=None):
        cur().ghost["rng_seed"] = seed
        return Rng(seed)

    def __getattr__(self, name):
        if name.startswith("_"):
            raise AttributeError(name)
        raise Unsupported("np.random.%s: unseeded randomness" % name)


class NPs(NPShim):
    random = RandomNS()


class MaskShim:
    """boolean mask over the atoms returned by get_region"""

    def __init__(self, n, arr):
        self.n = n
        self.arr = arr

    def _len(self):
        return self.n


class ArangeShim:
    def __init__(self, n):
        self.n = n

    def _getitem(self, idx):
        if isinstance(idx, MaskShim):
            st = cur()
            s_ = fresh_set(st, "tested")
            x = z3.Int("x!t")
            st.assume(z3.ForAll([x], s_.mem(x) == z3.And(x >= 0, x < z3num(idx.n), z3.Select(idx.arr, x))))
            return SymList(s_, True, None)
        raise Unsupported("arange[%r]" % (idx,))


class NPs2(NPs):
    def arange(self, *args):
        if len(args) == 1 and isinstance(args[0], SR):
            return ArangeShim(args[0])
        return super().arange(*args)


class ZRows(RowArr):
    """atomic numbers; indexing by a list of indices gives the image set"""

    def _getitem(self, idx):
        if isinstance(idx, SymList):
            return ZImage(idx)
        return super()._getitem(idx)


class ZImage:
    def __init__(self, lst):
        self.lst = lst

    def _toset(self):
        st = cur()
        P = fresh_set(st, "species")
        x, v = z3.Int("x!zi"), z3.Int("v!zi")
        st.assume(z3.ForAll([x], z3.Implies(self.lst.s.mem(x), P.mem(ZF(x)))))
        st.assume(z3.ForAll([v], z3.Implies(P.mem(v), z3.Exists([x], z3.And(self.lst.s.mem(x), ZF(x) == v)))))
        return P


class PF:
    """PeriodicFinder under contract (A-REGION, assumed): get_region(..., return_mask=True) returns (region or None, mask) with
    mask[seed] true and the basis indices of a region inside [0, n)"""

    def __init__(self, **kw):
        pass

    def get_region(self, system, seed_index=None, max_cell_size=None, pos_tol=None, bond_threshold=None, overlap_threshold=None, distances=None, return_mask=False):
        st = cur()
        n = st.ghost["n"]
        st.ghost.setdefault("region_calls", []).append((system, distances))
        st.n += 1
        marr = z3.Const("mask!%d" % st.n, z3.ArraySort(I, B))
        st.assume(z3.Select(marr, z3num(seed_index)))
        mask = MaskShim(n, marr)
        if st.fork(st.fresh("region_found", "bool")):
            tok = st.fresh_int("region")
            st.assume(tok >= 0)
            x = z3.Int("x!rg")
            st.assume(z3.ForAll([x], z3.Implies(z3.Select(RegionRef.BASIS(tok), x), z3.And(x >= 0, x < n.t))))
            return RegionRef(tok), mask
        return None, mask


PHASE = {"setup": False}


def mk(st, it):
    init_heap(st)
    n = sint("n_atoms")
    st.assume(n.t >= 1)
    st.ghost["n"] = n
    Z = ZRows(n, lambda i: SR(ZF(z3num(i))), ())
    if PHASE["setup"]:
        # phase 1: symbolic cell and pbc, executed up to the entry of the main loop (every set-up path must establish the loop invariant)
        cell = sym_cell("c")
        vals = (2, 0, 0, "3/10", 2, 0, "1/10", "1/5", 3)
        for kk in range(9):
            st.hint(z3.Real("c%d%d" % (kk // 3, kk % 3)) == z3.RealVal(str(vals[kk])))
        pbc = sym_pbc("pbc")
    else:
        # phase 2: main loop and pipeline; they do not depend on cell/pbc (the copy is opaque to them), so one set-up path suffices
        cell = np.array([[2.0, 0, 0], [0.3, 2.0, 0], [0.1, 0.2, 3.0]], dtype=object)
        pbc = np.array([True, True, True], dtype=object)
    system = SymAtoms(n, cell, pbc, sym_positions("pos", n), Z)
    st.ghost["input"] = system
    m = sbc_ctx()
    self_ = contexts.make_self(m, "SBC")
    seed = SR(z3.Int("seed"))
    st.ghost["W"] = z3.Int("watermark0")

    def alloc(cls):
        if cls.name != "Cluster":
            return None
        st2 = cur()
        W = st2.ghost["W"]
        nid = st2.fresh_int("new_cluster")
        st2.assume(nid >= W)
        st2.ghost["W"] = nid + 1
        st2.ghost.setdefault("allocated", []).append(nid)
        return HObj(cls, CLUSTER_SCHEMA, nid, "Cluster")

    st.ghost["alloc_hook"] = alloc
    thr = ThrRef(z3.Int("bond_threshold_tok"))
    return [self_, system], {"bond_threshold": thr, "radii": "PRESET", "seed": seed}, {"n": n, "system": system, "self": self_, "seed": seed, "thr": thr}


def radii_contract(it, st, bound, site):
    st.prove(site + ".pre.atomic-numbers-of-the-input", z3.BoolVal(isinstance(bound["atomic_numbers"], ZRows)))
    r = RadiiRef(z3.Int("radii_resolved"))
    st.assume(r.tok >= 0)
    st.ghost["radii"] = r
    return r


def distances_contract(it, st, bound, site):
    sysm = bound["system"]
    inp = st.ghost["input"]
    st.prove(site + ".pre.distances-of-the-wrapped-copy", z3.BoolVal(isinstance(sysm, SymAtoms) and sysm is not inp and sysm.origin is inp and "wrap" in sysm.mutations))
    st.prove(site + ".pre.with-the-resolved-radii", z3.BoolVal(bound["radii"] is st.ghost.get("radii")))
    d = DistancesShim(st.ghost["n"])
    st.ghost["distances"] = d
    st.ghost["system_copy"] = sysm
    return d


def WFbag(st, bag, n, radii_tok, thr_tok, W):
    x = z3.Int("x!wf")
    return [
        ("clusters.in-range", z3.ForAll([c, a], z3.Implies(z3.And(bag[c], S(st, c)[a]), z3.And(a >= 0, a < n.t)))),
        ("clusters.duplicate-free", z3.ForAll([c], z3.Implies(bag[c], DUP(st, c)))),
        ("clusters.species-cover-every-atom", z3.ForAll([c, a], z3.Implies(z3.And(bag[c], S(st, c)[a]), SPEC(st, c)[ZF(a)]))),
        ("clusters.non-empty", z3.ForAll([c], z3.Implies(bag[c], S(st, c) != empty_set()))),
        ("clusters.cache-empty", z3.ForAll([c], z3.Implies(bag[c], CACHE_NONE(st, c)))),
        ("clusters.carry-the-clustering-radii-and-threshold", z3.ForAll([c], z3.Implies(bag[c], z3.And(TOK(st, "_radii", c) == radii_tok, TOK(st, "_bond_threshold", c) == thr_tok)))),
        ("clusters.allocated-before-the-watermark", z3.ForAll([c], z3.Implies(bag[c], c < W))),
    ]


def inv(st, env, k, old):
    n = st.ghost["n"]
    idx = env.lookup("indices")
    bag = ObjBag.ids_of(env.lookup("clusters"))
    rt = st.ghost["radii"].tok
    tt = st.ghost["ctx"]["thr"].tok
    x = z3.Int("x!i")
    return [("unvisited-indices-in-range", z3.ForAll([x], z3.Implies(SymSet.of(idx).mem(x), z3.And(x >= 0, x < n.t))))] + WFbag(st, bag, n, rt, tt, st.ghost["W"])


def havoc(st, env, old):
    for f in CLUSTER_SCHEMA:
        if CLUSTER_SCHEMA[f].kind != "const":
            havoc_field(st, "Cluster", f)
    env.vars["indices"] = fresh_set(st, "indices")
    cm = cluster_ctx()
    st.n += 1
    env.vars["clusters"] = ObjBag(z3.Const("clusters!%d" % st.n, z3.ArraySort(I, B)), cm.defs["Cluster"], CLUSTER_SCHEMA, "Cluster")
    st.ghost["W"] = st.fresh_int("watermark")
    st.ghost["indices_before"] = env.vars["indices"].arr
    for nm in ("i_seed", "i_grain", "mask", "tested_indices", "i_indices", "i_species"):
        env.vars.pop(nm, None)


def body_post(st, env, k, old):
    before = st.ghost["indices_before"]
    now = SymSet.of(env.lookup("indices")).arr
    seed = z3num(env.lookup("i_seed"))
    x = z3.Int("x!v")
    return [("progress.seed-was-unvisited", z3.Select(before, seed)),
            ("progress.seed-is-removed", z3.Not(z3.Select(now, seed))),
            ("progress.unvisited-set-only-shrinks", z3.ForAll([x], z3.Implies(z3.Select(now, x), z3.Select(before, x))))]


class MainLoop(LoopSpec):
    """while len(indices) != 0: invariant + 'the finite set of unvisited atoms strictly shrinks' as the variant"""

    def run_while(self, interp, node, env, module, lid):
        from engine.pyvc import PathKilled, BreakSig, ContinueSig
        st = interp.st
        lab = self._label(lid)
        old = dict(env.vars)
        for nm, f in self.inv(st, env, None, old):
            st.prove("%s.init.%s" % (lab, nm), f)
        if PHASE["setup"]:
            st.ghost["reached_loop"] = True
            raise PathKilled()
        if st.fork(st.fresh("loopbody", "bool")):
            pre_env = self._do_havoc(st, env, old)
            rec = self._begin_iteration(st, env, node)
            for nm, f in self.inv(st, env, None, old):
                st.assume(f)
            if not interp.truth(interp.eval(node.test, env, module)):
                raise PathKilled()
            interp.exec_block(node.body, env, module)
            for nm, f in self.inv(st, env, None, old):
                st.prove("%s.preserve.%s" % (lab, nm), f)
            for nm, f in body_post(st, env, None, old):
                st.prove("%s.%s" % (lab, nm), f)
            raise PathKilled()
        else:
            self._do_havoc(st, env, old)
            for nm, f in self.inv(st, env, None, old):
                st.assume(f)
            if interp.truth(interp.eval(node.test, env, module)):
                raise PathKilled()


LOOPS = {(FN, 3): MainLoop(inv, havoc, name="main-loop")}


# ---- callee contracts: the post-conditions proved for them (sections merge-loop / localize / clean) ------------------------------
def merge_clusters_contract(it, st, bound, site):
    """SBC._merge_clusters (proved in section mergeloop): the result is a list of well-formed clusters whose atoms come from the input clusters"""
    bag = ObjBag.ids_of(bound["clusters"])
    n = st.ghost["n"]
    rt, tt = st.ghost["radii"].tok, st.ghost["ctx"]["thr"].tok
    for nm, f in WFbag(st, bag, n, rt, tt, st.ghost["W"]):
        st.prove(site + ".pre." + nm, f)
    st.prove(site + ".pre.same-system-and-distances", z3.BoolVal(bound["system"] is st.ghost.get("system_copy") and bound["distances"] is st.ghost.get("distances")))
    st.prove(site + ".pre.threshold-forwarded", z3.BoolVal(bound["bond_threshold"] is st.ghost["ctx"]["thr"]))
    for f in CLUSTER_SCHEMA:
        if CLUSTER_SCHEMA[f].kind != "const":
            havoc_field(st, "Cluster", f)
    cm = cluster_ctx()
    st.n += 1
    out = ObjBag(z3.Const("merged!%d" % st.n, z3.ArraySort(I, B)), cm.defs["Cluster"], CLUSTER_SCHEMA, "Cluster")
    W2 = st.fresh_int("watermark")
    st.ghost["W"] = W2
    for nm, f in WFbag(st, out.ids, n, rt, tt, W2):
        st.assume(f)
    return out


def localize_contract(it, st, bound, site):
    """SBC._localize_clusters (proved in section localize): same list; subsets; pairwise disjoint; duplicate-free; other fields untouched"""
    bag = ObjBag.ids_of(bound["clusters"])
    n = st.ghost["n"]
    st.prove(site + ".pre.in-range", z3.ForAll([c, a], z3.Implies(z3.And(bag[c], S(st, c)[a]), z3.And(a >= 0, a < n.t))))
    st.prove(site + ".pre.duplicate-free", z3.ForAll([c], z3.Implies(bag[c], DUP(st, c))))
    st.prove(site + ".pre.same-system-and-distances", z3.BoolVal(bound["system"] is st.ghost.get("system_copy") and bound["distances"] is st.ghost.get("distances")))
    H0 = snapshot(st)
    havoc_field(st, "Cluster", "indices")
    st.assume(z3.ForAll([c, a], z3.Implies(S(st, c)[a], S(st, c, H0)[a])))
    st.assume(z3.ForAll([a, c1, c2], z3.Implies(z3.And(bag[c1], bag[c2], c1 != c2), z3.Not(z3.And(S(st, c1)[a], S(st, c2)[a])))))
    st.assume(z3.ForAll([c], z3.Implies(bag[c], DUP(st, c))))
    return bound["clusters"]


def clean_contract(it, st, bound, site):
    """SBC._clean_clusters (proved in section clean): sub-list; kept clusters are non-empty duplicate-free subsets, one largest bonded component,
    disjointness preserved, cache coherent"""
    from contracts.sbc_model import COMP
    bag = ObjBag.ids_of(bound["clusters"])
    n = st.ghost["n"]
    st.prove(site + ".pre.in-range", z3.ForAll([c, a], z3.Implies(z3.And(bag[c], S(st, c)[a]), z3.And(a >= 0, a < n.t))))
    st.prove(site + ".pre.duplicate-free", z3.ForAll([c], z3.Implies(bag[c], DUP(st, c))))
    st.prove(site + ".pre.pairwise-disjoint", z3.ForAll([a, c1, c2], z3.Implies(z3.And(bag[c1], bag[c2], c1 != c2), z3.Not(z3.And(S(st, c1)[a], S(st, c2)[a])))))
    st.prove(site + ".pre.cache-invariant", z3.ForAll([c], z3.Implies(bag[c], z3.Or(CACHE_NONE(st, c), CACHE_SET(st, c) == S(st, c)))))
    st.prove(site + ".pre.threshold-forwarded", z3.BoolVal(bound["bond_threshold"] is st.ghost["ctx"]["thr"]))
    H0 = snapshot(st)
    havoc_field(st, "Cluster", "indices")
    havoc_field(st, "Cluster", "_distance_matrix_radii_mic")
    cm = cluster_ctx()
    st.n += 1
    out = ObjBag(z3.Const("cleaned!%d" % st.n, z3.ArraySort(I, B)), cm.defs["Cluster"], CLUSTER_SCHEMA, "Cluster")
    o = out.ids
    x = z3.Int("x!cl")
    st.assume(z3.ForAll([c], z3.Implies(o[c], bag[c])))
    st.assume(z3.ForAll([c, a], z3.Implies(S(st, c)[a], S(st, c, H0)[a])))
    st.assume(z3.ForAll([c], z3.Implies(o[c], z3.And(S(st, c) != empty_set(), DUP(st, c), COMP(S(st, c), S(st, c, H0)),
                                                     z3.Or(CACHE_NONE(st, c), CACHE_SET(st, c) == S(st, c))))))
    st.ghost["clean_H0"] = H0
    return out


CONTRACTS = {
    "matid/geometry/geometry.py:get_radii": radii_contract,
    "matid/geometry/geometry.py:get_distances": distances_contract,
    "matid/clustering/sbc.py:SBC._merge_clusters": merge_clusters_contract,
    "matid/clustering/sbc.py:SBC._localize_clusters": localize_contract,
    "matid/clustering/sbc.py:SBC._clean_clusters": clean_contract,
}


def raises(st, ctx, e):
    """the only permitted failure: ValueError for a zero cell vector along a periodic direction"""
    sysm = ctx["system"]
    st.prove("failure-is-ValueError", z3.BoolVal(isinstance(e, ValueError)))
    cell, pbc = sysm.cell, sysm.pbc
    zero_periodic = z3.Or([z3.And(z3bool(pbc[i]), z3.And([z3num(cell[i, j]) == 0 for j in range(3)])) for i in range(3)])
    st.prove("ValueError-only-for-a-zero-periodic-vector", zero_periodic)
    st.prove("input-untouched-on-failure", z3.BoolVal(sysm.mutations == []))


def post(st, ctx, r):
    from contracts.sbc_model import COMP
    n = ctx["n"]
    sysm = ctx["system"]
    o = ObjBag.ids_of(r)
    x = z3.Int("x!p")
    st.prove("input-untouched", z3.BoolVal(sysm.mutations == []))
    st.prove("rng-seeded-with-the-given-seed", z3.BoolVal(st.ghost.get("rng_seed") is ctx["seed"]))
    st.prove("result.in-range", z3.ForAll([c, a], z3.Implies(z3.And(o[c], S(st, c)[a]), z3.And(a >= 0, a < n.t))))
    st.prove("result.non-empty", z3.ForAll([c], z3.Implies(o[c], S(st, c) != empty_set())))
    st.prove("result.duplicate-free", z3.ForAll([c], z3.Implies(o[c], DUP(st, c))))
    st.prove("result.pairwise-disjoint", z3.ForAll([a, c1, c2], z3.Implies(z3.And(o[c1], o[c2], c1 != c2), z3.Not(z3.And(S(st, c1)[a], S(st, c2)[a])))))
    st.prove("result.species-cover-every-atom", z3.ForAll([c, a], z3.Implies(z3.And(o[c], S(st, c)[a]), SPEC(st, c)[ZF(a)])))
    H0 = st.ghost.get("clean_H0")
    if H0 is not None:
        st.prove("result.one-bonded-component", z3.ForAll([c], z3.Implies(o[c], COMP(S(st, c), S(st, c, H0)))))
    rt, tt = st.ghost["radii"].tok, ctx["thr"].tok
    st.prove("result.cache-coherent-and-clustering-radii(C13)", z3.ForAll([c], z3.Implies(o[c], z3.And(z3.Or(CACHE_NONE(st, c), CACHE_SET(st, c) == S(st, c)),
                                                                                                  TOK(st, "_radii", c) == rt, TOK(st, "_bond_threshold", c) == tt))))
    rc = st.ghost.get("region_calls", [])
    st.prove("periodic-search-on-the-copy", z3.BoolVal(all(s_ is st.ghost.get("system_copy") and d is st.ghost.get("distances") for s_, d in rc)))
