"""Contract and loop invariant of SBC._clean_clusters (sidecar)."""
from __future__ import annotations

import z3

from contracts.sbc_model import (sbc_ctx, cluster_seq, S, DUP, init_heap, DistancesShim, CLUSTER_SCHEMA, CACHE_NONE, CACHE_SET,
                                 COMP, get_clusters_contract, TOK)
from engine import contexts
from engine.heap import HObj, SymSet, havoc_field, snapshot, empty_set, ObjBag, I, fresh_set
from engine.pyvc import SR, sint, sreal, z3num, z3bool
from engine.symcoll import LoopSpec

FN = "SBC._clean_clusters"
a, c, c1, c2, q = z3.Ints("a!q c!q c1!q c2!q q!q")


class Ctx:
    pass


def member(cx, cid, upto=None):
    p = cx.pos(cid)
    hi = cx.K.t if upto is None else upto
    return z3.And(p >= 0, p < hi, cx.seq.ids(p) == cid)


def mk(st, it):
    cx = Ctx()
    init_heap(st)
    cx.n = sint("n_atoms")
    cx.K = sint("n_clusters")
    st.assume(z3.And(cx.n.t >= 0, cx.K.t >= 0))
    cx.seq = cluster_seq(cx.K)
    cx.pos = z3.Function("pos_clusters", I, I)
    st.assume(z3.ForAll([q], z3.Implies(z3.And(q >= 0, q < cx.K.t), cx.pos(cx.seq.ids(q)) == q)))
    cx.H0 = snapshot(st)
    CLUSTER_SCHEMA["_distances"].default = DistancesShim(cx.n)
    # precondition: WF, pairwise disjoint, representation invariant of the cache (None or coherent with indices)
    st.assume(z3.ForAll([c, a], z3.Implies(z3.And(member(cx, c), S(st, c)[a]), z3.And(a >= 0, a < cx.n.t))))
    st.assume(z3.ForAll([c], z3.Implies(member(cx, c), DUP(st, c))))
    st.assume(z3.ForAll([a, c1, c2], z3.Implies(z3.And(member(cx, c1), member(cx, c2), c1 != c2), z3.Not(z3.And(S(st, c1)[a], S(st, c2)[a])))))
    st.assume(z3.ForAll([c], z3.Implies(member(cx, c), z3.Or(CACHE_NONE(st, c), CACHE_SET(st, c) == S(st, c)))))
    self_ = contexts.make_self(sbc_ctx(), "SBC")
    st.ghost["cx"] = cx
    return [self_, cx.seq, sreal("bond_threshold")], {}, {"cx": cx}


WITH_CACHE = {"on": False}  # C13 adds the representation invariant of the cached distance matrix; C01 does not speak of it


def kept_ok(st, cx, cid):
    H0 = cx.H0
    x = z3.Int("x!k")
    parts = [
        z3.ForAll([a], z3.Implies(S(st, cid)[a], S(st, cid, H0)[a])),
        z3.Exists([x], S(st, cid)[x]),
        DUP(st, cid),
        COMP(S(st, cid), S(st, cid, H0)),
    ]
    if WITH_CACHE["on"]:
        parts.append(z3.Or(CACHE_NONE(st, cid), CACHE_SET(st, cid) == S(st, cid)))
    return z3.And(parts)


def _out_name(env):
    """the list of kept clusters, whatever the code calls it (the only list-valued local besides the parameter)"""
    from engine.symcoll import local_named
    return local_named(env, "clusters_cleaned", lambda v: isinstance(v, (list, ObjBag)), exclude=("clusters",))


def inv(st, env, k, old):
    cx = st.ghost["cx"]
    bag = ObjBag.ids_of(env.vars[_out_name(env)])
    H0 = cx.H0
    return [
        ("kept-are-visited-members", z3.ForAll([c], z3.Implies(bag[c], member(cx, c, k.t)))),
        ("kept-are-cleaned", z3.ForAll([c], z3.Implies(bag[c], kept_ok(st, cx, c)))),
        ("unvisited-untouched", z3.ForAll([c], z3.Implies(z3.Not(member(cx, c, k.t)),
                                                        z3.And(S(st, c) == S(st, c, H0), DUP(st, c) == DUP(st, c, H0),
                                                               CACHE_NONE(st, c) == CACHE_NONE(st, c, H0), CACHE_SET(st, c) == CACHE_SET(st, c, H0))))),
        ("indices-only-shrink", z3.ForAll([c, a], z3.Implies(S(st, c)[a], S(st, c, H0)[a]))),
    ]


def havoc(st, env, old):
    cx = st.ghost["cx"]
    havoc_field(st, "Cluster", "indices")
    havoc_field(st, "Cluster", "_distance_matrix_radii_mic")
    st.n += 1
    env.vars[_out_name(env)] = ObjBag(z3.Const("cleaned!%d" % st.n, z3.ArraySort(I, z3.BoolSort())), cx.seq.cls, CLUSTER_SCHEMA, "Cluster")
    for nm in ("cluster", "dbscan_clusters", "largest_indices"):
        env.vars.pop(nm, None)


LOOPS = {(FN, 1): LoopSpec(inv, havoc, name="clean.loop")}
CONTRACTS = {"matid/geometry/geometry.py:get_clusters": get_clusters_contract}


def post(st, ctx, r):
    cx = ctx["cx"]
    H0 = cx.H0
    bag = ObjBag.ids_of(r)
    x = z3.Int("x!p")
    st.prove("result-is-a-sublist", z3.ForAll([c], z3.Implies(bag[c], member(cx, c))))
    st.prove("kept.subset-of-input", z3.ForAll([c, a], z3.Implies(z3.And(bag[c], S(st, c)[a]), S(st, c, H0)[a])))
    st.prove("kept.non-empty", z3.ForAll([c], z3.Implies(bag[c], z3.Exists([x], S(st, c)[x]))))
    st.prove("kept.duplicate-free", z3.ForAll([c], z3.Implies(bag[c], DUP(st, c))))
    st.prove("kept.in-range", z3.ForAll([c, a], z3.Implies(z3.And(bag[c], S(st, c)[a]), z3.And(a >= 0, a < cx.n.t))))
    st.prove("kept.one-largest-bonded-component", z3.ForAll([c], z3.Implies(bag[c], COMP(S(st, c), S(st, c, H0)))))
    st.prove("kept.pairwise-disjoint",
             z3.ForAll([a, c1, c2], z3.Implies(z3.And(bag[c1], bag[c2], c1 != c2), z3.Not(z3.And(S(st, c1)[a], S(st, c2)[a])))))
    if WITH_CACHE["on"]:
        st.prove("kept.cache-coherent", z3.ForAll([c], z3.Implies(bag[c], z3.Or(CACHE_NONE(st, c), CACHE_SET(st, c) == S(st, c)))))
