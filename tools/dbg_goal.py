import sys, time; sys.path.insert(0,'/verif')
from engine import common; common.use_repo_on_path()
import importlib, z3
from engine import pyvc
orig=pyvc.Explorer.prove
def pr(self, st, name, goal, kind, func):
    if name.startswith(sys.argv[3]):
        lz=pyvc.Linearizer(); g=lz(goal); g2=z3.simplify(g, som=True, arith_lhs=True)
        print('GOAL', str(z3.simplify(goal))[:1500]); print('LIN', str(g2)[:1500]); sys.exit(0)
    return orig(self, st, name, goal, kind, func)
pyvc.Explorer.prove=pr
P=importlib.import_module('props.'+sys.argv[1])
from engine.common import Report
getattr(P,'_'+sys.argv[2])(Report('x'))
