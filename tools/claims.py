# claims, exec'd by mkmanifest.py
ENGINES = [
 {"name": "tabvc", "path": "engine/tabvc.py", "serves_properties": ["C14", "C05", "C06", "C07", "C08", "C12", "C15"],
  "kind_free_text": "table obligations: every entry of the symmetry tables is a named obligation against spglib's Hall database; exact rational arithmetic for ground identities, z3 for the quantified ones"},
]

claim("C14",
      "Every entry of SPACE_GROUP_INFO (230), WYCKOFF_SETS (1731 positions) and the normalizer table is turned into named obligations "
      "(expressions == matrices for all x,y,z; closed orbit of the tabulated multiplicity under the reference group; normalizer maps the group onto itself, "
      "preserves every metric tensor of the crystal system, is proper in Sohncke groups, permutes the Wyckoff positions as tabulated). "
      "The tables are finite, the obligations symbolic where the statement quantifies (x,y,z; lattice metric): exhaustive proof.",
      "Reference = spglib Hall database in its default setting (trusted as the International Tables). 8-decimal floats are rationalised to the unique "
      "small-denominator rational. Ground identities are decided by exact rational arithmetic, quantified ones by z3.",
      "exhaustive table obligations: exact rational arithmetic + z3 (LRA/LIA) per entry", "DESIGN.md §3 C14")

ENGINES.append({"name": "pyvc", "path": "engine/pyvc.py", "serves_properties": ["C01", "C05", "C06", "C07", "C08", "C09", "C11", "C12", "C13", "C15", "C16", "C17", "C19", "C20"],
  "kind_free_text": "symbolic executor over the ast of the real source files (re-read on every run): proxy values, replay-based path forking, calls by contract, loop invariants, named obligations discharged by z3 (linearised abstraction first, full nonlinear second, cvc5 for unknowns); numpy/ASE modelled by shims = assumed contracts"})

claim("C19",
      "get_radii is a function of (preset, Z) on a finite domain: its real source is executed by the engine on every point (3 presets x every Z of the ASE tables, "
      "NaN-aware float semantics) and compared with the documented tables; custom arrays: identity obligation; uniformity: data-flow frame obligations on each consumer "
      "(the raw parameter is read exactly once, by get_radii) so that preset and resolved array give the same computation by congruence. Complete for the stated domain.",
      "ASE tables are the documented tables; numpy fancy indexing; the frame obligations are syntactic (AST) and cover get_dimensionality, get_distances, SBC.get_clusters.",
      "exhaustive evaluation of the real function over its finite domain + AST data-flow frame obligations", "DESIGN.md §3 C19")

claim("C20",
      "Contracts on to_scaled, to_cartesian, get_wrapped_positions, swap_basis, complete_cell, get_minimized_cell, get_center_of_mass, get_moments_of_inertia, "
      "proved by symbolic execution of the real source for a symbolic cell, symbolic pbc and a symbolic number of atoms (row-generic arrays, Skolemised argmin/argmax), "
      "in real arithmetic. get_minimized_cell: code-level facts (Step A) + pure nonlinear lemma (Step B). Inertia tensor and centre of mass: the summand of every "
      "sum over atoms equals the documented formula.",
      "Floats as reals (L-FLOAT); numpy/ASE shims are assumed contracts (A-NP, A-ASE); translation covariance of the circular mean and the eigen-solver are not machine-checked.",
      "symbolic execution of the real source + z3 (linearised abstraction, nonlinear lemmas)", "DESIGN.md §3 C20")

claim("C15",
      "get_is_chiral is executed symbolically from its real source over a symbolic-length sequence of integer rotation matrices, with np.linalg.det under an "
      "error-bounded floating-point contract (|computed - exact| <= delta < 1/2, not exactness) and a loop invariant 'no improper operation so far': "
      "post-condition result <=> no rotation has determinant -1, for every delta and every sequence. Basis independence: det(AB)=det A det B (polynomial identity). "
      "The operations scanned are those of spglib's database entry for the detected Hall number (call-site obligation; the operations listed for the given cell are modelled as an unrelated sequence). Table part: SPACE_GROUP_INFO point group is proper <=> the Hall-database group is Sohncke, for all 230 groups (exactly 65). Shared dataset section: spglib is asked about the analysed structure with the analyzer's tolerance, the result is memoised, reset() clears every memoised attribute and set_system() resets first.",
      "A-SPG: spglib returns the complete set of unimodular integer rotations of the detected group; LU error bound for det; spglib Hall database as reference.",
      "symbolic execution with loop invariant + z3; exhaustive table obligations", "DESIGN.md §3 C15")

claim("C13",
      "Representation invariant of Cluster ('the cached distance sub-matrix is None or was computed for exactly the current index set') proved to be established by "
      "Cluster.__init__/merge, left intact by _localize_clusters (loop frame obligations) and re-established by _clean_clusters (loop invariant over a symbolic list of "
      "heap objects); Cluster.get_dimensionality is executed symbolically against the contract of geometry.get_dimensionality: the call-site obligations "
      "(matrix coherent with the atoms, radii = clustering radii of these atoms in the order of the atoms, threshold = clustering threshold) imply result = get_dimensionality(own atoms); idempotence.",
      "Contract of geometry.get_dimensionality assumed here (its body: C09); sub-matrix lemma not machine-checked; numpy ix_/fancy indexing assumed; radii chain from "
      "get_clusters' constructor call is covered by the C01 main-loop contract when present.",
      "symbolic execution over a heap model with loop invariants + z3 (quantified arrays)", "DESIGN.md §3 C13")

claim("C01",
      "The whole Python pipeline of get_clusters is under contract for symbolic numbers of atoms and clusters: set-up on a deep copy (every cell/pbc path establishes the loop invariant; ValueError exactly for a zero "
      "periodic vector; input never mutated; RNG seeded with the given seed), main loop (invariant: every cluster built so far is in range, duplicate-free, non-empty, species cover its atoms, carries the clustering radii/threshold; "
      "the set of unvisited atoms strictly shrinks), _merge_clusters (while loop invariant over isolated+pending clusters; merged clusters by the contract of the inner merge), _localize_clusters (5 nested loops, ghost done-sets: "
      "pairwise disjoint, subsets, no atom lost), _clean_clusters (kept clusters = one largest bonded component under the DBSCAN contract), merge, Cluster.__init__; the post-condition of get_clusters is proved from the callee contracts.",
      "The periodic search is an assumed contract (A-REGION: get_region returns None or a region with basis indices in range, and a mask containing the seed); its crash-freedom and the prototype-cell periodicity (2 or 3) "
      "are not covered (L-HEUR); termination of _merge_clusters proved by a variant under the finite-set cardinality lemma (L-CARD, instantiated, not machine-checked); A-SK (DBSCAN), A-NP, A-ASE; determinism = seeded RNG + no other randomness reachable through the modelled names (np.random.* other than default_rng is rejected).",
      "symbolic execution over a heap model with loop invariants + z3 (quantified arrays); native small-scope replay for refutations", "DESIGN.md I.1 / II.3 C01")

claim("C09",
      "get_dimensionality and geometry.get_clusters are executed symbolically from their real source (symbolic cell, pbc, atom count; all four parameter shapes) against the contracts of "
      "get_radii, get_displacement_tensor (C10) and DBSCAN: None <=> more than one bonded component of the cell contents; 0 without periodic directions; otherwise n_pbc - log2(N_2x) "
      "(CPython math.log evaluated on the whole finite domain); the caller establishes the callee precondition 'atoms inside the cell' (wrap of a copy, folding exactly the periodic directions), requests a cutoff that covers every "
      "bonded pair (lemma), doubles exactly the periodic directions, tiles the radii in repeat order; clipping preserves the bond predicate (lemma); label loop invariant for the group count.",
      "A-TSA (topology-scaling theorem) is mathematics and not machine-checked; the displacement-tensor contract is the subject of C10; DBSCAN/ASE/numpy contracts assumed; invariances follow from "
      "'result = formula' and are not proved separately.",
      "symbolic execution against callee contracts + z3; exhaustive evaluation of the finite formula domain", "DESIGN.md §3 C09")

claim("C17",
      "Classifier.classify is executed symbolically from its real source (symbolic structure, all seed/tolerance modes) with get_dimensionality, the periodic search and the centre of mass under contract: "
      "the class is exactly the one the statement prescribes for each dimensionality value (None, 0 with/without single atom, 1, 2, 3); a Surface/Material2D result carries the region found, "
      "whose basis covers >= min_coverage of the atoms; the dimensionality is evaluated on a wrapped deep copy and the input is never mutated; Class2DWithCell views: basis and outliers partition the atoms; "
      "cross_validate_region returns one of the regions produced. The obligations of get_dimensionality (C09) and get_distances (C10) are part of this check.",
      "'returns normally' for arbitrary structures is NOT covered (the periodic search is a float heuristic, L-HEUR); that the dimensionality value is right is C09; region basis in range is the get_region contract (assumed).",
      "symbolic execution against callee contracts + z3", "DESIGN.md §3 C17")

claim("C08",
      "For every tabulated Wyckoff position with free parameters (all 230 groups) the real solve loop and the real test-position construction of _get_wyckoff_sets are extracted mechanically from the "
      "source on every run and executed with symbolic parameters: the solved parameters regenerate the representative position modulo the lattice for all x,y,z, and the test positions are exactly all "
      "expressions x all centring translations (= the closed orbit, table lemma wy.orbit). The enclosing function is executed whole on sample positions with the periodic search under contract: parameters "
      "are reported only on the path where every test position matched, else ValueError; attributes set exactly for the free variables, values in [0,1); integer matrices make integer parameter shifts lattice shifts; "
      "has-free-parameters flag evaluated on every single letter, every pair of letters and all letters of every group; the orbit-map section (letters/orbit ids of the conventional atoms are those of their crystallographic orbit) is shared with C12/C07.",
      "KNOWN FINDING (known_findings.json, DESIGN.md I.6b): for two-dimensional inputs the letters are assigned before the sheet is shifted and the cell shrunk, so representative + parameters are not atom positions of the conventional system handed out (obligation twod.*, refuted, reproduced on MoS2 and graphene monolayers; printed as KNOWN-FINDING, exit 0). Real arithmetic for tolerances; _search_periodic_positions under an assumed contract (its cell.T metric is not examined); letters/orbits from spglib (A-SPG); the guard obligations run on sample shapes (4 positions), the per-entry obligations on all entries.",
      "mechanically extracted blocks executed symbolically per table entry + z3; exhaustive", "DESIGN.md §3 C08")

claim("C05",
      "MatID's own contribution to the conventional cell ('spglib's standardised cell moved by one tabulated normalizer') is proved: _find_wyckoff_ground_state is executed from its real source "
      "for all 230 groups with symbolic atomic positions (bounded family of occupancy patterns): the stored positions are get_wrapped_positions of exactly A.x + t for an entry of this group's table "
      "(or the identity), the letters are permuted by the same entry, lattice / species / atom count of spglib's system are untouched (copy), in Sohncke groups the applied entry is proper, and snapping onto a cell face happens only within 1e-5 (numerical clean-up, not a displacement). "
      "Table lemmas (exhaustive): every normalizer maps the group onto itself, preserves every metric tensor of the crystal system, and is proper in Sohncke groups. _get_spglib_conventional_system uses exactly spglib's std cell.",
      "spglib's standardisation is an assumed contract (A-SPG); the 'independent symmetry search on the result' is replaced by the table lemmas; occupancy patterns are a bounded family (single letters, letter pairs), positions symbolic.",
      "symbolic execution of the real selection/application code per group + exhaustive table obligations (z3, exact rationals)", "DESIGN.md §3 C05")

claim("C06",
      "MatID's own part of the normal form: the real selection code of _find_wyckoff_ground_state is executed for all 230 groups on a bounded family of occupancy patterns and on every relabelling of them "
      "by a tabulated normalizer (= the same crystal with the origin moved / equivalent sites permuted) and with atoms in another order: the resulting (letter, element) multiset is identical and no MatIDError is raised; "
      "every tabulated letter permutation is the action of its own normalizer on the Wyckoff positions (nz.perm, nz.normalises), the set of letter permutations of every group is closed under composition, and the table represents every Euclidean normalizer of the generic metric (translation grid 1/24) modulo the group and the continuous translations - proper ones only in Sohncke groups (exhaustive table lemmas); get_material_id is executed on stub sets: independent of their order, depends on number, letters, elements, sizes and the 2D flag; "
      "label getters are pure look-ups.",
      "Invariance of spglib's dataset under re-presentation is assumed (A-SPG); SHA-512 prefix injective (A-HASH); occupancy family bounded (single letters, pairs); last clause of the statement not covered.",
      "execution of the real selection code over all groups x normalizers + exhaustive table obligations", "DESIGN.md §3 C06")

claim("C12",
      "Centring matrices of _get_primitive_system (literal read from the AST): determinant 1/k and, for every one of the 230 groups, the lattice they span is exactly Z^3 plus that group's centring translations "
      "(exhaustive); _get_primitive_system executed symbolically for every centring letter (symbolic conventional cell, positions, atom count): primitive cell = P^T . cell, one representative per primitive atom, "
      "letters / orbits / species taken at the same representative, fractional coordinates = pos . inv(prim_cell), wrapped, pbc kept, P returns the conventional objects; volume ratio det(P^T C) = det P det C; "
      "index maps: every conventional atom carries the letter / orbit of its class (np.unique first-occurrence contract, A-SPG homogeneity).",
      "spglib mappings assumed (A-SPG: onto, k pre-images, homogeneous); 'primitive system is itself primitive / same space group' rests on spglib; ASE/numpy contracts.",
      "symbolic execution per centring + exhaustive lattice obligations (exact rationals) + z3", "DESIGN.md §3 C12")

claim("C07",
      "MatID's own part: (a) the letters of the conventional atoms are the spglib letters relabelled by the permutation of the applied normalizer (real code executed for all 230 groups) and every tabulated "
      "permutation maps Wyckoff positions onto Wyckoff positions while the normalizer maps the group onto itself (exhaustive table obligations, mixed real/integer z3 queries) - so sets stay orbits and letters are those of the "
      "standard setting; (b) index maps: every conventional atom carries the letter/orbit id of its class (symbolic, all sizes); (c) set formation (partition, multiplicity = size, letter/element of the members, sorted output) "
      "proved for every number of atoms and orbits: the three loops of the real _get_wyckoff_sets run under invariants over a heap of WyckoffSet objects and an orbit-id -> object map "
      "(np.unique first-occurrence contract); an exhaustive execution on every labeling of up to 5 atoms is kept as a bounded cross-check (labelled bounded, not counted).",
      "spglib's orbits and letters are assumed (A-SPG: letter and element constant on an orbit id); np.unique contract assumed (A-NP); the return_parameters=True branch is C08's.",
      "exhaustive table obligations + symbolic index-map proof + loop-invariant proof of set formation over a symbolic heap", "DESIGN.md §3 C07")

ENGINES.append({"name": "cxxvc", "path": "engine/cxxvc.py", "serves_properties": ["C10", "C16"],
  "kind_free_text": "clang 14 typed JSON AST of the real matid/ext/*.cpp (through a stub pybind11 header) -> mechanical translation of each function body into Python statements -> executed by pyvc with loop invariants / per-iteration obligations; every run re-reads the .cpp files"})

claim("C10",
      "The C++ of matid/ext is translated mechanically from clang's typed AST on every run and executed symbolically: extend_system (copy counts = ceil(extension / perpendicular height) incl. the degenerate-cell branches; "
      "multiples 0..m,-m..-1 as loop invariants; every (i,j,k,l) of the fill nest writes image index i_copy*n+l with original index, multipliers and position = original + multipliers.cell; mixed-radix counter invariants), "
      "CellList::init (bounding-box invariant, bin size >= cutoff, every atom lands in an existing bin: safety obligations), get_neighbours_for_position and CellList::get_displacement_tensor (a generic stored image of a scanned "
      "bin is reported iff within the cutoff; the map keeps for every j<i a genuine image, entries only improve; antisymmetric fill; zero diagonal), driver (extension = cutoff or longest periodic vector), explicit case split for an infinite cutoff. "
      "Pure lemmas (z3 nonlinear): perpendicular-height sufficiency, adjacent bins suffice, bin index in range. Python wrapper executed on its whole flag domain; get_distances (second observation point) executed with symbolic positions and cell for all 8 pbc combinations: its tables are exactly those of the periodic search of the structure with an unbounded cutoff.",
      "Floats as reals; per-iteration obligations + frame are composed into whole-loop statements by the standard array-initialisation / monotone-map induction schema (stated in DESIGN.md, not machine-checked); "
      "the final 'exact within range' statement is the composition of the listed lemmas; pybind11 stub; native replay cannot follow .cpp edits (extension cannot be rebuilt here).",
      "clang AST -> mechanical translation -> symbolic execution with invariants + z3 lemmas", "DESIGN.md §3 C10")

claim("C16",
      "Extended system and neighbour query: the same C++ obligations as C10 (every periodic image within the extension distance exactly once, originals first, no offset along non-periodic axes; a query returns a stored image "
      "iff it lies within the cutoff, with exact distance/displacement/offset; scanned bins suffice by lemma). Position matching: get_matches and get_matches_simple executed symbolically for a symbolic number of queries against "
      "that query contract: nearest image within tolerance -> match if species agree / substitution otherwise, vacancy when nothing is within tolerance, with the image's cell offset (floor of the scaled position for vacancies), one entry per query. The Python entry points get_cell_list / get_extended_system forward structure, extension and cutoff unchanged (symbolic extension and cutoff).",
      "As C10; precondition tolerance <= cutoff and extension >= tolerance is established at the construction site in the periodic search (not re-proved); A-NP argmin, A-ASE wrap_positions.",
      "clang AST -> translation -> symbolic execution; symbolic execution of the Python matching code with per-query obligations", "DESIGN.md §3 C16")

claim("C11",
      "MatID's own structural steps for 2D systems, executed symbolically from the real source for each choice of the non-periodic axis: set_system analyses a deep copy whose atoms and periodic vectors are untouched and whose "
      "third vector keeps its direction and orientation (non-zero); get_thickness = extent of the scaled coordinate times the vector length (generic atom count); the 2D branch of "
      "get_conventional_system picks the first row of the transformation matrix along the non-periodic axis (MatIDError otherwise), makes pbc (T,T,F) with that vector last and the other two kept, wraps/centres, and "
      "minimises the cell along the last axis with min_2d_thickness (so thickness = max(extent, min_2d_thickness), atoms inside: contract of get_minimized_cell proved under C20); the id string gets the 2D prefix.",
      "All invariances (vacuum, axis relabelling, supercells, rigid motions, flips, atom order) rest on spglib (A-SPG) and are not proved; callee contracts from C20/C05; A-HASH.",
      "symbolic execution against callee contracts + z3", "DESIGN.md §3 C11")
