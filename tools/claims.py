# claims, exec'd by mkmanifest.py
ENGINES = [
 {"name": "tabvc", "path": "engine/tabvc.py", "serves_properties": ["C14", "C05", "C06", "C07", "C08", "C12", "C15"],
  "kind_free_text": "table obligations: every entry of the symmetry tables is a named obligation against spglib's Hall database; exact rational arithmetic for ground identities, z3 for the quantified ones"},
]

claim("C14",
      "Every entry of SPACE_GROUP_INFO (230), WYCKOFF_SETS (1731 positions) and the normalizer table is turned into named obligations "
      "(expressions == matrices for all x,y,z; closed orbit of the tabulated multiplicity under the reference group; normalizer maps the group onto itself, "
      "preserves every metric tensor of the crystal system, is proper in Sohncke groups, permutes the Wyckoff positions as tabulated). "
      "The tables are finite, the obligations symbolic where the statement quantifies (x,y,z; lattice metric): exhaustive proof.",
      "Reference = spglib Hall database in its default setting (trusted as the International Tables). 8-decimal floats are rationalised to the unique "
      "small-denominator rational. Ground identities are decided by exact rational arithmetic, quantified ones by z3.",
      "exhaustive table obligations: exact rational arithmetic + z3 (LRA/LIA) per entry", "DESIGN.md §3 C14")
