import sys, time; sys.path.insert(0,'/verif')
from engine import common; common.use_repo_on_path()
import faulthandler; faulthandler.dump_traceback_later(int(sys.argv[2]), exit=True)
from engine import pyvc
from contracts import sbc_main as M
from contracts.sbc_model import sbc_ctx
import props.C01 as P
M.PHASE["setup"] = sys.argv[1]=="setup"
t0=time.time()
orig=pyvc.Explorer.explore
def ex(self, thunk):
    def th(st):
        r=None
        try:
            return thunk(st)
        finally:
            print("path %d  t=%.1f  forks=%d nsat=%d" % (self.paths, time.time()-t0, len(st.trail), self.nsat), flush=True)
    return orig(self, th)
pyvc.Explorer.explore=ex
m=sbc_ctx(); m.globals["np"]=M.NPs2(); m.globals["PeriodicFinder"]=M.PF
from engine.common import Report
from props._util import run_fv
def mk(st,it):
    a,k,c=M.mk(st,it); st.ghost["ctx"]=c; return a,k,c
run_fv(Report('x'),"main.",m,"SBC.get_clusters",mk,M.post,loops=M.LOOPS,contracts=M.CONTRACTS,raises=M.raises,max_paths=20000,expect_raise=True)
