#!/bin/bash
# usage: tools/mut.sh <PROP> <file-relative-to-repo> <python-re-pattern> <replacement> [count]
# applies one textual mutation to a scratch copy of /repo (under /dev/shm), runs the check against it, removes the copy.
set -e
P=$1; F=$2; PAT=$3; REP=$4; CNT=${5:-1}
S=/dev/shm/verif-mut-$$
mkdir -p $S && rsync -a --exclude .git --exclude build --exclude docs --exclude '*.egg-info' /repo/ $S/
python3 - "$S/$F" "$PAT" "$REP" "$CNT" <<'PY'
import re,sys
p,pat,rep,cnt=sys.argv[1:5]
s=open(p).read()
n=len(re.findall(pat,s))
if n==0: print("PATTERN NOT FOUND"); sys.exit(5)
s2=re.sub(pat,rep,s,count=int(cnt))
open(p,'w').write(s2)
print("mutated",p,"matches",n)
PY
cd /verif
set +e
VERIF_REPO=$S ./check $P --tier ${TIER:-quick} 2>&1 | grep -v "^WARNING" | tail -${TAIL:-6}
echo "exit=${PIPESTATUS[0]}"
rm -rf $S
