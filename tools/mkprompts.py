"""Writes the task text for the fresh sub-agents that produce property-breaking changes (round N): /tmp/agent_prompts/<id>.txt.
The agent gets the property text and its own scratch worktree only - nothing from /verif."""
import json, os, sys

props = {json.loads(l)["id"]: json.loads(l) for l in open("/verif/properties.jsonl")}
os.makedirs("/tmp/agent_prompts", exist_ok=True)
avoid = {}
for d in sorted(os.listdir("/verif/seeded")):
    try:
        m = json.load(open("/verif/seeded/%s/meta.json" % d))
        avoid.setdefault(m["property"], []).append((m.get("breaks") or "")[:300])
    except Exception:
        pass
for pid in sys.argv[1:]:
    p = props[pid]
    wt = "/tmp/wt-%s" % pid
    txt = f"""You are helping to evaluate a verification harness for the Python/C++ library MatID (nomad-coe/matid). You do NOT see the harness and must not look for it: do not read anything under /verif.

Your own scratch git worktree of the library is at {wt} (a checkout of /repo's HEAD). Work ONLY inside {wt}. Never modify /repo itself, never commit anywhere, never use `git stash` (the stash is shared between worktrees; use `git diff > file` and `git apply -R file` instead).

The property under study ({pid}: {p['title']}):

STATEMENT: {p['statement']}

QUANTIFIED OVER: {p['quantifier']['text']}

ANCHORS (where the behaviour lives): {json.dumps(p['anchors'])}

YOUR TASK: make ONE small, realistic change to the library source in {wt} (the kind of slip or 'simplification' or 'optimisation' a maintainer could plausibly commit: an off-by-one, a wrong comparison, a dropped copy, a swapped argument, a stale cache, a wrong constant, a missing case, ...) such that
  (1) the library still imports/builds and the pinned test suite still passes completely:  cd {wt} && PYTHONPATH={wt} /venv/bin/python -m pytest -q -p no:cacheprovider   (110 tests; check that `matid` is imported from {wt}: PYTHONPATH={wt} /venv/bin/python -c 'import matid; print(matid.__file__)'). If you change a .cpp file under matid/ext you must rebuild the extension inside the worktree yourself (look at how /repo is built; if you cannot rebuild offline, change Python code instead);
  (2) the property above is genuinely violated for at least one input that the statement covers, and you can demonstrate it.
Changes already used in an earlier round (do something DIFFERENT, in a different function if possible): {json.dumps(avoid.get(pid, []))}
Prefer a change that manifests only on unusual inputs (so that ordinary use would not notice), and that is not a mere crash on every input.

DELIVERABLES, all inside {wt}/seed/ (create the directory):
  - patch.diff : `git diff` of your change (source files only, relative to the worktree root, applies with `patch -p1`)
  - demo.py    : a stand-alone script (run as PYTHONPATH=<tree> /venv/bin/python demo.py) that exits 0 on the ORIGINAL tree and exits 1 on the CHANGED tree, printing the failing input and what was observed; it must check the property's statement itself (not an implementation detail), must be deterministic and finish within ~2 minutes
  - meta.json  : {{"property": "{pid}", "summary": "<what you changed and why it breaks the property>", "needs_to_manifest": "<which inputs show it>", "ran": ["<commands you ran and their outcome>"]}}
Verify both directions of demo.py yourself (git apply -R seed/patch.diff, run, re-apply). Leave the change applied in the worktree when done. Your final answer: a three-line summary (file/function changed, failing input, test-suite result)."""
    open("/tmp/agent_prompts/%s.txt" % pid, "w").write(txt)
    print(pid, len(txt))
