#!/usr/bin/env python3
"""Regenerates /verif/MANIFEST.json from the claims below (single source of truth)."""
import json, os, subprocess
HERE = os.path.dirname(os.path.dirname(os.path.abspath(__file__)))
props = [json.loads(l) for l in open(os.path.join(HERE, "properties.jsonl"))]

NA_FINAL = {
 "C02": "emergent recognition guarantee of a floating-point voting/graph heuristic (PeriodicFinder): no chain of per-function contracts within reach implies 'exactly one complete cluster'; its precondition (a bonded, non-overlapping simple crystal) is a generative family, not a predicate a contract can state. See DESIGN.md §3 C02.",
 "C03": "same as C02 (end-to-end success of the heuristic search on two-material stacks). Its three anchored mechanisms are proved as lemmas under C01/C16, but the property itself cannot be expressed as a contract within reach. See DESIGN.md §3.",
 "C04": "composition of the heuristic periodic search (averaged float positions of the prototype cell) with spglib's symmetry search; no contract within reach decides that the prototype cell has the source crystal's space group/Wyckoff occupation. See DESIGN.md §3.",
 "C18": "emergent recognition guarantee of the classifier's heuristic region search (as C02, plus seed selection); not expressible as per-function contracts. See DESIGN.md §3.",
}

CLAIMS = {}

def claim(pid, text, note, technique, design_ref, thorough=True):
    CLAIMS[pid] = {
        "property_id": pid,
        "quick_cmd": "./check %s --tier quick" % pid,
        **({"thorough_cmd": "./check %s --tier thorough" % pid} if thorough else {}),
        "evidence_file": "evidence/%s.json" % pid,
        "replay_cmd_template": "./check %s --replay {path}" % pid,
        "engine": "pyvc/tabvc",
        "level_claimed": {"category": "proof", "text": text, "design_ref": design_ref},
        "level_note": note,
        "technique": technique,
    }

exec(open(os.path.join(HERE, "tools", "claims.py")).read())

na = []
for p in props:
    if p["id"] in CLAIMS:
        continue
    na.append({"property_id": p["id"], "reason": NA_FINAL.get(p["id"], "check not built yet (build in progress); see DESIGN.md §3 for the planned contracts")})

m = {
 "version": 1,
 "setup_cmd": "./setup.sh",
 "hooks": {"guard": "MATID_VERIF",
           "enable": "no guarded source hooks exist: contracts live in a sidecar under /verif keyed by qualified function name and loop ordinal; every check reads /repo's working tree (or $VERIF_REPO for self-tests) afresh",
           "baseline_off_cmd": "cd /repo && /venv/bin/python -m pytest -ra -q -p no:cacheprovider --timeout=900 --continue-on-collection-errors",
           "source_commits": [], "add_only": True},
 "engines": ENGINES,
 "checks": [CLAIMS[k] for k in sorted(CLAIMS)],
 "notes": "Contract-based deductive verification; see DESIGN.md. Exit codes of ./check: 0 held, 1 violation, 2 undecided (source left the supported subset / solver unknown), 3 checker crash. fix: commits in /repo are listed in known_findings.json under 'fixed'; one recorded, unrepaired finding (C08 on 2D inputs) under 'findings' is printed as KNOWN-FINDING and does not fail the check.",
 "not_applicable": na,
}
json.dump(m, open(os.path.join(HERE, "MANIFEST.json"), "w"), indent=1)
print("claimed:", sorted(CLAIMS), "n/a:", [x["property_id"] for x in na])
