import sys; sys.path.insert(0,'/verif')
from engine import common; common.use_repo_on_path()
import faulthandler, importlib
faulthandler.dump_traceback_later(int(sys.argv[3]), exit=True)
P=importlib.import_module('props.'+sys.argv[1])
from engine.common import Report
rep=Report('x')
getattr(P,'_'+sys.argv[2])(rep)
for o in rep.obligations:
    if o.status!='proved': print(o.id,o.status,o.detail[:300])
print('done', len(rep.obligations))
