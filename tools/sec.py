"""dev helper: run single sections of a property module:  .venv/bin/python tools/sec.py C08 flag guard"""
import sys; sys.path.insert(0,'/verif')
from engine import common; common.use_repo_on_path()
import importlib, time
P=importlib.import_module('props.'+sys.argv[1])
from engine.common import Report
from props._util import section
for name in sys.argv[2:]:
    rep=Report('x'); t=time.time()
    section(rep,name,lambda: getattr(P,'_'+name)(rep))
    print('==',name,round(time.time()-t,1),'s', len(rep.obligations))
    for o in rep.obligations:
        if o.status!='proved' or o.time_s>5: print('  ',o.id,o.status,round(o.time_s,2),o.detail[:500])
