#!/bin/bash
# usage: tools/seed_eval.sh <PID> [seed-name]   - validates a sub-agent's seeded change and runs the check of that property against it
P=$1; NAME=${2:-$P-agent1}; WT=/tmp/wt-$P
D=/verif/seeded/$NAME; mkdir -p $D
cp $WT/seed/patch.diff $WT/seed/demo.py $D/ 2>/dev/null; cp $WT/seed/meta.json $D/agent_meta.json 2>/dev/null
S=/dev/shm/verif-seed-$$; mkdir -p $S && rsync -a --exclude .git --exclude build --exclude docs --exclude '*.egg-info' --exclude seed /repo/ $S/
cd $S
echo "== demo on original"; PYTHONPATH=$S timeout 900 /venv/bin/python $D/demo.py > $D/demo_orig.log 2>&1; R0=$?; echo "exit=$R0"
git init -q . 2>/dev/null; patch -p1 -s < $D/patch.diff; PA=$?; echo "patch applied rc=$PA"
echo "== tests with change"; PYTHONPATH=$S timeout 1800 /venv/bin/python -m pytest -q -p no:cacheprovider 2>&1 | tail -1 | tee $D/tests_changed.log
echo "== demo on changed"; PYTHONPATH=$S timeout 900 /venv/bin/python $D/demo.py > $D/demo_changed.log 2>&1; R1=$?; echo "exit=$R1"
cd /verif
echo "== check against changed tree"
VERIF_REPO=$S timeout 3000 ./check $P --tier quick > $D/check_changed.log 2>&1; RC=$?; grep -v "^WARNING" $D/check_changed.log | tail -5; echo "check exit=$RC"
python3 - "$D" "$P" "$R0" "$R1" "$RC" "$PA" <<'PY'
import json,sys,os
d,p,r0,r1,rc,pa=sys.argv[1:7]
try: am=json.load(open(os.path.join(d,'agent_meta.json')))
except Exception: am={}
tests=open(os.path.join(d,'tests_changed.log')).read().strip()
meta={"property":p,"breaks":am.get("summary"),"needs_to_manifest":am.get("needs_to_manifest"),
 "confirmed":{"patch_applies":pa=="0","demo_exit_original":int(r0),"demo_exit_changed":int(r1),"tests_with_change":tests},
 "ran":["PYTHONPATH=<scratch copy of /repo> /venv/bin/python demo.py (original and changed)","/venv/bin/python -m pytest -q -p no:cacheprovider (changed)","VERIF_REPO=<scratch> ./check %s --tier quick"%p],
 "check_exit_on_changed_tree":int(rc),"valid": pa=="0" and r0=="0" and r1!="0" and "passed" in tests and "failed" not in tests}
json.dump(meta,open(os.path.join(d,'meta.json'),'w'),indent=1)
print(json.dumps(meta["confirmed"]), "valid=",meta["valid"], "detected=", rc=="1")
PY
rm -rf $S
