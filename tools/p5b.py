import sys, time; sys.path.insert(0,'/verif')
from engine import common; common.use_repo_on_path()
import faulthandler; faulthandler.dump_traceback_later(25, exit=True)
import props.C05 as P
print(P._group_obligations(2))
