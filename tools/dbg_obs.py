"""print every obligation verdict as it is produced (to find the slow ones)"""
import sys, time; sys.path.insert(0,'/verif')
from engine import common; common.use_repo_on_path()
import faulthandler, importlib
faulthandler.dump_traceback_later(int(sys.argv[3]), exit=True)
from engine import pyvc
orig=pyvc.Explorer.prove
def pr(self, st, name, goal, kind, func):
    t=time.time(); r=orig(self, st, name, goal, kind, func)
    ob=self.obs.get(name); print("%6.1fs %-70s %s %s" % (time.time()-t, name[:70], ob.status if ob else '-', ob.backend if ob else ''), flush=True)
    return r
pyvc.Explorer.prove=pr
P=importlib.import_module('props.'+sys.argv[1])
from engine.common import Report
getattr(P,'_'+sys.argv[2])(Report('x'))
