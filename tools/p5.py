import sys, time; sys.path.insert(0,'/verif')
from engine import common; common.use_repo_on_path()
import props.C05 as P
for sg in [int(x) for x in sys.argv[1:]]:
    t=time.time(); r=P._group_obligations(sg); print(sg, round(time.time()-t,1), [(o.id,o.status,o.detail[:200]) for o in r if o.status!='proved'], flush=True)
