#!/bin/bash
# usage: tools/refactor_eval.sh [name-prefix]  - applies each behaviour-preserving refactoring of /verif/refactorings to a scratch copy of /repo,
# runs the pinned tests and the check of the property named in the file name; a VIOLATION (exit 1) would be a false alarm.
cd /verif
for f in refactorings/${1:-R}*.diff; do
  name=$(basename $f .diff); P=$(echo $name | cut -d- -f2)
  S=/dev/shm/verif-rf-$$; rm -rf $S; mkdir -p $S && rsync -a --exclude .git --exclude build --exclude docs --exclude '*.egg-info' /repo/ $S/
  (cd $S && patch -p1 -s < /verif/$f) || { echo "$name: patch does not apply"; rm -rf $S; continue; }
  T=$(cd $S && PYTHONPATH=$S timeout 1800 /venv/bin/python -m pytest -q -p no:cacheprovider 2>&1 | tail -1)
  VERIF_REPO=$S timeout 3000 ./check $P --tier quick > /dev/shm/rf-$name.log 2>&1; RC=$?
  echo "$name: tests[$T] check_exit=$RC $(grep -c '^VIOLATION' /dev/shm/rf-$name.log) violations; $(grep '^UNDECIDED\|failed obligation' /dev/shm/rf-$name.log | head -2 | cut -c1-160 | tr '\n' ' ')"
  rm -rf $S
done
