import sys; sys.path.insert(0,'/verif')
from engine import common; common.use_repo_on_path()
from engine import cxxvc
spec=[("geometry.cpp","norm",None,None),("geometry.cpp","cross",None,None),("geometry.cpp","dot",None,None),("geometry.cpp","extend_system",None,None),
      ("geometry.cpp","get_cell_list",None,None),("geometry.cpp","get_displacement_tensor",None,"get_displacement_tensor_cpp"),
      ("celllist.cpp","CellList","CellList","CellList_ctor"),("celllist.cpp","init","CellList","CellList_init"),
      ("celllist.cpp","get_neighbours_for_position","CellList","CellList_get_neighbours_for_position"),
      ("celllist.cpp","get_displacement_tensor","CellList","CellList_get_displacement_tensor")]
for s in spec:
    try:
        src,fn=cxxvc.translate(*s); print(src)
    except Exception as e:
        import traceback; traceback.print_exc(); print("FAILED",s)
