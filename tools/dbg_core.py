import sys, time; sys.path.insert(0,'/verif')
from engine import common; common.use_repo_on_path()
import importlib, z3
from engine import pyvc
orig=pyvc.Explorer.prove
def pr(self, st, name, goal, kind, func):
    if name=='__canary__':
        s2=z3.Solver(); s2.set('timeout',30000)
        ps=[z3.Bool('p%d'%i) for i in range(len(st.pc))]
        for p,f in zip(ps,st.pc): s2.add(z3.Implies(p,f))
        r=s2.check(ps); print('pc check:', r, len(st.pc))
        if r==z3.unsat:
            core=s2.unsat_core()
            for p,f in zip(ps,st.pc):
                if p in core: print('  CORE', str(f)[:400])
        sys.exit(0)
    return orig(self, st, name, goal, kind, func)
pyvc.Explorer.prove=pr
P=importlib.import_module('props.'+sys.argv[1])
from engine.common import Report
getattr(P,'_'+sys.argv[2])(Report('x'))
