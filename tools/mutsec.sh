#!/bin/bash
# usage: tools/mutsec.sh <PROP> <section> <file-relative-to-repo> <python-re-pattern> <replacement> [count]
# like mut.sh but runs one section of the property module only (no replay, no evidence): lists the obligations that are not proved.
P=$1; SEC=$2; F=$3; PAT=$4; REP=$5; CNT=${6:-1}
S=/dev/shm/verif-mut-$$
mkdir -p $S && rsync -a --exclude .git --exclude build --exclude docs --exclude '*.egg-info' /repo/ $S/
python3 - "$S/$F" "$PAT" "$REP" "$CNT" <<'PY' || { rm -rf $S; exit 5; }
import re,sys
p,pat,rep,cnt=sys.argv[1:5]
s=open(p).read()
n=len(re.findall(pat,s))
if n==0: print("PATTERN NOT FOUND"); sys.exit(5)
open(p,'w').write(re.sub(pat,rep,s,count=int(cnt)))
print("mutated",p,"matches",n)
PY
cd /verif
VERIF_REPO=$S timeout ${TMO:-600} .venv/bin/python tools/dbg_sec.py $P $SEC ${TMO:-600} 2>&1 | grep -v "^WARNING" | grep -v '^  File' | cut -c1-400 | tail -${TAIL:-8}
rm -rf $S
