#!/bin/bash
# regenerates every evidence file on /repo (quick tier by default):  tools/run_all.sh [quick|thorough]
T=${1:-quick}
cd /verif
for p in $(python3 -c "import json;print(' '.join(c['property_id'] for c in json.load(open('MANIFEST.json'))['checks']))"); do
  /usr/bin/time -f "$p %es" ./check $p --tier $T 2>&1 | grep -v "^WARNING" | tail -2
done
