import sys, time; sys.path.insert(0,'/verif')
from engine import common; common.use_repo_on_path()
import importlib, z3
from engine import pyvc
orig=pyvc.Explorer.prove
def pr(self, st, name, goal, kind, func):
    if name.startswith(sys.argv[3]):
        lz=pyvc.Linearizer()
        hs=[lz(h) for h in st.pc]; g=lz(goal)
        s=z3.Solver(); s.set('timeout',5000)
        for h in hs: s.add(h)
        for ax in lz.axioms(): s.add(ax)
        s.add(z3.Not(g)); r=s.check(); print('LIN result', r)
        print('GOAL', str(z3.simplify(goal))[:600]); print('LGOAL', str(g)[:600])
        for h,l in zip(st.pc,hs):
            if 'i_copy' in str(h) or 'iter' in str(h): print(' H', str(h)[:300]); print(' L', str(l)[:300])
        if r==z3.sat: print(s.model())
        sys.exit(0)
    return orig(self, st, name, goal, kind, func)
pyvc.Explorer.prove=pr
P=importlib.import_module('props.'+sys.argv[1])
from engine.common import Report
getattr(P,'_'+sys.argv[2])(Report('x'))
