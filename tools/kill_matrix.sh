#!/bin/bash
# usage: tools/kill_matrix.sh [jobs] [pattern]  - runs the quick check of every seeded change (seeded/<P>-agentN) against a scratch copy of /repo with
# the change applied; prints one line per seed: exit code, number of VIOLATION lines, how many of them carry a reproduced native input.
cd /verif
J=${1:-4}; PAT=${2:-}
one() {
  d=$1; name=$(basename $d); P=${name%%-*}
  S=/dev/shm/verif-km-$name; rm -rf $S; mkdir -p $S && rsync -a --exclude .git --exclude build --exclude docs --exclude '*.egg-info' /repo/ $S/
  (cd $S && patch -p1 -s < /verif/$d/patch.diff) || { echo "$name patch-does-not-apply"; rm -rf $S; return; }
  VERIF_REPO=$S VERIF_JOBS=6 timeout 3000 ./check $P --tier quick > /dev/shm/km-$name.log 2>&1; rc=$?
  v=$(grep -c '^VIOLATION' /dev/shm/km-$name.log); r=$(grep '^VIOLATION' /dev/shm/km-$name.log | grep -vc no-failing-input-found)
  echo "$name exit=$rc violations=$v reproduced=$r"
  rm -rf $S
}
export -f one
ls -d seeded/*${PAT}* | xargs -P $J -I{} bash -c 'one {}' | sort
