import sys; sys.path.insert(0,'/verif')
from engine import common; common.use_repo_on_path()
import cProfile, pstats, importlib
P=importlib.import_module('props.'+sys.argv[1])
from engine.common import Report
cProfile.run("getattr(P,'_'+sys.argv[2])(Report('x'))", '/dev/shm/prof.out')
p=pstats.Stats('/dev/shm/prof.out'); p.sort_stats('tottime').print_stats(14)
