"""tabvc: the symmetry tables of matid/data/symmetry_data.py as data-structure invariants.

The tables are the code that runs: the module is imported from the tree under verification on every run.
Reference operations: spglib's Hall database in the default setting (first Hall number of each space group).
Obligations are indexed by table entry. Ground rational identities are decided by exact rational arithmetic
(backend 'exact-rational'); universally quantified ones (symbolic x,y,z / symbolic metric tensor / mixed
real-integer membership) are discharged by z3 (backend 'z3').
"""
from __future__ import annotations

import importlib
import itertools
import re
import time
from fractions import Fraction as Fr

from .common import Ob, REPO, pool_map, tier

F0, F1 = Fr(0), Fr(1)

# --------------------------------------------------------------------------------------------
# loading


def load_tables():
    import matid.data.symmetry_data as sd

    assert sd.__file__.startswith(REPO), (sd.__file__, REPO)
    return sd.SPACE_GROUP_INFO, sd.WYCKOFF_SETS, sd.CHIRALITY_PRESERVING_EUCLIDEAN_NORMALIZERS


_hall_first = None


def first_hall(sg):
    global _hall_first
    import spglib

    if _hall_first is None:
        _hall_first = {}
        for h in range(1, 531):
            n = spglib.get_spacegroup_type(h).number
            _hall_first.setdefault(n, h)
    return _hall_first[sg]


def rat(x, den=48, tol=5e-8):
    """The unique rational with small denominator within the print precision of the tables (8 decimals)."""
    f = Fr(float(x)).limit_denominator(den)
    if abs(float(f) - float(x)) > tol:
        raise ValueError("not a small rational: %r" % (x,))
    return f


def ratm(a):
    return [[rat(v) for v in row] for row in a]


def ratv(a):
    return [rat(v) for v in a]


_ref_cache = {}


def ref_ops(sg):
    """Reference group G(sg): list of (R 3x3 int Fractions, t 3 Fractions) in column convention x' = R x + t."""
    import spglib

    if sg not in _ref_cache:
        d = spglib.get_symmetry_from_database(first_hall(sg))
        ops = []
        for R, t in zip(d["rotations"], d["translations"]):
            ops.append(([[Fr(int(v)) for v in row] for row in R], [rat(v) % 1 for v in t]))
        _ref_cache[sg] = ops
    return _ref_cache[sg]


def ref_type(sg):
    import spglib

    return spglib.get_spacegroup_type(first_hall(sg))


# --------------------------------------------------------------------------------------------
# tiny exact linear algebra


def mm(A, B):
    return [[sum(A[i][k] * B[k][j] for k in range(len(B))) for j in range(len(B[0]))] for i in range(len(A))]


def mv(A, v):
    return [sum(A[i][k] * v[k] for k in range(len(v))) for i in range(len(A))]


def vm(v, A):
    return [sum(v[k] * A[k][j] for k in range(len(v))) for j in range(len(A[0]))]


def tr(A):
    return [list(r) for r in zip(*A)]


def det3(A):
    return (A[0][0] * (A[1][1] * A[2][2] - A[1][2] * A[2][1])
            - A[0][1] * (A[1][0] * A[2][2] - A[1][2] * A[2][0])
            + A[0][2] * (A[1][0] * A[2][1] - A[1][1] * A[2][0]))


def inv3(A):
    d = det3(A)
    if d == 0:
        raise ZeroDivisionError("singular")
    c = [[(A[(j + 1) % 3][(i + 1) % 3] * A[(j + 2) % 3][(i + 2) % 3]
           - A[(j + 1) % 3][(i + 2) % 3] * A[(j + 2) % 3][(i + 1) % 3]) / d for j in range(3)] for i in range(3)]
    return c


def rank(rows):
    rows = [list(r) for r in rows if any(v != 0 for v in r)]
    rk = 0
    ncol = len(rows[0]) if rows else 0
    for c in range(ncol):
        piv = None
        for i in range(rk, len(rows)):
            if rows[i][c] != 0:
                piv = i
                break
        if piv is None:
            continue
        rows[rk], rows[piv] = rows[piv], rows[rk]
        p = rows[rk][c]
        rows[rk] = [v / p for v in rows[rk]]
        for i in range(len(rows)):
            if i != rk and rows[i][c] != 0:
                f = rows[i][c]
                rows[i] = [a - f * b for a, b in zip(rows[i], rows[rk])]
        rk += 1
        if rk == len(rows):
            break
    return rk


def mod1(v):
    return tuple(x % 1 for x in v)


def key_aff(M, c):
    return (tuple(tuple(r) for r in M), mod1(c))


# --------------------------------------------------------------------------------------------
# expression parser for Wyckoff coordinate strings such as "-x+1/2", "x-y", "2x", "11/12"

_tok = re.compile(r"([+-]?)(\d+(?:/\d+)?)?([xyz])?")


def parse_expr(s):
    """-> (coef dict {'x':Fr,'y':Fr,'z':Fr}, const Fr). Raises ValueError on anything else."""
    s = s.replace(" ", "")
    coef = {"x": F0, "y": F0, "z": F0}
    const = F0
    pos = 0
    if not s:
        raise ValueError("empty expression")
    while pos < len(s):
        m = _tok.match(s, pos)
        if not m or m.end() == pos:
            raise ValueError("cannot parse %r at %d" % (s, pos))
        sign, num, var = m.groups()
        if num is None and var is None:
            raise ValueError("cannot parse %r at %d" % (s, pos))
        if pos > 0 and sign == "":
            raise ValueError("missing sign in %r" % s)
        v = Fr(num) if num is not None else F1
        if sign == "-":
            v = -v
        if var:
            coef[var] += v
        else:
            const += v
        pos = m.end()
    return coef, const


# --------------------------------------------------------------------------------------------
# obligations


def _ob(oid, ok, func, detail="", witness=None, backend="exact-rational", t=0.0, kind="exact", smt2=""):
    return Ob(id=oid, status="proved" if ok else "refuted", backend=backend, time_s=t, detail=detail,
              witness=witness, func=func, kind=kind, smt2=smt2)


ITA_CRYSTAL = [(1, 2, "triclinic"), (3, 15, "monoclinic"), (16, 74, "orthorhombic"), (75, 142, "tetragonal"),
               (143, 167, "trigonal"), (168, 194, "hexagonal"), (195, 230, "cubic")]
PEARSON_FIRST = {"triclinic": "a", "monoclinic": "m", "orthorhombic": "o", "tetragonal": "t", "trigonal": "h",
                 "hexagonal": "h", "cubic": "c"}
PROPER_POINT_GROUPS = {"1", "2", "222", "4", "422", "3", "32", "6", "622", "23", "432"}
CENTRING_COUNT = {"P": 1, "A": 2, "B": 2, "C": 2, "I": 2, "R": 3, "F": 4}


def crystal_system_of(sg):
    for lo, hi, name in ITA_CRYSTAL:
        if lo <= sg <= hi:
            return name
    raise ValueError(sg)


def info_obligations(sg):
    """SPACE_GROUP_INFO[sg] against the Hall database / ITA numbering."""
    INFO, WY, NZ = load_tables()
    f = "matid/data/symmetry_data.py:SPACE_GROUP_INFO"
    obs = []
    e = INFO.get(sg)
    if e is None:
        return [_ob("info.present[%d]" % sg, False, f, "entry missing", {"sg": sg})]
    t = ref_type(sg)
    obs.append(_ob("info.pointgroup[%d]" % sg, e.get("pointgroup") == t.pointgroup_international, f,
                   "table %r, database %r" % (e.get("pointgroup"), t.pointgroup_international), {"sg": sg}))
    cs = crystal_system_of(sg)
    obs.append(_ob("info.crystal[%d]" % sg, e.get("crystal_system") == cs, f,
                   "table %r, ITA %r" % (e.get("crystal_system"), cs), {"sg": sg}))
    # Pearson symbol with merged side centrings, as computed by the real getter on this entry: the method body of
    # SymmetryAnalyzer.get_bravais_lattice is run with a stub self whose only capability is the space group number
    # (the getter is a function of the number alone: full finite domain, not a sample).
    from matid.symmetry.symmetryanalyzer import SymmetryAnalyzer

    class _Stub:
        def __init__(self, n):
            self.n = n

        def get_space_group_number(self):
            return self.n

    cent = t.international_short[0]
    want = PEARSON_FIRST[cs] + ("S" if cent in "ABC" else cent)
    try:
        got = SymmetryAnalyzer.get_bravais_lattice(_Stub(sg))
    except Exception as ex:  # noqa
        got = "%s: %s" % (type(ex).__name__, ex)
    obs.append(_ob("info.bravais[%d]" % sg, got == want, "matid/symmetry/symmetryanalyzer.py:SymmetryAnalyzer.get_bravais_lattice",
                   "getter returns %r, ITA %r (table entry %r)" % (got, want, e.get("bravais_lattice")), {"sg": sg}))
    try:
        gotcs = SymmetryAnalyzer.get_crystal_system(_Stub(sg))
    except Exception as ex:  # noqa
        gotcs = "%s: %s" % (type(ex).__name__, ex)
    obs.append(_ob("info.crystal-getter[%d]" % sg, gotcs == cs, "matid/symmetry/symmetryanalyzer.py:SymmetryAnalyzer.get_crystal_system",
                   "getter returns %r, ITA %r" % (gotcs, cs), {"sg": sg}))
    # number of centring translations in WYCKOFF_SETS
    w = WY.get(sg)
    ntr = len(w["translations"]) + 1 if w is not None else -1
    obs.append(_ob("info.centring-count[%d]" % sg, ntr == CENTRING_COUNT[cent], "matid/data/symmetry_data.py:WYCKOFF_SETS",
                   "translations+1 = %d, centring %s" % (ntr, cent), {"sg": sg}))
    return obs


def wy_position_data(w, letter):
    e = w[letter]
    Ms = [ratm(M) for M in e["matrices"]]
    Cs = [ratv(c) for c in e["constants"]]
    return e, Ms, Cs


def wyckoff_obligations(sg):
    """WYCKOFF_SETS[sg]: expressions == matrices/constants (symbolic in x,y,z; z3), integrality, variables, closed orbit."""
    import z3

    INFO, WY, NZ = load_tables()
    f = "matid/data/symmetry_data.py:WYCKOFF_SETS"
    obs = []
    w = WY.get(sg)
    if w is None:
        return [_ob("wy.present[%d]" % sg, False, f, "entry missing", {"sg": sg})]
    letters = sorted(k for k in w if k != "translations")
    # letters contiguous from 'a' (after 'z' comes 'A' in sg 47)
    alphabet = "abcdefghijklmnopqrstuvwxyzA"
    obs.append(_ob("wy.letters[%d]" % sg, sorted(letters, key=alphabet.index) == list(alphabet[: len(letters)]), f,
                   "letters %s" % letters, {"sg": sg}))
    try:
        trans = [[F0, F0, F0]] + [ratv(t) for t in w["translations"]]
    except ValueError as ex:
        return obs + [_ob("wy.rationalise[%d,translations]" % sg, False, f, str(ex), {"sg": sg})]
    # centring translations are exactly the pure translations of the reference group
    G = ref_ops(sg)
    ident = [[F1, F0, F0], [F0, F1, F0], [F0, F0, F1]]
    ref_tr = sorted(mod1(t) for R, t in G if R == ident)
    obs.append(_ob("wy.translations[%d]" % sg, sorted(mod1(t) for t in trans) == ref_tr, f,
                   "table %s, database %s" % (trans, ref_tr), {"sg": sg}))
    x, y, z = z3.Reals("x y z")
    zv = {"x": x, "y": y, "z": z}
    general_letter = sorted(letters, key=alphabet.index)[-1] if letters else None
    for L in letters:
        p = "%d,%s" % (sg, L)
        wit = {"sg": sg, "letter": L}
        try:
            e, Ms, Cs = wy_position_data(w, L)
        except ValueError as ex:
            obs.append(_ob("wy.rationalise[%s]" % p, False, f, str(ex), wit))
            continue
        exprs = e["expressions"]
        ok_shape = len(exprs) == len(Ms) == len(Cs) and len(exprs) > 0
        obs.append(_ob("wy.shape[%s]" % p, ok_shape, f, "n_expr %d n_mat %d n_const %d" % (len(exprs), len(Ms), len(Cs)), wit))
        if not ok_shape:
            continue
        # (1) expressions == matrices/constants for all x,y,z  (row convention: R = W.M + C)
        t0 = time.time()
        s = z3.Solver()
        s.set("timeout", 10000)
        disj = []
        bad = None
        try:
            for i, ex3 in enumerate(exprs):
                for comp in range(3):
                    coef, const = parse_expr(ex3[comp])
                    lhs = sum((z3.RealVal(str(coef[v])) * zv[v] for v in "xyz"), z3.RealVal(0)) + z3.RealVal(str(const))
                    rhs = (x * z3.RealVal(str(Ms[i][0][comp])) + y * z3.RealVal(str(Ms[i][1][comp]))
                           + z * z3.RealVal(str(Ms[i][2][comp])) + z3.RealVal(str(Cs[i][comp])))
                    disj.append(lhs != rhs)
                    # exact cross-check
                    if bad is None and (any(coef[v] != Ms[i]["xyz".index(v)][comp] for v in "xyz") or const != Cs[i][comp]):
                        bad = (i, comp, ex3[comp])
        except ValueError as ex:
            obs.append(_ob("wy.parse[%s]" % p, False, f, str(ex), wit))
            continue
        s.add(z3.Or(disj))
        r = s.check()
        dt = time.time() - t0
        z3ok = r == z3.unsat
        if z3ok != (bad is None):
            obs.append(Ob(id="wy.expr=matrix[%s]" % p, status="error", backend="z3+exact", func=f,
                          detail="back ends disagree: z3 %s exact %s" % (r, bad)))
        else:
            det = "" if z3ok else "expression %d component %d (%r) differs from matrix/constant; model %s" % (
                bad[0], bad[1], bad[2], s.model())
            obs.append(_ob("wy.expr=matrix[%s]" % p, z3ok, f, det, dict(wit, expr=bad), backend="z3", t=dt, kind="vc",
                           smt2=s.to_smt2()[:800]))
        # (2) integer matrices
        allint = all(v.denominator == 1 for M in Ms for row in M for v in row)
        obs.append(_ob("wy.integer[%s]" % p, allint, f, "", wit))
        # (3) variables
        def vars_of(M):
            return {v for k, v in enumerate("xyz") if any(c != 0 for c in M[k])}

        v0 = vars_of(Ms[0])
        vall = set().union(*[vars_of(M) for M in Ms])
        okv = set(e["variables"]) == v0 == vall
        obs.append(_ob("wy.variables[%s]" % p, okv, f, "table %s, rep %s, all %s" % (sorted(e["variables"]), sorted(v0), sorted(vall)), wit))
        if L == general_letter:
            obs.append(_ob("wy.general[%s]" % p, v0 == {"x", "y", "z"} and rank(Ms[0]) == 3, f, "last letter must be the general position", wit))
        # (4) closed orbit of the tabulated multiplicity
        A = [key_aff(Ms[i], [Cs[i][k] + t[k] for k in range(3)]) for i in range(len(Ms)) for t in trans]
        B = set()
        for R, t in G:
            Rt = tr(R)
            M = mm(Ms[0], Rt)
            c = [a + b for a, b in zip(vm(Cs[0], Rt), t)]
            B.add(key_aff(M, c))
        SA = set(A)
        ok = (SA == B) and len(A) == len(SA)
        det = ""
        if not ok:
            extra = [a for a in SA if a not in B][:2]
            missing = [b for b in B if b not in SA][:2]
            det = "tabulated maps not in the orbit of expression 0: %s ; orbit maps not tabulated: %s ; duplicates %d" % (
                _fmt_aff(extra), _fmt_aff(missing), len(A) - len(SA))
        obs.append(_ob("wy.orbit[%s]" % p, ok, f, det, wit))
    return obs


def _fmt_aff(lst):
    out = []
    for M, c in lst:
        out.append("M=%s c=%s" % ([[str(v) for v in r] for r in M], [str(v) for v in c]))
    return out


# ---- normalizers ---------------------------------------------------------------------------


def nz_entry(n):
    T = ratm(n["transformation"])
    A = [row[:3] for row in T[:3]]
    t = [T[i][3] for i in range(3)]
    return T, A, t


def is_sohncke(sg):
    return all(det3(R) == 1 for R, t in ref_ops(sg))


def metric_family(cs):
    """Generic metric tensor of the crystal system in spglib's default setting, as a z3 symmetric matrix + constraints."""
    import z3

    g11, g22, g33, g12, g13, g23 = z3.Reals("g11 g22 g33 g12 g13 g23")
    cons = []
    if cs == "triclinic":
        pass
    elif cs == "monoclinic":  # unique axis b
        cons = [g12 == 0, g23 == 0]
    elif cs == "orthorhombic":
        cons = [g12 == 0, g13 == 0, g23 == 0]
    elif cs == "tetragonal":
        cons = [g12 == 0, g13 == 0, g23 == 0, g11 == g22]
    elif cs in ("trigonal", "hexagonal"):  # hexagonal axes
        cons = [g11 == g22, 2 * g12 == -g11, g13 == 0, g23 == 0]
    elif cs == "cubic":
        cons = [g12 == 0, g13 == 0, g23 == 0, g11 == g22, g22 == g33]
    Gm = [[g11, g12, g13], [g12, g22, g23], [g13, g23, g33]]
    return Gm, cons


def normalizer_obligations(sg):
    import z3

    INFO, WY, NZ = load_tables()
    f = "matid/data/symmetry_data.py:CHIRALITY_PRESERVING_EUCLIDEAN_NORMALIZERS"
    obs = []
    entries = NZ.get(sg, [])
    w = WY.get(sg)
    if w is None:
        return obs
    letters = sorted(k for k in w if k != "translations")
    G = ref_ops(sg)
    Gset = {(tuple(tuple(r) for r in R), mod1(t)) for R, t in G}
    sohncke = is_sohncke(sg)
    cs = crystal_system_of(sg)
    trans = [[F0, F0, F0]] + [ratv(t) for t in w["translations"]]
    pos = {}
    for L in letters:
        try:
            pos[L] = wy_position_data(w, L)
        except ValueError:
            pos[L] = None
    perms = []
    for k, n in enumerate(entries):
        eid = "%d,#%d" % (sg, k)
        wit = {"sg": sg, "index": k}
        try:
            T, A, t = nz_entry(n)
        except (ValueError, KeyError, TypeError) as ex:
            obs.append(_ob("nz.rationalise[%s]" % eid, False, f, str(ex), wit))
            continue
        okaff = T[3] == [F0, F0, F0, F1] and det3(A) != 0
        obs.append(_ob("nz.affine[%s]" % eid, okaff, f, "last row %s det %s" % ([str(v) for v in T[3]], det3(A)), wit))
        if not okaff:
            continue
        Ai = inv3(A)
        # normalises: T g T^-1 in G (mod Z^3)
        bad = None
        for R, tg in G:
            R2 = mm(mm(A, R), Ai)
            # translation: A tg + t - R2 t
            t2 = [a + b - c for a, b, c in zip(mv(A, tg), t, mv(R2, t))]
            if (tuple(tuple(r) for r in R2), mod1(t2)) not in Gset:
                bad = (R, tg)
                break
        obs.append(_ob("nz.normalises[%s]" % eid, bad is None, f,
                       "" if bad is None else "T g T^-1 not in G for g = (%s | %s)" % (
                           [[int(v) for v in r] for r in bad[0]], [str(v) for v in bad[1]]), wit))
        # metric of the generic lattice: A^T Gm A == Gm for all admissible Gm (z3, symbolic metric)
        t0 = time.time()
        Gm, cons = metric_family(cs)
        Az = [[z3.RealVal(str(v)) for v in row] for row in A]
        AtGA = [[z3.Sum([Az[k1][i] * Gm[k1][k2] * Az[k2][j] for k1 in range(3) for k2 in range(3)]) for j in range(3)]
                for i in range(3)]
        s = z3.Solver()
        s.set("timeout", 10000)
        s.add(cons)
        s.add(z3.Or([AtGA[i][j] != Gm[i][j] for i in range(3) for j in range(3)]))
        r = s.check()
        st = "proved" if r == z3.unsat else ("refuted" if r == z3.sat else "unknown")
        obs.append(Ob(id="nz.metric[%s]" % eid, status=st, backend="z3", time_s=time.time() - t0, func=f,
                      detail="" if r != z3.sat else "metric %s not preserved" % s.model(), witness=wit,
                      smt2=s.to_smt2()[:800]))
        # handedness
        if sohncke:
            d = det3(A)
            obs.append(_ob("nz.handed[%s]" % eid, d == 1, f, "Sohncke group %d, det(A) = %s" % (sg, d), wit))
        # permutation well-formedness
        perm = n.get("permutations", {})
        okp = sorted(perm.keys()) == letters and sorted(perm.values()) == letters
        obs.append(_ob("nz.perm-wf[%s]" % eid, okp, f, "keys %s values %s letters %s" % (
            sorted(perm.keys()), sorted(perm.values()), letters), wit))
        if okp:
            perms.append(tuple(perm[L] for L in letters))
            # letter by letter: T maps position L onto position perm[L]
            for L in letters:
                if pos[L] is None or pos[perm[L]] is None:
                    continue
                obs.append(perm_letter_obligation(sg, k, L, perm[L], A, t, pos[L], pos[perm[L]], trans, f))
    # closure of the permutation set (used by C06: ranking is canonical)
    if entries and len(perms) == len(entries):
        ident = tuple(letters)
        S = set(perms) | {ident}
        idx = {L: i for i, L in enumerate(letters)}
        closed = all(tuple(p[idx[q[i]]] for i in range(len(letters))) in S for p in S for q in S)
        obs.append(_ob("nz.closed[%d]" % sg, closed, f, "set of %d letter permutations (with identity) not closed under composition" % len(S) if not closed else "", {"sg": sg}))
    return obs


def perm_letter_obligation(sg, k, L, L2, A, t, src, dst, trans, f):
    """T maps Wyckoff position L onto L2: same parameter space dimension/row space and the image of the
    representative lies in the affine family of some expression of L2 modulo lattice (mixed LRA/LIA, z3)."""
    import z3

    e1, Ms1, Cs1 = src
    e2, Ms2, Cs2 = dst
    At = tr(A)
    Mimg = mm(Ms1[0], At)  # W.M0.A^T
    cimg = [a + b for a, b in zip(vm(Cs1[0], At), t)]
    oid = "nz.perm[%d,#%d,%s]" % (sg, k, L)
    wit = {"sg": sg, "index": k, "letter": L, "to": L2}
    t0 = time.time()
    found = None
    r1 = rank(Mimg)
    for j, (M2, c2) in enumerate(zip(Ms2, Cs2)):
        if rank(M2) != r1 or rank([*Mimg, *M2]) != r1:
            continue
        for tc in trans:
            d = [cimg[i] - c2[i] - tc[i] for i in range(3)]
            # exists w in R^3, n in Z^3: d = w.M2 + n
            w = z3.Reals("w0 w1 w2")
            nn = z3.Ints("n0 n1 n2")
            s = z3.Solver()
            s.set("timeout", 10000)
            for i in range(3):
                s.add(z3.RealVal(str(d[i])) == z3.Sum([w[q] * z3.RealVal(str(M2[q][i])) for q in range(3)]) + z3.ToReal(nn[i]))
            if s.check() == z3.sat:
                found = (j, tc)
                break
        if found:
            break
    return Ob(id=oid, status="proved" if found else "refuted", backend="z3+exact-rank", time_s=time.time() - t0, func=f,
              detail="" if found else "image of %s under normalizer #%d is not position %s (no expression/centring matches)" % (L, k, L2),
              witness=wit, kind="vc")


def primitive_obligations():
    """C12: centring matrices in SymmetryAnalyzer._get_primitive_system (literal evaluated from the AST)."""
    import ast
    import os

    f = "matid/symmetry/symmetryanalyzer.py:SymmetryAnalyzer._get_primitive_system"
    path = os.path.join(REPO, "matid/symmetry/symmetryanalyzer.py")
    tree = ast.parse(open(path).read())
    lit = None
    for node in ast.walk(tree):
        if isinstance(node, ast.FunctionDef) and node.name == "_get_primitive_system":
            for st in ast.walk(node):
                if isinstance(st, ast.Assign) and isinstance(st.targets[0], ast.Name) and st.targets[0].id == "primitive_transformations":
                    lit = st.value
    obs = []
    if lit is None or not isinstance(lit, ast.Dict):
        return [Ob(id="prim.literal", status="error", func=f, detail="primitive_transformations literal not found")], {}

    def ev(n):
        if isinstance(n, ast.Constant) and isinstance(n.value, (int, float)):
            return Fr(n.value) if isinstance(n.value, int) else rat(n.value)
        if isinstance(n, ast.UnaryOp) and isinstance(n.op, ast.USub):
            return -ev(n.operand)
        if isinstance(n, ast.BinOp) and isinstance(n.op, ast.Div):
            return ev(n.left) / ev(n.right)
        if isinstance(n, ast.BinOp) and isinstance(n.op, ast.Mult):
            return ev(n.left) * ev(n.right)
        if isinstance(n, ast.List):
            return [ev(e) for e in n.elts]
        if isinstance(n, ast.Call) and getattr(n.func, "attr", "") == "array":
            return ev(n.args[0])
        raise ValueError("unsupported literal node %s" % ast.dump(n)[:80])

    mats = {}
    for kn, vn in zip(lit.keys, lit.values):
        mats[kn.value] = ev(vn)
    want_det = {"A": Fr(1, 2), "C": Fr(1, 2), "R": Fr(1, 3), "I": Fr(1, 2), "F": Fr(1, 4)}
    for c, d in want_det.items():
        ok = c in mats and det3(mats[c]) == d
        obs.append(_ob("prim.det[%s]" % c, ok, f, "det = %s, expected %s" % (det3(mats[c]) if c in mats else None, d), {"centring": c}))
    return obs, mats


def primitive_lattice_obligation(args):
    sg, mats = args
    INFO, WY, NZ = load_tables()
    f = "matid/symmetry/symmetryanalyzer.py:SymmetryAnalyzer._get_primitive_system"
    cent = ref_type(sg).international_short[0]
    wit = {"sg": sg, "centring": cent}
    if cent == "P":
        return _ob("prim.lattice[%d]" % sg, len(WY[sg]["translations"]) == 0, f, "P group with centring translations", wit)
    if cent not in mats:
        return _ob("prim.lattice[%d]" % sg, False, f, "no transformation for centring %r (KeyError at run time)" % cent, wit)
    P = mats[cent]
    # prim_cell = P^T . conv_cell : rows of prim cell = columns of P as combinations of conventional vectors
    try:
        Pi = inv3(P)
    except ZeroDivisionError:
        return _ob("prim.lattice[%d]" % sg, False, f, "singular", wit)
    okint = all(v.denominator == 1 for row in Pi for v in row)  # Z^3 inside the primitive lattice
    trans = [ratv(t) for t in WY[sg]["translations"]]
    okt = all(all(v.denominator == 1 for v in mv(Pi, t)) for t in trans)  # centring vectors inside the primitive lattice
    k = len(trans) + 1
    okidx = abs(det3(Pi)) == k  # index of Z^3 in the primitive lattice = centring multiplicity => lattice is exactly Z^3 + centrings
    return _ob("prim.lattice[%d]" % sg, okint and okt and okidx, f,
               "P^-1 integer %s, centrings inside %s, index %s vs multiplicity %d" % (okint, okt, abs(det3(Pi)), k), wit)


def chiral_table_obligation(sg):
    INFO, WY, NZ = load_tables()
    f = "matid/data/symmetry_data.py:SPACE_GROUP_INFO"
    pg = INFO[sg]["pointgroup"]
    return _ob("chiral.table[%d]" % sg, (pg in PROPER_POINT_GROUPS) == is_sohncke(sg), f,
               "pointgroup %s, database group proper: %s" % (pg, is_sohncke(sg)), {"sg": sg})


def oracle_sanity(sg):
    """The reference itself: closed under composition modulo Z^3."""
    G = ref_ops(sg)
    Gset = {(tuple(tuple(r) for r in R), mod1(t)) for R, t in G}
    ok = len(Gset) == len(G)
    for R1, t1 in G:
        for R2, t2 in G[: min(len(G), 48)]:
            R = mm(R1, R2)
            t = [a + b for a, b in zip(mv(R1, t2), t1)]
            if (tuple(tuple(r) for r in R), mod1(t)) not in Gset:
                ok = False
    return Ob(id="oracle.closed[%d]" % sg, status="proved" if ok else "error", backend="exact-rational",
              func="spglib.get_symmetry_from_database", kind="cover")


def run_family(fn, items, jobs=None):
    out = pool_map(fn, items, jobs=jobs, chunksize=2)
    flat = []
    for r in out:
        if isinstance(r, list):
            flat.extend(r)
        else:
            flat.append(r)
    return flat


# --------------------------------------------------------------------------------------------
# completeness of the normalizer table (C06): every Euclidean normalizer of the generic metric, on a translation grid,
# is represented by an entry (or the identity) modulo the group and modulo the continuous translations

_SAMPLE_METRIC = {
    "triclinic": [[Fr(2), Fr(3, 10), Fr(1, 2)], [Fr(3, 10), Fr(3), Fr(7, 10)], [Fr(1, 2), Fr(7, 10), Fr(5)]],
    "monoclinic": [[Fr(2), F0, Fr(7, 10)], [F0, Fr(3), F0], [Fr(7, 10), F0, Fr(5)]],
    "orthorhombic": [[Fr(2), F0, F0], [F0, Fr(3), F0], [F0, F0, Fr(5)]],
    "tetragonal": [[Fr(2), F0, F0], [F0, Fr(2), F0], [F0, F0, Fr(5)]],
    "trigonal": [[Fr(2), Fr(-1), F0], [Fr(-1), Fr(2), F0], [F0, F0, Fr(5)]],
    "hexagonal": [[Fr(2), Fr(-1), F0], [Fr(-1), Fr(2), F0], [F0, F0, Fr(5)]],
    "cubic": [[Fr(2), F0, F0], [F0, Fr(2), F0], [F0, F0, Fr(2)]],
}
_holo_cache = {}
GRID = 24


def holohedry(cs):
    """integer matrices (entries -1,0,1) that preserve a generic metric of the crystal system in the standard setting"""
    import itertools
    import numpy as np

    if cs not in _holo_cache:
        Gm = np.array([[float(v) for v in r] for r in _SAMPLE_METRIC[cs]])
        out = []
        for ent in itertools.product((-1, 0, 1), repeat=9):
            W = np.array(ent, dtype=float).reshape(3, 3)
            if abs(abs(np.linalg.det(W)) - 1) > 1e-9:
                continue
            if np.abs(W.T @ Gm @ W - Gm).max() < 1e-9:
                out.append(np.array(ent, dtype=np.int64).reshape(3, 3))
        _holo_cache[cs] = out
    return _holo_cache[cs]


def normalizer_complete_obligation(sg):
    """nz.complete[sg]: let K be the set of maps x -> W x + w with W in the holohedry of the generic metric, w on the 1/24 grid,
    that map the reference group (spglib Hall database) onto itself (and det W = +1 for Sohncke groups). Every element of K must lie in
    E.G.F for the identity or a table entry E, where F are the translations along the directions fixed by the whole point group
    (continuous part of the normalizer)."""
    import numpy as np

    t0 = time.time()
    f = "matid/data/symmetry_data.py:CHIRALITY_PRESERVING_EUCLIDEAN_NORMALIZERS"
    INFO, WY, NZ = load_tables()
    G = ref_ops(sg)
    cs = crystal_system_of(sg)
    sohncke = is_sohncke(sg)
    Rg = np.array([[[int(v) for v in r] for r in R] for R, t in G], dtype=np.int64)
    tg = np.array([[int(v * GRID) for v in t] for R, t in G], dtype=np.int64)  # Hall database translations are multiples of 1/12
    if any((v * GRID).denominator != 1 for R, t in G for v in t):
        return _ob("nz.complete[%d]" % sg, False, f, "reference translations not on the 1/%d grid" % GRID, {"sg": sg}, kind="vc")
    # directions fixed by every rotation (coordinate aligned in the standard settings)
    fixed = [k for k in range(3) if all((Rg[i][:, k] == np.eye(3, dtype=np.int64)[:, k]).all() and (Rg[i][k, :] == np.eye(3, dtype=np.int64)[k, :]).all()
                                        for i in range(len(G)))]
    # is the fixed space exactly spanned by these axes?  rank(R - I stacked) must be 3 - len(fixed)
    stack = [[Fr(int(v)) for v in row] for i in range(len(G)) for row in (Rg[i] - np.eye(3, dtype=np.int64))]
    if rank(stack) != 3 - len(fixed):
        return Ob(id="nz.complete[%d]" % sg, status="unknown", backend="exact-integer", func=f, detail="fixed space of the point group is not coordinate aligned", witness={"sg": sg})
    free = [k for k in range(3) if k not in fixed]
    rot_index = {}
    for i in range(len(G)):
        rot_index.setdefault(Rg[i].tobytes(), []).append(i)
    # grid of translations (0 along the continuous directions)
    axes = [np.arange(GRID) if k in free else np.array([0]) for k in range(3)]
    Wg = np.stack(np.meshgrid(*axes, indexing="ij"), axis=-1).reshape(-1, 3).astype(np.int64)  # (M,3) in units of 1/GRID
    entries = [(np.eye(3, dtype=np.int64), np.zeros(3, dtype=np.int64), "identity")]
    for k, n in enumerate(NZ.get(sg, [])):
        try:
            T, A, t = nz_entry(n)
            if any(v.denominator != 1 for row in A for v in row) or any((v * GRID).denominator != 1 for v in t):
                continue  # not on the grid: cannot represent grid candidates exactly; other obligations look at it
            entries.append((np.array([[int(v) for v in row] for row in A], dtype=np.int64), np.array([int(v * GRID) for v in t], dtype=np.int64), "#%d" % k))
        except Exception:
            continue
    missing = []
    ncand = 0
    for W in holohedry(cs):
        d = int(round(np.linalg.det(W)))
        if sohncke and d != 1:
            continue
        Wi = np.rint(np.linalg.inv(W)).astype(np.int64)
        ok = np.ones(len(Wg), dtype=bool)
        feasible = True
        for i in range(len(G)):
            R2 = W @ Rg[i] @ Wi
            js = rot_index.get(R2.tobytes())
            if not js:
                feasible = False
                break
            # W tg + w - R2 w  ==  t_j (mod 1) for one of the operations j with rotation R2
            lhs = (W @ tg[i])[None, :] + Wg - Wg @ R2.T
            hit = np.zeros(len(Wg), dtype=bool)
            for j in js:
                hit |= (((lhs - tg[j][None, :]) % GRID) == 0).all(axis=1)
            ok &= hit
            if not ok.any():
                feasible = False
                break
        if not feasible:
            continue
        cand = Wg[ok]
        ncand += len(cand)
        # representation: exists entry (A,t), g: A^-1 W == R_g and A^-1 (w - t) - t_g in F + Z^3
        rep_ok = np.zeros(len(cand), dtype=bool)
        for A, t, name in entries:
            Ai = np.rint(np.linalg.inv(A)).astype(np.int64)
            js = rot_index.get((Ai @ W).tobytes())
            if not js:
                continue
            delta = (cand - t[None, :]) @ Ai.T
            for j in js:
                dd = (delta - tg[j][None, :]) % GRID
                rep_ok |= (dd[:, free] == 0).all(axis=1) if free else np.ones(len(cand), dtype=bool)
        if not rep_ok.all():
            w_bad = cand[~rep_ok][0]
            missing.append(([[int(v) for v in r] for r in W], ["%d/%d" % (int(v), GRID) for v in w_bad], int((~rep_ok).sum())))
    ok_all = not missing
    det = "" if ok_all else "normalizer x -> W x + w with W=%s w=%s maps the group onto itself but is not in E.G.F for any table entry E (%d such maps on the grid, %d rotation parts)" % (
        missing[0][0], missing[0][1], sum(m[2] for m in missing), len(missing))
    o = _ob("nz.complete[%d]" % sg, ok_all, f, det, {"sg": sg, "missing": missing[:3]}, backend="exact-integer", t=time.time() - t0, kind="vc")
    o.smt2 = "candidates on the grid: %d" % ncand
    return o
