"""Shared plumbing: repo location, obligation records, solver back ends, evidence, known findings.

Exit codes (see DESIGN.md 2.1): 0 held, 1 violation (refuted obligation, replay attached), 2 undecided, 3 checker crash.
"""
from __future__ import annotations

import hashlib
import json
import os
import subprocess
import sys
import tempfile
import time
import traceback
from dataclasses import dataclass, field, asdict
from typing import Any, Callable, Optional

VERIF = os.path.dirname(os.path.dirname(os.path.abspath(__file__)))
REPO = os.environ.get("VERIF_REPO", "/repo")
# evidence of runs against a scratch copy (self-tests with VERIF_REPO) must not overwrite the evidence of /repo
EVID = os.path.join(VERIF, "evidence") if "VERIF_REPO" not in os.environ else "/dev/shm/verif-selftest-evidence"
REPLAYS = os.path.join(VERIF, "replays")
KNOWN = os.path.join(VERIF, "known_findings.json")
NCPU = int(os.environ.get("VERIF_JOBS", "16"))


def tier() -> str:
    return os.environ.get("VERIF_TIER", "quick")


def seed() -> int:
    try:
        return int(os.environ.get("VERIF_SEED", "0"))
    except ValueError:
        return 0


def use_repo_on_path():
    """Make `import matid` resolve to the tree under verification (REPO), not to an installed copy."""
    if REPO in sys.path:
        sys.path.remove(REPO)
    sys.path.insert(0, REPO)
    for m in [k for k in sys.modules if k == "matid" or k.startswith("matid.")]:
        del sys.modules[m]


# --------------------------------------------------------------------------------------------
@dataclass
class Ob:
    """One proof obligation and its verdict."""

    id: str
    status: str = "unknown"  # proved | refuted | unknown | error
    backend: str = ""
    time_s: float = 0.0
    detail: str = ""  # counter-model, solver reason
    witness: Any = None  # machine readable witness for replay (json-able)
    func: str = ""  # function under contract this obligation belongs to
    kind: str = "vc"  # vc | exact | cover | canary | bounded
    smt2: str = ""  # (head of) the query

    def short(self):
        return {"id": self.id, "status": self.status, "backend": self.backend, "time_s": round(self.time_s, 4)}


@dataclass
class Report:
    property_id: str
    obligations: list = field(default_factory=list)
    functions: list = field(default_factory=list)  # dicts name,file,lines,sha256
    assumptions: list = field(default_factory=list)
    trusted_base: list = field(default_factory=list)
    bounded: list = field(default_factory=list)  # dicts
    unproved_conjuncts: list = field(default_factory=list)
    vacuity: dict = field(default_factory=dict)
    notes: list = field(default_factory=list)
    extra: dict = field(default_factory=dict)

    def add(self, ob: Ob):
        self.obligations.append(ob)
        return ob


# --------------------------------------------------------------------------------------------
# solver back ends

def z3_check(solver_or_fmls, timeout_ms=10000):
    """Check satisfiability of a list of z3 formulas (or a prepared Solver). Returns (res, model|None, seconds, smt2)."""
    import z3

    if isinstance(solver_or_fmls, z3.Solver):
        s = solver_or_fmls
    else:
        s = z3.Solver()
        for f in solver_or_fmls:
            s.add(f)
    s.set("timeout", int(timeout_ms))
    t0 = time.time()
    r = s.check()
    dt = time.time() - t0
    m = s.model() if r == z3.sat else None
    return str(r), m, dt, s


def cvc5_check_smt2(smt2: str, timeout_s=20, logic=None):
    """Run /usr/bin/cvc5 on an SMT-LIB text; returns 'sat'|'unsat'|'unknown'."""
    with tempfile.NamedTemporaryFile("w", suffix=".smt2", delete=False, dir="/dev/shm") as f:
        f.write(smt2)
        if "(check-sat)" not in smt2:
            f.write("\n(check-sat)\n")
        path = f.name
    try:
        out = subprocess.run(
            ["/usr/bin/cvc5", "--tlimit=%d" % int(timeout_s * 1000), path],
            capture_output=True, text=True, timeout=timeout_s + 5,
        )
        o = out.stdout.strip().splitlines()
        return o[0].strip() if o else "unknown"
    except Exception:
        return "unknown"
    finally:
        try:
            os.unlink(path)
        except OSError:
            pass


def prove(ob_id, hyps, goal, func="", timeout_ms=None, witness_vars=None, nl=False) -> Ob:
    """Validity of hyps => goal. proved iff hyps & not goal is unsat (z3, then cvc5 on unknown)."""
    import z3

    if timeout_ms is None:
        timeout_ms = 10000 if tier() == "quick" else 60000
    s = z3.Solver()
    for h in hyps:
        s.add(h)
    s.add(z3.Not(goal))
    res, m, dt, _ = z3_check(s, timeout_ms)
    ob = Ob(id=ob_id, func=func, backend="z3", time_s=dt)
    try:
        ob.smt2 = s.to_smt2()[:1500]
    except Exception:
        ob.smt2 = ""
    if res == "unsat":
        ob.status = "proved"
    elif res == "sat":
        ob.status = "refuted"
        ob.detail = model_str(m)
        ob.witness = model_json(m)
    else:
        # second opinion
        full = s.to_smt2()
        r2 = cvc5_check_smt2(full, timeout_s=max(10, timeout_ms // 1000))
        ob.backend = "z3+cvc5"
        if r2 == "unsat":
            ob.status = "proved"
            ob.backend = "cvc5"
        elif r2 == "sat":
            ob.status = "refuted"
            ob.detail = "cvc5: sat (z3 unknown); no model extracted"
        else:
            ob.status = "unknown"
            ob.detail = "z3: %s, cvc5: %s" % (s.reason_unknown(), r2)
    return ob


def sat_cover(ob_id, fmls, func="", timeout_ms=5000) -> Ob:
    """Vacuity guard: the formulas must be satisfiable."""
    res, m, dt, s = z3_check(list(fmls), timeout_ms)
    ob = Ob(id=ob_id, func=func, backend="z3", time_s=dt, kind="cover")
    ob.status = "proved" if res == "sat" else ("refuted" if res == "unsat" else "unknown")
    if res == "unsat":
        ob.detail = "precondition/path unsatisfiable: vacuous"
    return ob


def model_str(m, limit=60):
    if m is None:
        return ""
    out = []
    for d in m.decls()[:limit]:
        try:
            out.append("%s = %s" % (d.name(), m[d]))
        except Exception:
            pass
    return "; ".join(sorted(out))[:4000]


def model_json(m, limit=200):
    if m is None:
        return None
    out = {}
    for d in m.decls()[:limit]:
        try:
            if d.arity() == 0:
                out[d.name()] = str(m[d])
        except Exception:
            pass
    return out


# --------------------------------------------------------------------------------------------
# source extraction helpers

def func_source_info(relpath, qualname):
    """(file, first line, last line, sha256 of text) of a function/class-method in the tree under verification."""
    import ast

    path = os.path.join(REPO, relpath)
    src = open(path).read()
    tree = ast.parse(src)
    node = find_def(tree, qualname)
    if node is None:
        raise LookupError("%s not found in %s" % (qualname, relpath))
    seg = "\n".join(src.splitlines()[node.lineno - 1 : node.end_lineno])
    return {
        "name": "%s:%s" % (relpath, qualname),
        "file": relpath,
        "lines": [node.lineno, node.end_lineno],
        "sha256": hashlib.sha256(seg.encode()).hexdigest()[:16],
    }


def find_def(tree, qualname):
    import ast

    parts = qualname.split(".")
    body = tree.body
    node = None
    for p in parts:
        node = None
        for n in body:
            if isinstance(n, (ast.FunctionDef, ast.ClassDef)) and n.name == p:
                node = n
                break
        if node is None:
            # nested function inside function
            return None
        body = node.body
    return node


# --------------------------------------------------------------------------------------------
# known findings

def load_known():
    if not os.path.exists(KNOWN):
        return {"findings": [], "fixed": []}
    return json.load(open(KNOWN))


def known_match(property_id, ob: Ob, known):
    for f in known.get("findings", []):
        if f.get("property") == property_id and f.get("obligation") == ob.id:
            return f
    return None


# --------------------------------------------------------------------------------------------
# evidence

def write_evidence(rep: Report, wall_s, violations, known_lines, checker_cmd, samples=None):
    os.makedirs(EVID, exist_ok=True)
    # obligations that are refuted on the unchanged tree and listed as known findings are reported separately: they are not part of what
    # this run claims to have discharged (coverage.obligations == coverage.discharged is the proof-level claim for everything else)
    known = load_known()
    kf_obs = [o for o in rep.obligations if o.kind in ("vc", "exact") and o.status == "refuted" and known_match(rep.property_id, o, known) is not None]
    kf_ids = {id(o) for o in kf_obs}
    obs = [o for o in rep.obligations if o.kind in ("vc", "exact") and id(o) not in kf_ids]
    covers = [o for o in rep.obligations if o.kind in ("cover", "canary")]
    bounded = [o for o in rep.obligations if o.kind == "bounded"]
    n = len(obs)
    disch = sum(1 for o in obs if o.status == "proved")
    by_backend = {}
    for o in obs:
        by_backend[o.backend] = by_backend.get(o.backend, 0) + 1
    times = [o.time_s for o in rep.obligations]
    import random

    rnd = random.Random(seed())
    smp = samples or []
    pick = obs[:]
    rnd.shuffle(pick)
    for o in pick[:6]:
        smp.append({"obligation": o.id, "function": o.func, "status": o.status, "backend": o.backend,
                    "query_head": o.smt2[:600]})
    ev = {
        "property_id": rep.property_id,
        "tier": tier(),
        "seed": seed(),
        "level": "proof",
        "coverage": {
            "obligations": n,
            "discharged": disch,
            "known_findings": len(known_lines),
            "refuted_unlisted": violations,
            "undecided": sum(1 for o in obs if o.status in ("unknown", "error")),
            "checker_cmd": checker_cmd,
            "trusted_base": rep.trusted_base,
            "functions_under_contract": rep.functions,
            "by_backend": by_backend,
            "solver_time_s": {"sum": round(sum(times), 3), "max": round(max(times) if times else 0, 3)},
            "vacuity": {
                "cover_and_canary_checks": len(covers),
                "passed": sum(1 for o in covers if o.status == "proved"),
                **rep.vacuity,
            },
            "bounded_standins": rep.bounded + [
                {"id": o.id, "status": o.status, "detail": o.detail[:300]} for o in bounded
            ],
            "unproved_conjuncts": rep.unproved_conjuncts,
            "samples": smp,
            "exhaustive": bool(rep.extra.get("exhaustive", False)),
            "explanation": rep.extra.get("explanation", ""),
            **{k: v for k, v in rep.extra.items() if k not in ("exhaustive", "explanation")},
        },
        "assumptions": rep.assumptions,
        "wall_s": round(wall_s, 2),
        "violations": violations,
    }
    if known_lines:
        ev["coverage"]["known_finding_lines"] = known_lines[:200]
    if kf_obs:
        ev["coverage"]["known_finding_obligations"] = [{"obligation": o.id, "function": o.func, "status": o.status, "backend": o.backend, "counter_model": o.detail[:300]} for o in kf_obs]
        ev["coverage"]["explanation"] = (ev["coverage"].get("explanation") or "") + " %d further obligation(s) are refuted on the unchanged tree and listed in known_findings.json (reported as KNOWN-FINDING, not counted in obligations/discharged)." % len(kf_obs)
    path = os.path.join(EVID, "%s.json" % rep.property_id)
    with open(path, "w") as f:
        json.dump(ev, f, indent=1, default=str)
    return path


def write_replay(property_id, ob: Ob, native: dict):
    os.makedirs(REPLAYS, exist_ok=True)
    safe = "".join(c if c.isalnum() or c in "._-" else "_" for c in ob.id)[:120]
    path = os.path.join(REPLAYS, "%s__%s.json" % (property_id, safe))
    with open(path, "w") as f:
        json.dump({
            "property": property_id,
            "obligation": ob.id,
            "function": ob.func,
            "status": ob.status,
            "backend": ob.backend,
            "solver_output": ob.detail,
            "witness": ob.witness,
            "query_head": ob.smt2,
            "native_replay": native,
            "repo": REPO,
        }, f, indent=1, default=str)
    return path


def pool_map(fn, items, jobs=None, chunksize=1):
    """multiprocessing map with fork (keeps sys.path / REPO)."""
    import multiprocessing as mp

    jobs = jobs or NCPU
    if len(items) <= 1 or jobs <= 1:
        return [fn(x) for x in items]
    ctx = mp.get_context("fork")
    with ctx.Pool(min(jobs, len(items))) as p:
        return p.map(fn, items, chunksize=chunksize)
