"""Module contexts of the tree under verification with the names their code uses bound to shims."""
from __future__ import annotations

import collections
import math

from .pyvc import ModuleCtx, Obj
from .npshim import NP
from .aseshim import AseModule, SymAtoms
from .errors import Unsupported


class ModNS:
    """namespace object: attribute access resolves into a ModuleCtx (e.g. `matid.geometry.to_cartesian`)"""

    def __init__(self, name, ctx=None, subs=None):
        self._name = name
        self._ctx = ctx
        self._subs = subs or {}

    def _getattr(self, interp, attr):
        if attr in self._subs:
            return self._subs[attr]
        if self._ctx is not None:
            if attr in self._ctx.defs:
                return self._ctx.defs[attr]
            if attr in self._ctx.globals:
                return self._ctx.globals[attr]
        raise Unsupported("%s.%s is not modelled" % (self._name, attr))


class MathShim:
    pi = math.pi

    def __getattr__(self, n):
        return getattr(math, n)


_cache = {}


def geometry_ctx():
    if "geometry" in _cache:
        return _cache["geometry"]
    from ase.data import covalent_radii
    from ase.data.vdw_alvarez import vdw_radii

    g = {"np": NP, "math": MathShim(), "ase": AseModule(), "Atoms": AseModule.Atoms, "defaultdict": collections.defaultdict,
         "covalent_radii": covalent_radii, "vdw_radii": vdw_radii, "CLUSTER_THRESHOLD": None}
    m = ModuleCtx("matid/geometry/geometry.py", g)
    # constant from the real module
    import ast
    import os
    from .common import REPO

    src = open(os.path.join(REPO, "matid/data/constants.py")).read()
    ns = {}
    exec(compile(src, "constants.py", "exec"), ns)
    m.globals["CLUSTER_THRESHOLD"] = ns.get("CLUSTER_THRESHOLD")
    m.constants = ns
    ext = ModNS("matid.ext")
    geo = ModNS("matid.geometry", m)
    m.globals["matid"] = ModNS("matid", None, {"geometry": geo, "ext": ext})
    m.ext = ext
    _cache["geometry"] = m
    return m


def fresh_caches():
    _cache.clear()
