"""Module contexts of the tree under verification with the names their code uses bound to shims."""
from __future__ import annotations

import collections
import math

from .pyvc import ModuleCtx, Obj
from .npshim import NP
from .aseshim import AseModule, SymAtoms
from .errors import Unsupported


class ModNS:
    """namespace object: attribute access resolves into a ModuleCtx (e.g. `matid.geometry.to_cartesian`)"""

    def __init__(self, name, ctx=None, subs=None):
        self._name = name
        self._ctx = ctx
        self._subs = subs or {}

    def _getattr(self, interp, attr):
        if attr in self._subs:
            return self._subs[attr]
        if self._ctx is not None:
            if attr in self._ctx.defs:
                return self._ctx.defs[attr]
            if attr in self._ctx.globals:
                return self._ctx.globals[attr]
        raise Unsupported("%s.%s is not modelled" % (self._name, attr))


class MathShim:
    pi = math.pi

    def __getattr__(self, n):
        return getattr(math, n)


_cache = {}


def geometry_ctx():
    if "geometry" in _cache:
        return _cache["geometry"]
    from ase.data import covalent_radii
    from ase.data.vdw_alvarez import vdw_radii

    g = {"np": NP, "math": MathShim(), "ase": AseModule(), "Atoms": AseModule.Atoms, "defaultdict": collections.defaultdict,
         "covalent_radii": covalent_radii, "vdw_radii": vdw_radii, "CLUSTER_THRESHOLD": None}
    m = ModuleCtx("matid/geometry/geometry.py", g)
    # constant from the real module
    import ast
    import os
    from .common import REPO

    src = open(os.path.join(REPO, "matid/data/constants.py")).read()
    ns = {}
    exec(compile(src, "constants.py", "exec"), ns)
    m.globals["CLUSTER_THRESHOLD"] = ns.get("CLUSTER_THRESHOLD")
    m.constants = ns
    ext = ModNS("matid.ext")
    geo = ModNS("matid.geometry", m)
    m.globals["matid"] = ModNS("matid", None, {"geometry": geo, "ext": ext})
    m.ext = ext
    _cache["geometry"] = m
    return m


def fresh_caches():
    _cache.clear()


def symmetry_ctx(np_shim=None):
    key = "symmetry" if np_shim is None else None
    if key and key in _cache:
        return _cache[key]
    import base64
    import hashlib
    import collections
    import operator
    import os
    import importlib
    from .common import REPO

    sd = importlib.import_module("matid.data.symmetry_data")
    exc = importlib.import_module("matid.utils.exceptions")
    ws = importlib.import_module("matid.symmetry.wyckoffset")
    geo = geometry_ctx()
    ns = {}
    exec(compile(open(os.path.join(REPO, "matid/data/constants.py")).read(), "constants.py", "exec"), ns)
    constants = type("constants", (), {k: v for k, v in ns.items() if k.isupper()})
    g = {"np": np_shim or NP, "hashlib": hashlib, "base64": base64, "defaultdict": collections.defaultdict,
         "OrderedDict": collections.OrderedDict, "attrgetter": operator.attrgetter,
         "CellNormalizationError": exc.CellNormalizationError, "MatIDError": exc.MatIDError,
         "CHIRALITY_PRESERVING_EUCLIDEAN_NORMALIZERS": sd.CHIRALITY_PRESERVING_EUCLIDEAN_NORMALIZERS,
         "SPACE_GROUP_INFO": sd.SPACE_GROUP_INFO, "WYCKOFF_SETS": sd.WYCKOFF_SETS, "constants": constants,
         "WyckoffSet": ws.WyckoffSet, "Atoms": AseModule.Atoms,
         "matid": ModNS("matid", None, {"geometry": ModNS("matid.geometry", geo)})}
    m = ModuleCtx("matid/symmetry/symmetryanalyzer.py", g)
    if key:
        _cache[key] = m
    return m


def make_self(module, clsname, fields=None):
    o = Obj(module.defs[clsname])
    o._f.update(fields or {})
    return o
