"""cxxvc: the C++ sources of matid/ext are parsed by clang (typed JSON AST, through a stub pybind11 header), each
function body is translated *mechanically* into Python statements over the same variables, and that text is then executed
by the pyvc symbolic executor with contracts and loop invariants - so the verified text is derived from the real .cpp on
every run.  What the translation drops / abstracts is listed in DESIGN.md 2.4: pybind11 array views become arrays,
std::vector becomes a list (value semantics are not modelled: the sources never mutate a copy), unordered_map a dict,
double is real (L-FLOAT), (int) casts truncate toward zero, ceil/sqrt are exact."""
from __future__ import annotations

import json
import os
import re
import subprocess

from .common import REPO, VERIF
from .errors import Unsupported

STUB = os.path.join(VERIF, "engine", "cxxstub")
EXT = "matid/ext"


def clang_ast(cppfile, name):
    path = os.path.join(REPO, EXT, cppfile)
    out = subprocess.run(["clang++", "-std=c++11", "-fsyntax-only", "-I" + STUB, "-I" + os.path.join(REPO, EXT), "-Xclang", "-ast-dump=json",
                          "-Xclang", "-ast-dump-filter=" + name, path], capture_output=True, text=True, timeout=120)
    if out.returncode != 0 and not out.stdout:
        raise Unsupported("clang cannot parse %s: %s" % (cppfile, out.stderr[-600:]))
    txt = out.stdout
    dec = json.JSONDecoder()
    pos = 0
    objs = []
    while pos < len(txt):
        while pos < len(txt) and txt[pos].isspace():
            pos += 1
        if pos >= len(txt):
            break
        o, pos = dec.raw_decode(txt, pos)
        objs.append(o)
    return objs


def find_function(cppfile, name, cls=None):
    """the definition (with body) of function `name` (method of `cls`) in cppfile"""
    objs = clang_ast(cppfile, name)
    cands = []
    for o in objs:
        if o.get("kind") in ("FunctionDecl", "CXXMethodDecl", "CXXConstructorDecl") and o.get("name") == name:
            if any(c.get("kind") == "CompoundStmt" for c in o.get("inner", [])):
                if cls is None or (o.get("kind") != "FunctionDecl"):
                    cands.append(o)
    if not cands:
        raise Unsupported("function %s not found in %s (renamed/removed)" % (name, cppfile))
    return cands[-1]


class Tr:
    """one function -> python source"""

    def __init__(self, src_text, is_method=False):
        self.src = src_text
        self.is_method = is_method
        self.lines = []
        self.tmp = 0
        self.refmap = {}

    # -- helpers
    def text(self, n):
        r = n.get("range", {})
        b, e = r.get("begin", {}), r.get("end", {})
        if "offset" in b and "offset" in e:
            return self.src[b["offset"]: e["offset"] + e.get("tokLen", 1)]
        return ""

    def qt(self, n):
        return (n.get("type") or {}).get("qualType", "")

    def inner(self, n):
        return [c for c in n.get("inner", []) if c.get("kind") not in ("FullComment",)]

    # -- expressions
    def e(self, n):
        k = n["kind"]
        ins = self.inner(n)
        if k == "IntegerLiteral":
            return n["value"]
        if k == "FloatingLiteral":
            v = n["value"]
            return repr(float(v))
        if k == "CXXBoolLiteralExpr":
            return "True" if n["value"] else "False"
        if k == "StringLiteral":
            return repr(n.get("value", ""))
        if k == "DeclRefExpr":
            nm = n["referencedDecl"]["name"]
            return self.refmap.get(nm, nm)
        if k == "CXXThisExpr":
            return "self"
        if k in ("ParenExpr",):
            return "(" + self.e(ins[0]) + ")"
        if k in ("ExprWithCleanups", "MaterializeTemporaryExpr", "CXXBindTemporaryExpr", "ConstantExpr", "SubstNonTypeTemplateParmExpr"):
            return self.e(ins[0])
        if k in ("ImplicitCastExpr", "CStyleCastExpr", "CXXFunctionalCastExpr", "CXXStaticCastExpr"):
            ck = n.get("castKind", "")
            x = self.e(ins[-1])
            if ck == "FloatingToIntegral":
                return "cxx_int(%s)" % x
            if ck in ("IntegralToBoolean", "FloatingToBoolean"):
                return "(%s != 0)" % x
            if ck == "IntegralToFloating":
                return "cxx_real(%s)" % x
            if k != "ImplicitCastExpr" and self.qt(n) == "int" and "double" in self.qt(ins[-1]):
                return "cxx_int(%s)" % x
            if ck == "ConstructorConversion":
                return x
            return x
        if k == "UnaryOperator":
            op = n["opcode"]
            x = self.e(ins[0])
            if op == "-":
                return "(-%s)" % x
            if op == "!":
                return "(not %s)" % x
            if op == "+":
                return x
            raise Unsupported("unary %s as expression" % op)
        if k == "BinaryOperator":
            op = n["opcode"]
            a, b = self.e(ins[0]), self.e(ins[1])
            if op == "&&":
                return "(%s and %s)" % (a, b)
            if op == "||":
                return "(%s or %s)" % (a, b)
            if op == "/":
                if self.qt(ins[0]) in ("int", "long", "size_t") and self.qt(ins[1]) in ("int", "long", "size_t"):
                    return "cxx_idiv(%s, %s)" % (a, b)
                return "(%s / %s)" % (a, b)
            if op in ("+", "-", "*", "<", "<=", ">", ">=", "==", "!=", "%"):
                return "(%s %s %s)" % (a, op, b)
            raise Unsupported("binary %s as expression" % op)
        if k == "ConditionalOperator":
            return "(%s if %s else %s)" % (self.e(ins[1]), self.e(ins[0]), self.e(ins[2]))
        if k == "MemberExpr":
            base = self.e(ins[0])
            nm = n["name"]
            if nm in ("first",):
                return "%s[0]" % base
            if nm in ("second",):
                return "%s[1]" % base
            return "%s.%s" % (base, nm)
        if k == "InitListExpr" or k == "CXXStdInitializerListExpr":
            if k == "CXXStdInitializerListExpr":
                return self.e(ins[0])
            t = self.qt(n)
            if t in ("ExtendedSystem", "CellListResult"):
                return "cxx_struct(%r, %s)" % (t, ", ".join(self.e(c) for c in ins))
            return "[" + ", ".join(self.e(c) for c in ins) + "]"
        if k in ("CXXConstructExpr", "CXXTemporaryObjectExpr"):
            t = self.qt(n)
            args = [c for c in ins if c.get("kind") != "CXXDefaultArgExpr"]
            if "unordered_map" in t or t.startswith("std::map") or t.startswith("map<"):
                return "{}"
            if "tuple" in t:
                return "(" + ", ".join(self.e(c) for c in args) + ",)"
            if "array_t" in t:
                if not args:
                    return "cxx_array([])"
                return "cxx_array(%s)" % self.e(args[0])
            if "vector" in t or "initializer_list" in t:
                if len(args) == 1:
                    a0 = args[0]
                    if a0.get("kind") in ("CXXStdInitializerListExpr", "InitListExpr") or "initializer_list" in self.qt(a0):
                        return self.e(a0)
                    if self.qt(a0).replace("const ", "").strip() in ("int", "long", "size_t", "unsigned long", "pybind11::ssize_t", "ssize_t", "std::vector::size_type", "size_type"):
                        return "cxx_vector(%s, None)" % self.e(a0)
                    return self.e(a0)  # copy construction
                if len(args) == 2:
                    return "cxx_vector(%s, %s)" % (self.e(args[0]), self.e(args[1]))
                if not args:
                    return "[]"
            if "unordered_map" in t or "map" in t:
                return "{}"
            if len(args) == 1:
                return self.e(args[0])
            if not args:
                return "cxx_default(%r)" % t
            return "cxx_struct(%r, %s)" % (t, ", ".join(self.e(c) for c in args))
        if k == "CallExpr":
            callee = ins[0]
            args = [self.e(c) for c in ins[1:]]
            nm = self.callee_name(callee)
            if nm == "get":
                m = re.search(r"get\s*<\s*(\d+)\s*>", self.text(n))
                if not m:
                    raise Unsupported("get<> index")
                return "%s[%s]" % (args[0], m.group(1))
            if nm in ("max", "min", "ceil", "sqrt", "floor", "fabs", "abs", "infinity"):
                return "cxx_%s(%s)" % (nm, ", ".join(args))
            return "%s(%s)" % (nm, ", ".join(args))
        if k == "CXXMemberCallExpr":
            me = ins[0]
            args = [self.e(c) for c in ins[1:]]
            if me["kind"] != "MemberExpr":
                raise Unsupported("member call through %s" % me["kind"])
            base = self.e(self.inner(me)[0])
            nm = me["name"]
            if nm == "push_back":
                return "%s.append(%s)" % (base, args[0])
            if nm == "size":
                return "cxx_size(%s)" % base
            if nm in ("unchecked", "mutable_unchecked"):
                return base
            if nm == "shape":
                return "cxx_shape(%s, %s)" % (base, args[0])
            if nm in ("find",):
                return "cxx_find(%s, %s)" % (base, args[0])
            if nm == "end":
                return "cxx_end(%s)" % base
            return "%s.%s(%s)" % (base, nm, ", ".join(args))
        if k == "CXXOperatorCallExpr":
            callee = self.callee_name(ins[0])
            args = ins[1:]
            if callee == "operator[]":
                return "%s[%s]" % (self.e(args[0]), self.e(args[1]))
            if callee == "operator()":
                return "%s[%s]" % (self.e(args[0]), ", ".join(self.e(a) for a in args[1:]))
            if callee in ("operator==", "operator!="):
                a, b = self.e(args[0]), self.e(args[1])
                return "(%s %s %s)" % (a, callee[-2:], b)
            raise Unsupported("operator %s as expression" % callee)
        if k == "CXXDefaultArgExpr":
            raise Unsupported("default argument")
        raise Unsupported("C++ expression kind %s (%s)" % (k, self.text(n)[:60]))

    def callee_name(self, n):
        while n.get("kind") in ("ImplicitCastExpr", "ParenExpr"):
            n = self.inner(n)[0]
        if n.get("kind") == "DeclRefExpr":
            return n["referencedDecl"]["name"]
        if n.get("kind") == "UnresolvedLookupExpr":
            return n.get("name")
        raise Unsupported("callee %s" % n.get("kind"))

    # -- statements
    def emit(self, ind, s):
        self.lines.append("    " * ind + s)

    def assign_target(self, n):
        return self.e(n)

    def stmt(self, n, ind):
        k = n["kind"]
        ins = self.inner(n)
        if k == "CompoundStmt":
            if not ins:
                self.emit(ind, "pass")
            for c in ins:
                self.stmt(c, ind)
            return
        if k == "NullStmt":
            return
        if k == "DeclStmt":
            for d in ins:
                if d["kind"] != "VarDecl":
                    raise Unsupported("declaration %s" % d["kind"])
                init = self.inner(d)
                t = self.qt(d)
                if init:
                    self.emit(ind, "%s = %s" % (d["name"], self.e(init[0])))
                else:
                    self.emit(ind, "%s = cxx_default(%r)" % (d["name"], t))
            return
        if k == "ReturnStmt":
            self.emit(ind, "return %s" % (self.e(ins[0]) if ins else ""))
            return
        if k == "ContinueStmt":
            self.emit(ind, "continue")
            return
        if k == "BreakStmt":
            self.emit(ind, "break")
            return
        if k == "IfStmt":
            cond, then = ins[0], ins[1]
            self.emit(ind, "if %s:" % self.e(cond))
            self.block(then, ind + 1)
            if len(ins) > 2:
                self.emit(ind, "else:")
                self.block(ins[2], ind + 1)
            return
        if k == "ForStmt":
            full = n.get("inner", [])
            init, cond, inc, body = full[0], full[2], full[3], full[4]
            var, lo = self.for_init(init)
            hi = self.for_cond(cond, var)
            self.for_inc(inc, var)
            self.emit(ind, "for %s in cxx_range(%s, %s):" % (var, lo, hi))
            self.block(body, ind + 1)
            return
        if k == "CXXForRangeStmt":
            full = n.get("inner", [])
            # [init?, rangeDecl, beginDecl, endDecl, cond, inc, loopVarDecl, body]
            loopvar = [c for c in full if c.get("kind") == "DeclStmt" and self.inner(c) and self.inner(c)[0].get("name") not in ("__range1", "__begin1", "__end1", "__range2", "__begin2", "__end2", "__range3", "__begin3", "__end3")]
            rng = [c for c in full if c.get("kind") == "DeclStmt" and self.inner(c) and str(self.inner(c)[0].get("name", "")).startswith("__range")]
            body = full[-1]
            vd = self.inner(loopvar[-1])[0]
            seq = self.e(self.inner(self.inner(rng[0])[0])[0])
            vt = self.qt(vd)
            if "&" in vt and "const" not in vt and self.assigns_to(body, vd["name"]):
                self.tmp += 1
                kk = "_k%d" % self.tmp
                self.emit(ind, "for %s in cxx_range(0, cxx_size(%s)):" % (kk, seq))
                old = self.refmap.get(vd["name"])
                self.refmap[vd["name"]] = "%s[%s]" % (seq, kk)
                self.block(body, ind + 1)
                if old is None:
                    self.refmap.pop(vd["name"], None)
                else:
                    self.refmap[vd["name"]] = old
            else:
                self.emit(ind, "for %s in cxx_iter(%s):" % (vd["name"], seq))
                self.block(body, ind + 1)
            return
        if k == "CXXThrowExpr" or (k == "ExprWithCleanups" and ins and ins[0].get("kind") == "CXXThrowExpr"):
            self.emit(ind, "raise ValueError('invalid_argument')")
            return
        # expression statements
        self.expr_stmt(n, ind)

    def assigns_to(self, n, name):
        if n.get("kind") in ("CompoundAssignOperator", "BinaryOperator") and n.get("opcode", "=") in ("=", "+=", "-=", "*=", "/="):
            lhs = self.inner(n)[0]
            while lhs.get("kind") in ("ImplicitCastExpr", "ParenExpr"):
                lhs = self.inner(lhs)[0]
            if lhs.get("kind") == "DeclRefExpr" and lhs["referencedDecl"]["name"] == name:
                return True
        return any(self.assigns_to(c, name) for c in n.get("inner", []) if isinstance(c, dict))

    def block(self, n, ind):
        before = len(self.lines)
        if n["kind"] == "CompoundStmt":
            self.stmt(n, ind)
        else:
            self.stmt(n, ind)
        if len(self.lines) == before:
            self.emit(ind, "pass")

    def for_init(self, n):
        if n.get("kind") == "DeclStmt":
            d = self.inner(n)[0]
            return d["name"], self.e(self.inner(d)[0])
        raise Unsupported("for-init %s" % n.get("kind"))

    def for_cond(self, n, var):
        while n.get("kind") in ("ImplicitCastExpr", "ParenExpr", "ExprWithCleanups"):
            n = self.inner(n)[0]
        if n.get("kind") == "BinaryOperator" and n["opcode"] in ("<", "<="):
            a, b = self.inner(n)
            if self.e(a).strip("()") != var and var not in self.e(a):
                raise Unsupported("for-condition not on the loop variable")
            hi = self.e(b)
            return hi if n["opcode"] == "<" else "(%s + 1)" % hi
        raise Unsupported("for-condition %s" % n.get("kind"))

    def for_inc(self, n, var):
        if n.get("kind") == "UnaryOperator" and n["opcode"] == "++":
            return
        raise Unsupported("for-increment is not ++%s" % var)

    def expr_stmt(self, n, ind):
        k = n["kind"]
        ins = self.inner(n)
        if k in ("ExprWithCleanups", "ImplicitCastExpr", "ParenExpr"):
            return self.expr_stmt(ins[0], ind)
        if k == "BinaryOperator" and n["opcode"] == "=":
            lhs, rhs = ins
            rr = rhs
            while rr.get("kind") in ("ImplicitCastExpr", "ParenExpr"):
                rr = self.inner(rr)[0]
            if rr.get("kind") == "BinaryOperator" and rr.get("opcode") == "=":
                self.expr_stmt(rr, ind)  # a = b = c
                self.emit(ind, "%s = %s" % (self.e(lhs), self.e(self.inner(rr)[0])))
                return
            self.emit(ind, "%s = %s" % (self.e(lhs), self.e(rhs)))
            return
        if k == "CompoundAssignOperator":
            lhs, rhs = ins
            self.emit(ind, "%s %s %s" % (self.e(lhs), n["opcode"], self.e(rhs)))
            return
        if k == "UnaryOperator" and n["opcode"] in ("++", "--"):
            self.emit(ind, "%s %s 1" % (self.e(ins[0]), "+=" if n["opcode"] == "++" else "-="))
            return
        if k == "CXXOperatorCallExpr" and self.callee_name(ins[0]) == "operator=":
            self.emit(ind, "%s = %s" % (self.e(ins[1]), self.e(ins[2])))
            return
        if k in ("CallExpr", "CXXMemberCallExpr"):
            self.emit(ind, self.e(n))
            return
        if k == "CXXThrowExpr":
            self.emit(ind, "raise ValueError('invalid_argument')")
            return
        raise Unsupported("C++ statement kind %s (%s)" % (k, self.text(n)[:60]))


def translate(cppfile, name, cls=None, pyname=None):
    """-> python source of one function (parameters in declaration order; methods get `self` first)"""
    fn = find_function(cppfile, name, cls)
    src = open(os.path.join(REPO, EXT, cppfile)).read()
    is_method = fn.get("kind") in ("CXXMethodDecl", "CXXConstructorDecl")
    tr = Tr(src, is_method)
    params = [c["name"] for c in fn.get("inner", []) if c.get("kind") == "ParmVarDecl"]
    body = [c for c in fn.get("inner", []) if c.get("kind") == "CompoundStmt"][0]
    tr.emit(0, "def %s(%s):" % (pyname or name, ", ".join((["self"] if is_method else []) + params)))
    # constructor initialisers
    for c in fn.get("inner", []):
        if c.get("kind") == "CXXCtorInitializer":
            tgt = c.get("anyInit", {}).get("name")
            val = tr.inner(c)
            if tgt and val:
                tr.emit(1, "self.%s = %s" % (tgt, tr.e(val[0])))
    tr.block(body, 1)
    return "\n".join(tr.lines) + "\n", fn


def translate_all(spec):
    """spec: list of (cppfile, name, cls, pyname) -> module source"""
    parts = []
    info = []
    for cppfile, name, cls, pyname in spec:
        s, fn = translate(cppfile, name, cls, pyname)
        parts.append(s)
        loc = fn.get("range", {})
        info.append({"name": "%s/%s:%s%s" % (EXT, cppfile, (cls + "::") if cls else "", name),
                     "translated_lines": len(s.splitlines())})
    return "\n\n".join(parts), info
