"""Assumed contract A-ASE: ase.Atoms as seen by the interpreted code. State: cell (3x3 object array), pbc (3 bools,
possibly symbolic), positions (row-generic (n,3) array or small object array), numbers, masses. Getters return copies;
set_cell keeps cartesian positions; wrap shifts periodic scaled components by integers into [0,1); repeat is block-wise.
`mutations` records every mutating call so that frame obligations ("input untouched") can inspect it."""
from __future__ import annotations

import numpy as _np
import z3

from .pyvc import SR, SB, cur, is_sym, z3num, z3bool, mkbool
from .errors import Unsupported
from .npshim import NP, obj, det_term
from .larr import RowArr


def sym_cell(prefix):
    c = _np.empty((3, 3), dtype=object)
    for i in range(3):
        for j in range(3):
            c[i, j] = SR(z3.Real("%s%d%d" % (prefix, i, j)))
    return c


def sym_pbc(prefix):
    return _np.array([mkbool(z3.Bool("%s%d" % (prefix, i))) for i in range(3)], dtype=object)


def sym_positions(prefix, n):
    fx = [z3.Function("%s_%s" % (prefix, c), z3.IntSort(), z3.RealSort()) for c in "xyz"]

    def row(i):
        t = z3num(i)
        return _np.array([SR(f(t)) for f in fx], dtype=object)

    return RowArr(n, row, (3,))


def sym_int_rows(name, n, lo=None):
    f = z3.Function(name, z3.IntSort(), z3.IntSort())

    def row(i):
        return SR(f(z3num(i)))

    return RowArr(n, row, ())


def sym_real_rows(name, n):
    f = z3.Function(name, z3.IntSort(), z3.RealSort())

    def row(i):
        return SR(f(z3num(i)))

    return RowArr(n, row, ())


class SymAtoms:
    _symbolic_iter = True

    def __init__(self, n, cell, pbc, positions, numbers, masses=None, name="atoms"):
        self.n = n
        self.cell = cell
        self.pbc = pbc
        self.positions = positions
        self.numbers = numbers
        self.masses = masses
        self.name = name
        self.mutations = []
        self.origin = None  # for copies: the object this was copied from

    # ---- construction (Atoms(cell=..., scaled_positions=..., symbols=..., pbc=...))
    @staticmethod
    def construct(symbols=None, positions=None, numbers=None, cell=None, scaled_positions=None, pbc=None, **kw):
        nums = numbers if numbers is not None else symbols
        if cell is None:
            cell = NP.zeros((3, 3))
        cell = NP.array(cell)
        if pbc is None:
            pbc = _np.array([False, False, False], dtype=object)
        elif isinstance(pbc, (bool, SB)):
            pbc = _np.array([pbc, pbc, pbc], dtype=object)
        else:
            pbc = _np.array(list(pbc), dtype=object)
        if scaled_positions is not None:
            positions = NP.dot(scaled_positions, cell)
        n = positions.shape[0] if positions is not None else 0
        a = SymAtoms(n, cell, pbc, positions, nums, None, name="constructed")
        a.scaled_input = scaled_positions
        return a

    def _len(self):
        return self.n

    def _truth(self):
        return self.n != 0

    # ---- getters (copies)
    def get_positions(self, wrap=False):
        if wrap:
            raise Unsupported("get_positions(wrap=True)")
        return self.positions.copy()

    def get_cell(self):
        return self.cell.copy()

    def get_pbc(self):
        return self.pbc.copy()

    def get_atomic_numbers(self):
        return self.numbers.copy() if hasattr(self.numbers, "copy") else self.numbers

    def get_masses(self):
        if self.masses is None:
            self.masses = sym_real_rows("mass_" + self.name, self.n)
        return self.masses

    def get_scaled_positions(self, wrap=True):
        # A-ASE: solve(cell.T, positions.T).T, periodic components wrapped into [0,1) when wrap=True
        frac = NP.linalg.solve(self.cell.T, self.positions.T).T
        if wrap:
            pbc = self.pbc
            if isinstance(frac, RowArr):
                f = frac.f

                def g(i):
                    r = _np.array(f(i), dtype=object)
                    for k in range(3):
                        if bool(pbc[k]):
                            r[k] = r[k] % 1.0
                    return r

                return RowArr(frac.n, g, (3,))
            for k in range(3):
                if bool(pbc[k]):
                    frac[:, k] = NP.remainder(frac[:, k], 1.0)
        return frac

    def get_volume(self):
        return abs(SR(det_term(self.cell)))

    # ---- mutators
    def set_cell(self, cell, scale_atoms=False):
        if scale_atoms:
            raise Unsupported("set_cell(scale_atoms=True)")
        self.mutations.append("set_cell")
        self.cell = NP.array(cell)

    def set_pbc(self, pbc):
        self.mutations.append("set_pbc")
        if isinstance(pbc, (bool, SB)):
            pbc = [pbc, pbc, pbc]
        self.pbc = _np.array(list(pbc), dtype=object)

    def set_positions(self, p):
        self.mutations.append("set_positions")
        self.positions = p.copy()

    def set_scaled_positions(self, s):
        self.mutations.append("set_scaled_positions")
        self.positions = NP.dot(s, self.cell)

    def translate(self, t):
        self.mutations.append("translate")
        if not hasattr(self, "translations"):
            self.translations = []
        self.translations.append(_np.array(t, dtype=object).copy())
        self.positions = self.positions + NP.array(t)

    def wrap(self, **kw):
        """A-ASE wrap: every periodic scaled component is shifted by an integer into [0,1) (eps ignored: L-FLOAT)."""
        self.mutations.append("wrap")
        self.pbc_at_wrap = [x for x in (kw.get("pbc") if kw.get("pbc") is not None and not isinstance(kw.get("pbc"), (bool, SB)) else self.pbc)] if not isinstance(kw.get("pbc"), (bool, SB)) else [kw.get("pbc")] * 3
        st = cur()
        st.safety("singular-cell-in-wrap", det_term(self.cell) != 0)
        pos, cell, pbc = self.positions, self.cell, self.pbc
        # ase.Atoms.wrap(**wrap_kw): 'pbc' defaults to the structure's own flags; a scalar is broadcast to the three directions
        for k in kw:
            if k not in ("pbc", "eps"):
                raise Unsupported("Atoms.wrap(%s=...)" % k)
        if "pbc" in kw and kw["pbc"] is not None:
            p = kw["pbc"]
            if isinstance(p, (bool, SB)) or (hasattr(p, "shape") and getattr(p, "shape") == ()):
                pbc = [p, p, p]
            else:
                pbc = list(p)
                if len(pbc) != 3:
                    raise Unsupported("Atoms.wrap(pbc=<%d values>)" % len(pbc))
        if not isinstance(pos, RowArr):
            pos = obj(pos)
            new = pos.copy()
            for i in range(pos.shape[0]):
                new[i] = self._wrap_row(pos[i], cell, pbc)
            self.positions = new
            return
        f = pos.f
        wr = self._wrap_row
        self.positions = RowArr(pos.n, lambda i: wr(f(i), cell, pbc), (3,))

    @staticmethod
    def _wrap_row(r, cell, pbc):
        st = cur()
        s = NP.linalg.solve(cell.T, obj(r))
        s2 = _np.array(s, dtype=object)
        for k in range(3):
            pk = pbc[k]
            if pk is True or (not isinstance(pk, SB) and bool(pk)):
                s2[k] = s[k] % 1.0
            elif isinstance(pk, SB):
                kf = st.fresh_int("wrapk")
                st.assume(z3.Implies(z3.Not(pk.t), kf == 0))
                v = z3num(s[k]) - z3.ToReal(kf)
                st.assume(z3.Implies(pk.t, z3.And(v >= 0, v < 1)))
                s2[k] = SR(v)
        return _np.dot(s2, cell)

    def center(self, vacuum=None, axis=(0, 1, 2), about=None):
        self.mutations.append("center")
        n = self.n
        shift = _np.array([SR(cur().fresh_real("center")) for _ in range(3)], dtype=object)
        self.positions = self.positions + shift

    def copy(self):
        c = SymAtoms(self.n, self.cell.copy(), self.pbc.copy(), self.positions.copy(), self.numbers, self.masses, name=self.name + "_copy")
        c.origin = self
        return c

    def repeat(self, rep):
        raise Unsupported("repeat is handled by the caller's contract")

    def _getitem(self, idx):
        h = getattr(idx, "_subsystem_of", None)
        if h is not None:
            return h(self)
        raise Unsupported("Atoms[%r]" % (idx,))

    def _getattr(self, interp, attr):
        return getattr(self, attr)

    def _setattr(self, interp, attr, v):
        self.mutations.append("setattr:" + attr)
        setattr(self, attr, v)


class AseGeometry:
    """ase.geometry subset"""

    @staticmethod
    def complete_cell(cell):
        from .symcoll import Opaque

        st = cur()
        c = _np.empty((3, 3), dtype=object)
        for i in range(3):
            for j in range(3):
                c[i, j] = SR(st.fresh_real("completed"))
        st.assume(det_term(c) != 0)
        cell = obj(cell)
        for i in range(3):
            nz = z3.Or([z3num(cell[i, j]) != 0 for j in range(3)])
            for j in range(3):
                st.assume(z3.Implies(nz, z3num(c[i, j]) == z3num(cell[i, j])))
        return c

    @staticmethod
    def wrap_positions(positions, cell, pbc=True, **kw):
        a = SymAtoms(positions.shape[0], obj(cell), _np.array(list(pbc), dtype=object), positions, None)
        a.wrap()
        return a.positions


class AseModule:
    geometry = AseGeometry()
    Atoms = staticmethod(SymAtoms.construct)
