"""Symbolic collections: ranges with symbolic bounds, opaque results of external functions."""
from __future__ import annotations

import z3

from .pyvc import SR, SB, cur, z3num, z3bool, mkbool
from .errors import Unsupported


class Opaque:
    """result of an external (assumed) function that the contracts never look into"""

    def __init__(self, tag, *args):
        self.tag = tag
        self.args = args

    def __repr__(self):
        return "<Opaque %s>" % self.tag


class SymRange:
    _symbolic_iter = True

    def __init__(self, *a):
        if len(a) == 1:
            self.lo, self.hi = 0, a[0]
        elif len(a) == 2:
            self.lo, self.hi = a
        else:
            raise Unsupported("range with step and symbolic bounds")

    def _len(self):
        lo, hi = z3num(self.lo), z3num(self.hi)
        return SR(z3.If(hi > lo, hi - lo, 0))

    def _contains(self, x):
        return mkbool(z3.And(z3num(x) >= z3num(self.lo), z3num(x) < z3num(self.hi)))
