"""Symbolic collections: ranges with symbolic bounds, opaque results of external functions."""
from __future__ import annotations

import z3

from .pyvc import SR, SB, cur, z3num, z3bool, mkbool
from .errors import Unsupported


class Opaque:
    """result of an external (assumed) function that the contracts never look into"""

    def __init__(self, tag, *args):
        self.tag = tag
        self.args = args

    def __repr__(self):
        return "<Opaque %s>" % self.tag


class SymRange:
    _symbolic_iter = True

    def __init__(self, *a):
        if len(a) == 1:
            self.lo, self.hi = 0, a[0]
        elif len(a) == 2:
            self.lo, self.hi = a
        else:
            raise Unsupported("range with step and symbolic bounds")

    def _len(self):
        lo, hi = z3num(self.lo), z3num(self.hi)
        try:
            if not cur().sat(hi < lo, timeout=1000):
                return SR(z3.simplify(hi - lo))  # the path condition excludes an empty-by-inversion range
        except Exception:
            pass
        return SR(z3.If(hi > lo, hi - lo, 0))

    def _contains(self, x):
        return mkbool(z3.And(z3num(x) >= z3num(self.lo), z3num(x) < z3num(self.hi)))


def _rng_at(self, k):
    return SR(z3num(self.lo) + z3num(k))


SymRange._at = _rng_at


def _rng_tolist(self):
    from .heap import SymSet, SymList, fresh_set

    st = cur()
    s_ = fresh_set(st, "range")
    x = z3.Int("x!rng")
    st.assume(z3.ForAll([x], s_.mem(x) == z3.And(x >= z3num(self.lo), x < z3num(self.hi))))
    return SymList(s_, True, None)


SymRange._tolist = _rng_tolist
SymRange._toset = lambda self: _rng_tolist(self).s


class SymSeq:
    """sequence of symbolic length whose k-th element is given by a closure"""

    _symbolic_iter = True

    def __init__(self, n, at, name="seq"):
        self.n = n
        self.at = at
        self.name = name

    def _len(self):
        return self.n

    def _at(self, k):
        return self.at(k)

    def _getitem(self, idx):
        if isinstance(idx, (int, SR)):
            cur().safety("index", z3.And(z3num(idx) >= 0, z3num(idx) < z3num(self.n)))
            return self.at(idx if isinstance(idx, SR) else SR(z3.IntVal(idx)))
        if isinstance(idx, slice) and idx.step in (None, 1) and all(b is None or (isinstance(b, int) and b >= 0) or isinstance(b, SR) for b in (idx.start, idx.stop)):
            # seq[a:b] with non-negative bounds: elements a .. min(b, n) - 1
            n = z3num(self.n)
            lo = z3num(idx.start) if idx.start is not None else z3.IntVal(0)
            hi = n if idx.stop is None else z3.If(z3num(idx.stop) < n, z3num(idx.stop), n)
            if isinstance(idx.start, SR):
                cur().safety("slice-start-non-negative", lo >= 0)
            if isinstance(idx.stop, SR):
                cur().safety("slice-stop-non-negative", z3num(idx.stop) >= 0)
            at0 = self.at
            return SymSeq(SR(z3.simplify(z3.If(hi > lo, hi - lo, 0))), lambda k: at0(SR(z3.simplify(z3num(k) + lo))), self.name + "[slice]")
        raise Unsupported("index %r of symbolic sequence" % (idx,))

    def _truth(self):
        return mkbool(z3num(self.n) != 0)


class SymEnumerate:
    _symbolic_iter = True

    def __init__(self, base, start=0):
        self.base = base
        self.start = start

    def _len(self):
        return self.base._len()

    def _at(self, k):
        return (SR(z3num(k) + self.start) if not isinstance(k, int) else k + self.start, self.base._at(k))


class SymZip:
    _symbolic_iter = True

    def __init__(self, *bases):
        self.bases = bases

    def _len(self):
        return self.bases[0]._len()  # equal lengths are a precondition stated by the contract

    def _at(self, k):
        return tuple(b._at(k) if hasattr(b, "_at") else b[k] for b in self.bases)


# ---------------------------------------------------------------------------------------------
class LoopSpec:
    """Invariant-based treatment of a loop with a symbolic number of iterations.

    inv(st, env, k, old) -> list of (name, z3 Bool): must hold after k completed iterations (k: SR int term)
    havoc(st, env, old): replace everything the body may modify by fresh symbolic values
    variant(st, env) -> z3 Int term (while loops), must decrease and stay >= 0
    The body is executed once for an arbitrary iteration k under the invariant (obligations loop#n.preserve.*), and the code
    after the loop continues from a havocked state that satisfies the invariant at exit."""

    def __init__(self, inv, havoc, variant=None, name=None, at_exit=None, body_post=None):
        self.name = name
        self.inv = self._guard(inv, "invariant")
        self.havoc = self._guard(havoc, "havoc")
        self.variant = self._guard(variant, "variant")
        self.at_exit = at_exit
        self.body_post = self._guard(body_post, "iteration post-condition")  # body_post(st, env, k, old): extra obligations about one generic iteration

    def _guard(self, fn, what):
        """a sidecar clause that cannot find the program variable / attribute it talks about (renamed local, restructured loop) does not fit
        the code any more: that is 'undecided', never an exception of the program and never a refutation"""
        if fn is None:
            return None
        name = self.name

        def wrapped(*a, **k):
            try:
                return fn(*a, **k)
            except (KeyError, NameError, AttributeError, IndexError, TypeError) as e:
                raise Unsupported("the %s of loop %r does not fit the code any more (%s: %s)" % (what, name, type(e).__name__, e))

        return wrapped

    def _begin_iteration(self, st, env, node):
        """after havoc: remember what must stay unchanged in one iteration unless it was havocked"""
        import ast as _ast
        from .heap import snapshot as _snap

        assigned = set()
        for sub in _ast.walk(_ast.Module(body=list(node.body), type_ignores=[])):
            if isinstance(sub, _ast.Name) and isinstance(sub.ctx, (_ast.Store, _ast.Del)):
                assigned.add(sub.id)
        tgt = node.target if hasattr(node, "target") else None
        if tgt is not None:
            for sub in _ast.walk(tgt):
                if isinstance(sub, _ast.Name):
                    assigned.add(sub.id)
        return {"heap": _snap(st), "havocked": set(st.ghost.get("havocked", set())),
                "vars": {k: (v, [z3.simplify(t) for t in v._state()]) for k, v in env.vars.items() if hasattr(v, "_state")},
                "assigned": assigned}

    def _frame_obligations(self, st, env, lab, rec, pre_env):
        """everything that was not havocked must be unchanged by the body (else the exit path would be unsound)"""
        from .heap import heap as _heap

        h = _heap(st)
        for key, arr in h.items():
            if (key[0], key[1]) in rec["havocked"]:
                continue
            before = rec["heap"].get(key)
            if before is not None and not before.eq(arr):
                st.prove("%s.frame.%s.%s" % (lab, key[0], key[1]), before == arr)
        for k, (obj, before) in rec["vars"].items():
            if k in self._havoc_names:
                continue
            now = [z3.simplify(t) for t in obj._state()]
            for b, n_ in zip(before, now):
                if not b.eq(n_):
                    st.prove("%s.frame.var.%s" % (lab, k), b == n_)
        # plain variables assigned by the body must have been havocked by the spec (or be loop-local)
        for k in rec["assigned"]:
            if k in self._havoc_names:
                continue
            if k in pre_env and k in env.vars and env.vars[k] is not pre_env[k]:
                st.prove("%s.frame.name.%s-assigned-in-body-but-not-havocked" % (lab, k), z3.BoolVal(False))

    def _do_havoc(self, st, env, old):
        st.ghost["havocked"] = set()
        before = dict(env.vars)
        states = {k: [t for t in v._state()] for k, v in env.vars.items() if hasattr(v, "_state")}
        self.havoc(st, env, old)
        changed = {k for k, b in states.items() if k in env.vars and hasattr(env.vars[k], "_state")
                   and any(not x.eq(y) for x, y in zip(b, env.vars[k]._state()))}
        self.extra_havoc_names = changed
        names = set()
        for k in set(before) | set(env.vars):
            if k not in env.vars or k not in before or env.vars[k] is not before[k]:
                names.add(k)
        for k, v in env.vars.items():
            if hasattr(v, "_state") and k in before and before[k] is v:
                pass
        self._havoc_names = names | getattr(self, "extra_havoc_names", set())
        return dict(env.vars)

    def _label(self, lid):
        return self.name or ("%s.loop#%d" % (lid[0].split(".")[-1], lid[1]))

    def run_for(self, interp, node, it, env, module, lid):
        from .pyvc import PathKilled, BreakSig, ContinueSig, Env

        st = interp.st
        lab = self._label(lid)
        if hasattr(it, "_setdom"):
            return self.run_for_set(interp, node, it, env, module, lid)
        if not hasattr(it, "_at"):
            raise Unsupported("%s: iterable %r has no symbolic sequence protocol" % (lab, type(it)))
        n = it._len()
        old = dict(env.vars)
        from .heap import snapshot as _snap
        old["__heap__"] = _snap(st)
        for nm, f in self.inv(st, env, SR(z3.IntVal(0)), old):
            st.prove("%s.init.%s" % (lab, nm), f)
        choose = st.fresh("loopbody", "bool")
        if st.fork(choose):
            # arbitrary iteration
            pre_env = self._do_havoc(st, env, old)
            rec = self._begin_iteration(st, env, node)
            k = SR(st.fresh_int("iter"))
            st.assume(z3.And(k.t >= 0, k.t < z3num(n)))
            for nm, f in self.inv(st, env, k, old):
                st.assume(f)
            interp.assign(node.target, it._at(k), env, module)
            try:
                interp.exec_block(node.body, env, module)
            except ContinueSig:
                pass
            except BreakSig:
                if self.at_exit is not None:
                    for nm, f in self.at_exit(st, env, k, old, True):
                        st.prove("%s.break.%s" % (lab, nm), f)
                    raise PathKilled()
                return  # continue after the loop with the state at the break
            for nm, f in self.inv(st, env, SR(k.t + 1), old):
                st.prove("%s.preserve.%s" % (lab, nm), f)
            if self.body_post is not None:
                for nm, f in self.body_post(st, env, k, old):
                    st.prove("%s.iteration.%s" % (lab, nm), f)
            self._frame_obligations(st, env, lab, rec, pre_env)
            raise PathKilled()
        else:
            self._do_havoc(st, env, old)
            for nm, f in self.inv(st, env, n if isinstance(n, SR) else SR(z3.IntVal(n)), old):
                st.assume(f)
            if self.at_exit is not None:
                for nm, f in self.at_exit(st, env, n, old, False):
                    st.assume(f)
            interp.exec_block(node.orelse, env, module)

    def run_for_set(self, interp, node, it, env, module, lid):
        """iteration over a set / dict in an order that is not assumed: ghost set `done` of the elements already visited;
        inv(st, env, done, old) with done a SymSet."""
        from .pyvc import PathKilled, BreakSig, ContinueSig
        from .heap import SymSet, fresh_set, empty_set

        st = interp.st
        lab = self._label(lid)
        dom = it._setdom()
        old = dict(env.vars)
        from .heap import snapshot as _snap
        old["__heap__"] = _snap(st)
        for nm, f in self.inv(st, env, SymSet(empty_set()), old):
            st.prove("%s.init.%s" % (lab, nm), f)
        choose = st.fresh("loopbody", "bool")
        if st.fork(choose):
            pre_env = self._do_havoc(st, env, old)
            rec = self._begin_iteration(st, env, node)
            done = fresh_set(st, "done")
            x = st.fresh_int("elem")
            st.assume(done.subset_of(dom))
            st.assume(z3.And(dom.mem(x), z3.Not(done.mem(x))))
            for nm, f in self.inv(st, env, done, old):
                st.assume(f)
            interp.assign(node.target, it._elem(SR(x)), env, module)
            try:
                interp.exec_block(node.body, env, module)
            except ContinueSig:
                pass
            except BreakSig:
                return
            done2 = SymSet(z3.Store(done.arr, x, z3.BoolVal(True)))
            for nm, f in self.inv(st, env, done2, old):
                st.prove("%s.preserve.%s" % (lab, nm), f)
            if self.body_post is not None:
                for nm, f in self.body_post(st, env, SR(x), old):
                    st.prove("%s.iteration.%s" % (lab, nm), f)
            self._frame_obligations(st, env, lab, rec, pre_env)
            raise PathKilled()
        else:
            self._do_havoc(st, env, old)
            for nm, f in self.inv(st, env, dom, old):
                st.assume(f)
            interp.exec_block(node.orelse, env, module)

    def run_while(self, interp, node, env, module, lid):
        from .pyvc import PathKilled, BreakSig, ContinueSig

        st = interp.st
        lab = self._label(lid)
        old = dict(env.vars)
        from .heap import snapshot as _snap
        old["__heap__"] = _snap(st)
        for nm, f in self.inv(st, env, None, old):
            st.prove("%s.init.%s" % (lab, nm), f)
        choose = st.fresh("loopbody", "bool")
        if st.fork(choose):
            pre_env = self._do_havoc(st, env, old)
            rec = self._begin_iteration(st, env, node)
            for nm, f in self.inv(st, env, None, old):
                st.assume(f)
            if not interp.truth(interp.eval(node.test, env, module)):
                raise PathKilled()
            v0 = self.variant(st, env) if self.variant else None
            try:
                interp.exec_block(node.body, env, module)
            except ContinueSig:
                pass
            except BreakSig:
                return
            for nm, f in self.inv(st, env, None, old):
                st.prove("%s.preserve.%s" % (lab, nm), f)
            if v0 is not None:
                v1 = self.variant(st, env)
                st.prove("%s.variant.decreases" % lab, z3.And(v0 >= 0, v1 < v0))
            self._frame_obligations(st, env, lab, rec, pre_env)
            raise PathKilled()
        else:
            self._do_havoc(st, env, old)
            for nm, f in self.inv(st, env, None, old):
                st.assume(f)
            if interp.truth(interp.eval(node.test, env, module)):
                raise PathKilled()
            interp.exec_block(node.orelse, env, module)


class LazyComp:
    """[elt for target in seq] over a symbolic sequence: element k is evaluated on demand"""

    _symbolic_iter = True

    def __init__(self, interp, elt, target, seq, env, module):
        self.interp, self.elt, self.target, self.seq, self.env, self.module = interp, elt, target, seq, env, module

    def _len(self):
        return self.seq._len()

    def _at(self, k):
        from .pyvc import Env
        e2 = Env(self.env)
        self.interp.assign(self.target, self.seq._at(k), e2, self.module)
        return self.interp.eval(self.elt, e2, self.module)

    def _sorted(self, key, reverse):
        return SortedLazy(self, key, reverse)


class SortedLazy:
    """sorted(lazy sequence, key, reverse): a permutation of it; element 0 is extremal w.r.t. the key (A-CPY: sorted is a total order)"""

    def __init__(self, base, key, reverse):
        self.base, self.key, self.reverse = base, key, reverse

    def _len(self):
        return self.base._len()

    def _getitem(self, idx):
        if not (isinstance(idx, int) and idx == 0):
            raise Unsupported("only the first element of a sorted symbolic sequence is modelled")
        st = cur()
        memo = st.ghost.setdefault("sorted_first", {})
        if id(self) not in memo:
            n = self.base._len()
            p = st.fresh_int("argbest")
            st.safety("sorted-empty-index", z3num(n) > 0)
            st.assume(z3.And(p >= 0, p < z3num(n)))
            memo[id(self)] = (self, self.base._at(SR(p)))
        return memo[id(self)][1]


def local_named(env, expected, pred, exclude=()):
    """the local variable a sidecar clause talks about: the expected name if the code still uses it, otherwise the only local that has
    the expected kind of value (a pure renaming); anything else: the clause does not fit the code (undecided)"""
    if expected in env.vars:
        return expected
    cand = [k for k, v in env.vars.items() if k not in exclude and pred(v)]
    if len(cand) != 1:
        raise Unsupported("local %r not found and %d candidates %s" % (expected, len(cand), cand))
    return cand[0]
