"""check dispatcher: runs the obligations of one property, triages refutations, writes evidence, sets exit code."""
import argparse
import importlib
import json
import os
import sys
import time
import traceback

HERE = os.path.dirname(os.path.abspath(__file__))
VERIF = os.path.dirname(HERE)
sys.path.insert(0, VERIF)


def main():
    ap = argparse.ArgumentParser()
    ap.add_argument("prop")
    ap.add_argument("--tier", default=None)
    ap.add_argument("--replay", default=None)
    a = ap.parse_args()
    if a.tier:
        os.environ["VERIF_TIER"] = a.tier
    os.environ.setdefault("VERIF_TIER", "quick")
    from engine import common

    common.use_repo_on_path()
    pid = a.prop
    t0 = time.time()
    try:
        mod = importlib.import_module("props.%s" % pid)
    except ModuleNotFoundError as e:
        print("no check for property %s (%s)" % (pid, e), file=sys.stderr)
        sys.exit(3)

    if a.replay:
        rp = json.load(open(a.replay))
        try:
            res = mod.replay_file(rp)
        except Exception:
            traceback.print_exc()
            sys.exit(3)
        print(json.dumps(res, indent=1, default=str))
        sys.exit(1 if res.get("reproduced") else 0)

    try:
        rep = mod.run()
        try:
            from engine.pyvc import executed_functions
            for f in executed_functions():
                if not any(g.get("name") == f["name"] for g in rep.functions):
                    rep.functions.append(f)
        except Exception:
            pass
    except common_undecided() as e:  # engine could not handle the source (left the supported subset)
        print("UNDECIDED property=%s reason=%s" % (pid, e))
        traceback.print_exc()
        sys.exit(2)
    except Exception:
        traceback.print_exc()
        print("CHECKER-CRASH property=%s" % pid)
        sys.exit(3)

    # thorough tier: run-time audit of the contracts on the real code of this tree (native small-scope families of the replay
    # procedures). A firing audit on a tree whose obligations are all discharged = contract error or defect: reported, never ignored.
    if os.environ["VERIF_TIER"] == "thorough" and hasattr(mod, "replay"):
        t1 = time.time()
        aud = safe_replay(mod, common.Ob(id="audit", witness=None), timeout=1800)
        ok = not (aud and aud.get("reproduced"))
        rep.add(common.Ob(id="audit.native-contract-audit", status="proved" if ok else "refuted", backend="native-execution", kind="bounded",
                          time_s=time.time() - t1, detail=json.dumps(aud, default=str)[:1500], witness=None))
        rep.bounded.append({"id": "B-AUDIT", "what": "the property-level contracts evaluated natively on the fixed input families of the replay procedure", "result": "passed" if ok else "failed"})

    # thorough tier: kill matrix over the committed seeded changes of this property (each applied to a scratch copy of the tree under
    # /dev/shm, checked with the quick tier, removed). A surviving seed is reported as a weakness of the check, it does not fail the run.
    if os.environ["VERIF_TIER"] == "thorough" and "VERIF_REPO" not in os.environ:
        rep.extra["seeded_faults"] = seeded_kill_matrix(pid)

    known = common.load_known()
    violations = []
    known_lines = []
    undecided = []
    n_real = 0
    for ob in rep.obligations:
        if ob.kind in ("vc", "exact", "bounded"):
            n_real += 1
        if ob.status == "refuted":
            kf = common.known_match(pid, ob, known)
            if kf is not None:
                line = "KNOWN-FINDING: property=%s %s: %s" % (pid, ob.id, kf.get("what", ""))
                known_lines.append(line)
            else:
                violations.append(ob)
        elif ob.status in ("unknown", "error"):
            undecided.append(ob)

    for line in known_lines:
        print(line)

    # An undecided obligation is never reported as a violation by itself. If the native replay of its contract finds a
    # failing input on the real code, the violation is demonstrated and is reported (with that input).
    still_undecided = []
    replay_cache = {}
    for ob in undecided[:12]:
        if not hasattr(mod, "replay") or ob.kind in ("cover", "canary"):
            still_undecided.append(ob)
            continue
        key = mod.replay_key(ob) if hasattr(mod, "replay_key") else ob.id
        if key not in replay_cache:
            replay_cache[key] = safe_replay(mod, ob)
        native = replay_cache[key]
        if native and native.get("reproduced"):
            ob.detail = "undecided by the solver (%s); native replay of the contract found a failing input" % ob.detail[:200]
            ob._native = native
            violations.append(ob)
        else:
            still_undecided.append(ob)
    still_undecided.extend(undecided[12:])
    undecided = still_undecided

    vio_lines = []
    for ob in violations[:25]:
        native = {"reproduced": False, "note": "no replay procedure"}
        if getattr(ob, "_native", None) is not None:
            native = ob._native
        elif hasattr(mod, "replay"):
            key = mod.replay_key(ob) if hasattr(mod, "replay_key") else ob.id
            if key not in replay_cache:
                replay_cache[key] = safe_replay(mod, ob)
            native = replay_cache[key] or native
        path = common.write_replay(pid, ob, native)
        tail = "" if native.get("reproduced") else " no-failing-input-found"
        vio_lines.append("VIOLATION property=%s replay=%s obligation=%s%s" % (pid, path, ob.id, tail))
    if len(violations) > 25:
        print("(%d further refuted obligations not replayed)" % (len(violations) - 25))

    wall = time.time() - t0
    cmd = "./check %s --tier %s" % (pid, os.environ["VERIF_TIER"])
    evp = common.write_evidence(rep, wall, len(violations), known_lines, cmd)

    nproved = sum(1 for o in rep.obligations if o.status == "proved" and o.kind in ("vc", "exact"))
    print("property=%s tier=%s obligations=%d proved=%d refuted=%d (known %d) undecided=%d wall=%.1fs evidence=%s" % (
        pid, os.environ["VERIF_TIER"], sum(1 for o in rep.obligations if o.kind in ("vc", "exact")), nproved,
        len(violations) + len(known_lines), len(known_lines), len(undecided), wall, evp))
    for l in vio_lines:
        # format required by the interface: "VIOLATION property=<id> replay=<path>" (+ optional trailing words)
        parts = l.split(" obligation=")
        tailwords = " no-failing-input-found" if l.endswith("no-failing-input-found") else ""
        print(parts[0] + tailwords)
        print("  failed obligation: " + parts[1].replace(" no-failing-input-found", ""))
    if violations:
        sys.exit(1)
    if n_real == 0:
        print("VACUOUS: zero obligations generated")
        sys.exit(3)
    if undecided:
        for ob in undecided[:20]:
            print("UNDECIDED obligation=%s backend=%s detail=%s" % (ob.id, ob.backend, ob.detail[:300]))
        sys.exit(2)
    sys.exit(0)


def _replay_child(mod, ob, conn):
    try:
        r = mod.replay(ob)
        conn.send(json.loads(json.dumps(r, default=str)))
    except Exception:
        conn.send({"reproduced": False, "error": traceback.format_exc()[-1500:]})
    finally:
        conn.close()


def safe_replay(mod, ob, timeout=420):
    """native replay in a forked child: a crash of native code (matid.ext) must not take the checker down"""
    import multiprocessing as mp

    ctx = mp.get_context("fork")
    parent, child = ctx.Pipe(duplex=False)
    p = ctx.Process(target=_replay_child, args=(mod, ob, child))
    p.start()
    child.close()
    res = None
    if parent.poll(timeout):
        try:
            res = parent.recv()
        except EOFError:
            res = None
    p.join(5)
    if p.is_alive():
        p.kill()
        # the native families finish in seconds on a healthy tree: not terminating is itself a failure to 'return normally'
        return {"reproduced": True, "observed": "the native replay of the property on the real code did not terminate within %d s (normally seconds)" % timeout}
    if res is None:
        return {"reproduced": True, "observed": "native replay crashed the interpreter (exit code %s) - e.g. segmentation fault in matid.ext" % p.exitcode}
    return res


def seeded_kill_matrix(pid):
    import glob
    import shutil
    import subprocess
    import tempfile

    out = []
    for d in sorted(glob.glob(os.path.join(VERIF, "seeded", "*"))):
        try:
            meta = json.load(open(os.path.join(d, "meta.json")))
        except Exception:
            continue
        if meta.get("property") != pid or not meta.get("valid"):
            continue
        scratch = tempfile.mkdtemp(prefix="verif-seedrun-", dir="/dev/shm")
        try:
            subprocess.run(["rsync", "-a", "--exclude", ".git", "--exclude", "build", "--exclude", "docs", "/repo/", scratch + "/"], check=True)
            pr = subprocess.run(["patch", "-p1", "-s", "-i", os.path.join(d, "patch.diff")], cwd=scratch, capture_output=True, text=True)
            if pr.returncode != 0:
                out.append({"seed": os.path.basename(d), "result": "patch no longer applies"})
                continue
            env = dict(os.environ, VERIF_REPO=scratch, VERIF_TIER="quick")
            r = subprocess.run([os.path.join(VERIF, "check"), pid, "--tier", "quick"], env=env, capture_output=True, text=True, timeout=3000)
            first = [l for l in r.stdout.splitlines() if l.startswith("  failed obligation")]
            out.append({"seed": os.path.basename(d), "check_exit": r.returncode, "detected": r.returncode == 1,
                        "first_failed_obligation": first[0].split(": ", 1)[1] if first else None})
        except Exception as e:  # noqa
            out.append({"seed": os.path.basename(d), "result": "error: %s" % e})
        finally:
            shutil.rmtree(scratch, ignore_errors=True)
    return out


def common_undecided():
    from engine.errors import Unsupported

    return Unsupported


if __name__ == "__main__":
    main()
