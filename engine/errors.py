class Unsupported(Exception):
    """The source under verification left the subset the engine supports, or the sidecar no longer
    matches the function's shape. Reported as UNDECIDED (exit 2), never as a violation."""
