"""Row-generic lazy arrays: an array whose first dimension is a symbolic number of atoms n and whose row i is given
by a closure over the index term i (row = scalar proxy or small object ndarray). Row-wise operations compose closures;
reductions along the atom axis are Skolemised: the result is a fresh constant whose defining axiom is instantiated at
the index terms the contract asks for (sound for 'unsat'; a 'sat' answer may be spurious and must replay)."""
from __future__ import annotations

import numpy as _np
import z3

from .pyvc import SR, SB, cur, is_sym, z3num, z3bool, mkbool
from .errors import Unsupported
from . import npshim


def _rowop(a, b, f):
    """combine row values (scalars or small ndarrays)"""
    return f(a, b)


class RowArr:
    _symbolic_array = True
    __array_ufunc__ = None
    _symbolic_iter = True

    def __init__(self, n, f, tail=()):
        self.n = n  # SR or int
        self.f = f  # index term (SR/int) -> row value
        self.tail = tuple(tail)

    # --- basic protocol
    @property
    def shape(self):
        return (self.n,) + self.tail

    @property
    def ndim(self):
        return 1 + len(self.tail)

    def _len(self):
        return self.n

    def row(self, i):
        return self.f(i if isinstance(i, SR) or not z3.is_expr(i) else SR(i))

    def _at(self, k):
        return self.row(k)

    @property
    def T(self):
        if len(self.tail) == 0:
            return self
        return RowArrT(self)

    def copy(self):
        c = self.__class__.__new__(self.__class__)
        c.__dict__.update(self.__dict__)
        return c

    def _as_array(self):
        return self.copy()

    def _map(self, g, tail=None):
        f = self.f
        return RowArr(self.n, lambda i: g(f(i)), self.tail if tail is None else tail)

    def _bin(self, o, op, reflected=False):
        f = self.f
        if isinstance(o, RowArr):
            g = o.f
            tail = self.tail if len(self.tail) >= len(o.tail) else o.tail
            return RowArr(self.n, lambda i: op(f(i), g(i)), tail)
        if isinstance(o, _np.ndarray):
            if o.ndim == self.ndim:
                if o.shape[0] != 1:
                    raise Unsupported("broadcast of shape %s against (n,%s)" % (o.shape, self.tail))
                o = o[0]
            elif o.ndim > self.ndim:
                raise Unsupported("broadcast rank")
            tail = self.tail if len(self.tail) >= o.ndim else o.shape
            if reflected:
                return RowArr(self.n, lambda i: op(o, f(i)), tail)
            return RowArr(self.n, lambda i: op(f(i), o), tail)
        if isinstance(o, (int, float, SR)) or _np.isscalar(o):
            if reflected:
                return RowArr(self.n, lambda i: op(o, f(i)), self.tail)
            return RowArr(self.n, lambda i: op(f(i), o), self.tail)
        return NotImplemented

    def __add__(self, o):
        return self._bin(o, lambda a, b: a + b)

    def __radd__(self, o):
        return self._bin(o, lambda a, b: a + b, True)

    def __sub__(self, o):
        return self._bin(o, lambda a, b: a - b)

    def __rsub__(self, o):
        return self._bin(o, lambda a, b: a - b, True)

    def __mul__(self, o):
        return self._bin(o, lambda a, b: a * b)

    def __rmul__(self, o):
        return self._bin(o, lambda a, b: a * b, True)

    def __truediv__(self, o):
        return self._bin(o, lambda a, b: a / b)

    def __mod__(self, o):
        return self._bin(o, lambda a, b: npshim.vec(lambda x: x % b)(a))

    def __pow__(self, k):
        return self._map(lambda r: r ** k)

    def __neg__(self):
        return self._map(lambda r: -r)

    def _inplace(self, opname, b):
        import operator as o

        op = {"Add": o.add, "Sub": o.sub, "Mult": o.mul, "Div": o.truediv, "Mod": None}[opname]
        r = (self % b) if opname == "Mod" else self._bin(b, op)
        self.f, self.tail = r.f, r.tail
        return self

    # --- indexing
    def _getitem(self, idx):
        f = self.f
        if isinstance(idx, tuple):
            first, rest = idx[0], idx[1:]
            if isinstance(first, slice) and first == slice(None):
                if len(rest) == 1 and rest[0] is None:
                    return RowArr(self.n, lambda i: _np.array([f(i)], dtype=object) if not isinstance(f(i), _np.ndarray) else f(i)[None], (1,) + self.tail)
                newtail = _np.shape(_np.zeros(self.tail)[rest if len(rest) > 1 else rest[0]]) if self.tail else ()
                return RowArr(self.n, lambda i: f(i)[rest if len(rest) > 1 else rest[0]], newtail)
            if first is None and len(rest) == 1 and rest[0] == slice(None):
                return RowVec(self)
            r = self._getitem(first)
            return r[rest if len(rest) > 1 else rest[0]]
        if isinstance(idx, slice):
            if idx == slice(None):
                return self
            raise Unsupported("slice of a row-generic array")
        if idx is None:
            return RowVec(self)
        if isinstance(idx, (int, SR)) or _np.issubdtype(type(idx), _np.integer):
            st = cur()
            t = z3num(idx)
            st.safety("index", z3.And(t >= 0, t < z3num(self.n)))
            return f(idx if isinstance(idx, SR) else SR(z3num(int(idx))))
        if isinstance(idx, RowArr):  # fancy indexing by a symbolic index array (e.g. positions[indices])
            g = idx.f
            return RowArr(idx.n, lambda i: f(g(i)), self.tail)
        h = getattr(idx, "_index_into", None)
        if h is not None:
            return h(self)
        raise Unsupported("index %r of a row-generic array" % (idx,))

    def _setitem(self, idx, v):
        f = self.f
        if isinstance(idx, tuple) and isinstance(idx[0], slice) and idx[0] == slice(None) and len(idx) == 2 and isinstance(idx[1], int):
            k = idx[1]
            if isinstance(v, RowArr):
                g = v.f
                def nf(i):
                    r = _np.array(f(i), dtype=object)
                    r[k] = g(i)
                    return r
            else:
                def nf(i):
                    r = _np.array(f(i), dtype=object)
                    r[k] = v
                    return r
            self.f = nf
            return
        raise Unsupported("store into a row-generic array at %r" % (idx,))

    # --- numpy hooks
    def _dot(self, b):
        f = self.f
        if isinstance(b, _np.ndarray):
            tail = b.shape[1:] if b.ndim == 2 else ()
            return RowArr(self.n, lambda i: _np.dot(npshim.obj(f(i)), npshim.obj(b)), tail)
        raise Unsupported("dot with %r" % type(b))

    def _reduce(self, kind):
        """Skolemised extremal index along the atom axis (first extremal index: A-NP)."""
        if self.tail != ():
            raise Unsupported("reduction of non-scalar rows")
        st = cur()
        m = st.fresh_int("arg" + kind)
        st.assume(z3.And(m >= 0, m < z3num(self.n)))
        st.ghost.setdefault("reductions", []).append((kind, SR(m), self))
        return SR(m)

    def _argmin(self, axis=None):
        return self._reduce("min")

    def _argmax(self, axis=None):
        return self._reduce("max")

    def min(self, axis=None):
        return self.f(self._reduce("min"))

    def max(self, axis=None):
        return self.f(self._reduce("max"))

    def _sum(self, axis=None):
        if self.tail != ():
            raise Unsupported("sum of non-scalar rows")
        st = cur()
        s = st.fresh_real("sum")
        st.ghost.setdefault("sums", {})[str(s)] = self
        return SR(s)

    def sum(self, axis=None):
        return self._sum(axis)

    def _mean(self, axis=None):
        return self._sum(axis) / self.n

    def mean(self, axis=None):
        return self._mean(axis)

    def any(self):
        raise Unsupported(".any() of a row-generic array")

    def _toset(self):
        """set(array): the image of the rows (scalar int rows)"""
        from .heap import fresh_set

        st = cur()
        P = fresh_set(st, "image")
        i, v = z3.Int("i!img"), z3.Int("v!img")
        f = self.f
        st.assume(z3.ForAll([i], z3.Implies(z3.And(i >= 0, i < z3num(self.n)), P.mem(z3num(f(SR(i)))))))
        st.assume(z3.ForAll([v], z3.Implies(P.mem(v), z3.Exists([i], z3.And(i >= 0, i < z3num(self.n), z3num(f(SR(i))) == v)))))
        return P


class RowVec:
    """x[None, :] of a row-generic 1-D array: shape (1, n)"""

    _symbolic_array = True
    __array_ufunc__ = None

    def __init__(self, base):
        self.base = base

    def __add__(self, o):
        if isinstance(o, RowArr) and o.tail == (1,):
            return PairArr(o, self.base, lambda a, b: a + b)
        return NotImplemented

    __radd__ = __add__


class PairArr:
    """(n,n) matrix M[i,j] = op(col[i], row[j])"""

    _symbolic_array = True
    __array_ufunc__ = None

    def __init__(self, col, row, op):
        self.col, self.row, self.op = col, row, op

    def at(self, i, j):
        a = self.col.f(i)
        a = a[0] if isinstance(a, _np.ndarray) else a
        return self.op(a, self.row.f(j))


class RowArrT:
    """transpose of an (n,k) row-generic array (only as right-hand side of solve / dot)"""

    _symbolic_array = True
    __array_ufunc__ = None

    def __init__(self, base):
        self.base = base

    @property
    def T(self):
        return self.base

    @property
    def shape(self):
        return self.base.tail + (self.base.n,)


def solve_hook(A, B):
    """np.linalg.solve(A, B) with B the transpose of a row-generic array: column-wise solutions."""
    base = B.base
    f = base.f
    A = npshim.obj(A)

    def g(i):
        return npshim.NP.linalg.solve(A, npshim.obj(f(i)))

    return RowArrT(RowArr(base.n, g, base.tail))


_orig_solve = npshim.Linalg.solve


def _solve(self, A, B):
    if isinstance(B, RowArrT):
        st = cur()
        st.safety("singular-matrix", npshim.det_term(npshim.obj(A)) != 0)
        saved = st.safety_on
        r = solve_hook(A, B)
        return r
    return _orig_solve(self, A, B)


npshim.Linalg.solve = _solve

_orig_vec = npshim.vec


def _vec(fn):
    g0 = _orig_vec(fn)

    def g(x, *a, **k):
        if isinstance(x, RowArr):
            return x._map(lambda r: g0(r, *a, **k))
        return g0(x, *a, **k)

    return g


npshim.vec = _vec


def instantiate_reductions(st, idx_terms):
    """Instantiate the defining axioms of Skolemised arg-min/arg-max at the given index terms."""
    for kind, m, arr in st.ghost.get("reductions", []):
        vm = z3num(arr.f(m))
        for i in idx_terms:
            i = i if isinstance(i, SR) else SR(i)
            vi = z3num(arr.f(i))
            inrange = z3.And(i.t >= 0, i.t < z3num(arr.n))
            if kind == "min":
                st.assume(z3.Implies(inrange, z3.And(vm <= vi, z3.Implies(vm == vi, m.t <= i.t))))
            else:
                st.assume(z3.Implies(inrange, z3.And(vm >= vi, z3.Implies(vm == vi, m.t <= i.t))))
