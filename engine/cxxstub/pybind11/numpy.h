// Stub of pybind11/numpy.h for *parsing* matid/ext/*.cpp with clang (the real header is not installed in this sandbox).
// Declares exactly what the sources use: array_t<T> with unchecked / mutable_unchecked views, shape(), size().
#pragma once
#include <vector>
#include <stdexcept>
#include <unordered_map>
#include <tuple>
#include <cmath>
#include <initializer_list>
namespace pybind11 {
typedef long ssize_t;
template <typename T, int N> struct view {
    T& operator()(int i);
    T& operator()(int i, int j);
    T& operator()(int i, int j, int k);
    ssize_t shape(int i) const;
};
template <typename T> struct array_t {
    array_t();
    array_t(std::initializer_list<int> shape);
    template <int N> view<const T, N> unchecked() const;
    template <int N> view<T, N> mutable_unchecked();
    ssize_t shape(int i) const;
    ssize_t size() const;
};
}
