"""Symbolic sets / integer lists / heap objects.

Abstractions (stated in DESIGN.md 2.2):
  * a set of ints is a z3 Array Int->Bool; len() is an uninterpreted cardinality with the axioms actually needed;
  * a list of ints whose contract only speaks of membership is (set view, duplicate-free flag, length);
  * objects of interpreted classes reached through symbolic collections are ids (Int); every modelled field is one z3
    array from id to the field's abstraction, kept in state.ghost['heap'] (so that loops can havoc/snapshot it).
"""
from __future__ import annotations

import z3

from .pyvc import SR, SB, cur, z3num, z3bool, mkbool, is_sym
from .errors import Unsupported

I = z3.IntSort()
B = z3.BoolSort()
SetSort = z3.ArraySort(I, B)
CARD = z3.Function("card", SetSort, I)


def card_store_facts(st, t):
    """L-CARD: cardinality of finite sets along a chain of single-element updates (instances of card(S + x), card(S - x))"""
    while z3.is_store(t):
        base, x, v = t.arg(0), t.arg(1), t.arg(2)
        inb = z3.Select(base, x)
        st.assume(CARD(t) == z3.If(v, z3.If(inb, CARD(base), CARD(base) + 1), z3.If(inb, CARD(base) - 1, CARD(base))))
        st.assume(CARD(base) >= 0)
        t = base


def empty_set():
    return z3.K(I, z3.BoolVal(False))


class SymSet:
    _symbolic_iter = True

    def __init__(self, arr=None):
        self.arr = arr if arr is not None else empty_set()

    @staticmethod
    def of(x):
        if isinstance(x, SymSet):
            return x
        if isinstance(x, SymList):
            return x.s
        h = getattr(x, "_toset", None)
        if h is not None:
            return h()
        if isinstance(x, (set, frozenset, list, tuple)):
            a = empty_set()
            for v in x:
                a = z3.Store(a, z3num(v), z3.BoolVal(True))
            return SymSet(a)
        raise Unsupported("cannot view %r as a set of ints" % type(x))

    def _contains(self, x):
        return mkbool(z3.Select(self.arr, z3num(x)))

    def _state(self):
        return [self.arr]

    def mem(self, t):
        return z3.Select(self.arr, t)

    def _len(self):
        st = cur()
        c = CARD(self.arr)
        x = z3.Int("x!card")
        st.assume(c >= 0)
        st.assume((c == 0) == z3.ForAll([x], z3.Not(z3.Select(self.arr, x))))
        y = z3.Int("y!card")
        st.assume(z3.ForAll([x, y], z3.Implies(z3.And(z3.Select(self.arr, x), z3.Select(self.arr, y), x != y), c >= 2)))
        return SR(c)

    def _truth(self):
        x = z3.Int("x!ne")
        return mkbool(z3.Exists([x], z3.Select(self.arr, x)))

    def _toset(self):
        return SymSet(self.arr)

    def _tolist(self):
        return SymList(SymSet(self.arr), True, None)

    def copy(self):
        return SymSet(self.arr)

    # functional operations
    def union(self, o):
        o = SymSet.of(o)
        return SymSet(z3.Map(_OR, self.arr, o.arr))

    def intersection(self, o):
        o = SymSet.of(o)
        return SymSet(z3.Map(_AND, self.arr, o.arr))

    def difference(self, o):
        o = SymSet.of(o)
        return SymSet(z3.Map(_AND, self.arr, z3.Map(_NOT, o.arr)))

    __or__ = union
    __and__ = intersection
    __sub__ = difference

    def __rsub__(self, o):
        return SymSet.of(o).difference(self)

    # mutation
    def add(self, x):
        self.arr = z3.Store(self.arr, z3num(x), z3.BoolVal(True))

    def update(self, o):
        self.arr = self.union(o).arr

    def remove(self, x):
        st = cur()
        c = z3.Select(self.arr, z3num(x))
        if not st.fork(c):
            raise KeyError(x)
        self.arr = z3.Store(self.arr, z3num(x), z3.BoolVal(False))

    def discard(self, x):
        self.arr = z3.Store(self.arr, z3num(x), z3.BoolVal(False))

    def difference_update(self, o):
        self.arr = self.difference(o).arr

    def _inplace(self, opname, b):
        if opname == "Sub":
            self.difference_update(b)
        elif opname == "BitOr":
            self.update(b)
        elif opname == "BitAnd":
            self.arr = self.intersection(b).arr
        else:
            raise Unsupported("set %s=" % opname)
        return self

    def subset_of(self, o):
        x = z3.Int("x!sub")
        return z3.ForAll([x], z3.Implies(z3.Select(self.arr, x), z3.Select(SymSet.of(o).arr, x)))

    def eq(self, o):
        return self.arr == SymSet.of(o).arr

    def _filter(self, f):
        raise Unsupported("filter over a symbolic set needs a contract")


_b1, _b2 = z3.Bools("b1!m b2!m")
_OR = z3.Or(_b1, _b2).decl()
_AND = z3.And(_b1, _b2).decl()
_NOT = z3.Not(_b1).decl()


def fresh_set(st, name):
    st.n += 1
    return SymSet(z3.Const("%s!%d" % (name, st.n), SetSort))


class SymList:
    """list of ints known through its set view, a duplicate-free flag and its length"""

    _symbolic_iter = True

    def __init__(self, s: SymSet, dupfree=True, length=None):
        self.s = s
        self.dupfree = dupfree  # bool or z3 Bool
        self.length = length  # SR or None (None: derived from the set when duplicate-free)

    owner = None  # (heap object, field) when this value was read from the heap: in-place mutation is written back
    order = None  # identity of the element order (a hashable key); None: nothing known about the order

    def _sorted(self, key, reverse):
        """sorted(list): same elements, same multiplicities; the order is 'the sorted order of' the original one"""
        if key is not None:
            raise Unsupported("sorted(list, key=...)")
        r = SymList(SymSet(self.s.arr), self.dupfree, self.length)
        r.order = ("sorted", bool(reverse), self.order) if self.order is not None else None
        return r

    def _contains(self, x):
        return self.s._contains(x)

    def append(self, x):
        t = z3num(x)
        self.dupfree = mkbool(z3.And(z3bool(self.dupfree), z3.Not(z3.Select(self.s.arr, t))))
        self.s = SymSet(z3.Store(self.s.arr, t, z3.BoolVal(True)))
        self.length = None
        if self.owner is not None:
            self.owner[0].write(self.owner[1], self)

    def _toset(self):
        return SymSet(self.s.arr)

    def _tolist(self):
        r = SymList(SymSet(self.s.arr), self.dupfree, self.length)
        r.order = self.order
        return r

    def _len(self):
        st = cur()
        c = self.s._len()
        if self.length is None:
            if self.dupfree is True:
                return c
            L = SR(st.fresh_int("len"))
            st.assume(L.t >= c.t)
            st.assume(z3.Implies(z3bool(self.dupfree), L.t == c.t))
            self.length = L
            return L
        st.assume(self.length.t >= c.t)
        st.assume(z3.Implies(z3bool(self.dupfree), self.length.t == c.t))
        return self.length

    def _truth(self):
        return self.s._truth()

    def _as_array(self):
        return IndexArray(self)

    def _filter(self, f):
        """filter(pred, list): sub-list; pred is applied to a generic element to define the result's set view"""
        st = cur()
        out = fresh_set(st, "filtered")
        x = z3.Int("x!flt")
        # evaluate the predicate on a bound variable: pure predicates only
        p = f(SR(x))
        st.assume(z3.ForAll([x], z3.Select(out.arr, x) == z3.And(z3.Select(self.s.arr, x), z3bool(p))))
        return SymList(out, self.dupfree, None)

    def _subsystem_of(self, atoms):
        from .aseshim import SymAtoms

        return SubAtoms(atoms, self)


def same_order(a, b):
    """z3 Bool: the two lists enumerate their (equal) elements in the same order. Equal order keys: yes; a list against its own sorted copy:
    exactly when the list is sorted (an unconstrained fact about the list); otherwise unknown (a fresh Bool)."""
    st = cur()
    ka, kb = getattr(a, "order", None), getattr(b, "order", None)
    if ka is not None and ka == kb:
        return z3.BoolVal(True)
    for x, y in ((ka, kb), (kb, ka)):
        if isinstance(x, tuple) and x and x[0] == "sorted" and x[2] is not None and x[2] == y:
            import hashlib
            return z3.Bool("is_sorted_%s!%s" % ("desc" if x[1] else "asc", hashlib.sha1(repr(y).encode()).hexdigest()[:10]))
    st.n += 1
    return z3.Bool("same_order?%d" % st.n)


class IndexArray:
    """np.array(list_of_indices): only used for positional sub-selection"""

    def __init__(self, lst):
        self.lst = lst

    def _getitem(self, idx):
        h = getattr(idx, "_select_positions", None)
        if h is not None:
            return h(self)
        raise Unsupported("np.array(indices)[%r]" % (idx,))


class SubAtoms:
    """atoms[indices]: the sub-system (A-ASE: keeps cell, pbc and the order of `indices`)"""

    def __init__(self, atoms, indices):
        self.atoms = atoms
        self.indices = indices

    def _len(self):
        return self.indices._len()


# ---------------------------------------------------------------------------------------------
# heap


class Field:
    def __init__(self, kind, default=None):
        self.kind = kind  # 'intlist' | 'intset' | 'bool' | 'int' | 'optint' | 'ref' | 'token'
        self.default = default


def heap(st):
    return st.ghost.setdefault("heap", {})


def _arr(st, cls, field, part, sort):
    h = heap(st)
    key = (cls, field, part)
    if key not in h:
        h[key] = z3.Const("H_%s_%s_%s" % (cls, field, part), z3.ArraySort(I, sort))
    return h[key]


def havoc_field(st, cls, field):
    st.ghost.setdefault("havocked", set()).add((cls, field))
    h = heap(st)
    for key in list(h):
        if key[0] == cls and key[1] == field:
            st.n += 1
            h[key] = z3.Const("H_%s_%s_%s!%d" % (cls, field, key[2], st.n), h[key].sort())


def snapshot(st):
    return dict(heap(st))


class HObj:
    """object of an interpreted class identified by an Int id; modelled fields live in the heap arrays"""

    def __init__(self, clsval, schema, oid, clsname=None):
        self.cls = clsval
        self.schema = schema
        self.id = oid if z3.is_expr(oid) else z3.IntVal(oid)
        self.clsname = clsname or clsval.name

    def _identical(self, o):
        if isinstance(o, HObj):
            return mkbool(self.id == o.id)
        return False

    def _is_none(self):
        return False

    def read(self, field, hp=None):
        st = cur()
        fd = self.schema[field]
        c = self.clsname

        def A(part, sort):
            if hp is not None:
                return hp[(c, field, part)]
            return _arr(st, c, field, part, sort)

        if fd.kind == "intlist":
            r = SymList(SymSet(z3.Select(A("set", SetSort), self.id)), mkbool(z3.Select(A("dupfree", B), self.id)), None)
            if hp is None:
                r.owner = (self, field)
            # two reads of the same field of the same object with no write in between see the same order
            r.order = ("field", c, field, z3.simplify(self.id).sexpr(), A("set", SetSort).sexpr(), A("dupfree", B).sexpr())
            return r
        if fd.kind == "intset":
            return SymSet(z3.Select(A("set", SetSort), self.id))
        if fd.kind == "bool":
            return mkbool(z3.Select(A("v", B), self.id))
        if fd.kind == "int":
            return SR(z3.Select(A("v", I), self.id))
        if fd.kind == "optint":
            return OptInt(z3.Select(A("isnone", B), self.id), z3.Select(A("v", I), self.id))
        if fd.kind == "optset":
            return OptSetToken(z3.Select(A("isnone", B), self.id), z3.Select(A("set", SetSort), self.id))
        if fd.kind == "const":
            per = st.ghost.get("const_fields", {})
            k = (z3.simplify(self.id).sexpr(), field)
            return per[k] if k in per else fd.default
        if fd.kind == "tok":
            return fd.default(z3.Select(A("v", I), self.id))
        raise Unsupported("field kind %s" % fd.kind)

    def write(self, field, v):
        st = cur()
        fd = self.schema[field]
        c = self.clsname
        h = heap(st)

        def put(part, sort, val):
            a = _arr(st, c, field, part, sort)
            h[(c, field, part)] = z3.Store(a, self.id, val)

        if fd.kind == "intlist":
            if isinstance(v, SymSet):
                v = SymList(v, True, None)
            if isinstance(v, (list, tuple, set)):
                v = SymList(SymSet.of(v), len(set(map(str, v))) == len(v), None)
            if not isinstance(v, SymList):
                raise Unsupported("store %r into list field %s" % (type(v), field))
            put("set", SetSort, v.s.arr)
            put("dupfree", B, z3bool(v.dupfree))
        elif fd.kind == "intset":
            put("set", SetSort, SymSet.of(v).arr)
        elif fd.kind == "bool":
            put("v", B, z3bool(v))
        elif fd.kind == "int":
            put("v", I, z3num(v))
        elif fd.kind == "optint":
            if v is None:
                put("isnone", B, z3.BoolVal(True))
            elif isinstance(v, OptInt):
                put("isnone", B, v.isnone)
                put("v", I, v.v)
            else:
                put("isnone", B, z3.BoolVal(False))
                put("v", I, z3num(v))
        elif fd.kind == "optset":
            if v is None:
                put("isnone", B, z3.BoolVal(True))
            elif isinstance(v, OptSetToken):
                put("isnone", B, v.isnone)
                put("set", SetSort, v.set)
            else:
                raise Unsupported("store %r into token field %s" % (type(v), field))
        elif fd.kind == "const":
            # reference field that is written once, by the constructor: kept per object identity
            st.ghost.setdefault("const_fields", {})[(z3.simplify(self.id).sexpr(), field)] = v
        elif fd.kind == "tok":
            if v is None:
                put("v", I, z3.IntVal(-1))
            elif hasattr(v, "tok"):
                put("v", I, v.tok)
            else:
                raise Unsupported("store %r into token field %s" % (type(v), field))
        else:
            raise Unsupported("field kind %s" % fd.kind)

    def _getattr(self, interp, attr):
        if attr in self.schema:
            return self.read(attr)
        from .pyvc import BoundMethod

        m = interp.find_method(self.cls, attr) if self.cls is not None else None
        if m is not None:
            return BoundMethod(m, self)
        raise Unsupported("attribute %s of %s is not modelled" % (attr, self.clsname))

    def _setattr(self, interp, attr, v):
        if attr not in self.schema:
            raise Unsupported("store to unmodelled attribute %s.%s" % (self.clsname, attr))
        self.write(attr, v)


class OptInt:
    """None | int"""

    def __init__(self, isnone, v):
        self.isnone = isnone
        self.v = v

    def _is_none(self):
        return mkbool(self.isnone)


class OptSetToken:
    """None | a cached quantity characterised by the index set it was computed for"""

    def __init__(self, isnone, s):
        self.isnone = isnone
        self.set = s

    def _is_none(self):
        return mkbool(self.isnone)


class SymObjSeq:
    """sequence (symbolic length) of pairwise distinct heap objects: element k has id ids(k)"""

    _symbolic_iter = True

    def __init__(self, n, clsval, schema, name, clsname=None):
        self.n = n
        self.cls = clsval
        self.schema = schema
        self.name = name
        self.clsname = clsname
        self.ids = z3.Function("ids_%s" % name, I, I)

    def _len(self):
        return self.n

    def _at(self, k):
        return HObj(self.cls, self.schema, self.ids(z3num(k)), self.clsname)

    def _getitem(self, idx):
        if isinstance(idx, (int, SR)):
            cur().safety("index", z3.And(z3num(idx) >= 0, z3num(idx) < z3num(self.n)))
            return self._at(idx)
        raise Unsupported("index %r" % (idx,))

    def distinct_axiom(self):
        p, q = z3.Ints("p!d q!d")
        return z3.ForAll([p, q], z3.Implies(z3.And(p >= 0, q >= 0, p < z3num(self.n), q < z3num(self.n), p != q), self.ids(p) != self.ids(q)))

    def _truth(self):
        return mkbool(z3num(self.n) != 0)


def _ss_setdom(self):
    return self


def _ss_elem(self, x):
    return x


SymSet._setdom = _ss_setdom
SymSet._elem = _ss_elem


class ObjSetView:
    """list of heap objects known through the set of their ids (order not modelled): value of a defaultdict(list) entry"""

    _symbolic_iter = True

    def __init__(self, mp, key):
        self.mp = mp
        self.key = key

    def ids(self):
        return z3.Select(self.mp.R, z3num(self.key))

    def append(self, o):
        if not isinstance(o, HObj):
            raise Unsupported("append of %r" % type(o))
        self.mp.R = z3.Store(self.mp.R, z3num(self.key), z3.Store(self.ids(), o.id, z3.BoolVal(True)))

    def _len(self):
        return SymSet(self.ids())._len()

    def _setdom(self):
        return SymSet(self.ids())

    def _elem(self, x):
        return HObj(self.mp.cls, self.mp.schema, z3num(x), self.mp.clsname)

    def _getitem(self, idx):
        if isinstance(idx, int) and idx == 0:
            st = cur()
            memo = st.ghost.setdefault("memo", {})
            k = ("first", self.ids().sexpr())
            if k not in memo:
                c = st.fresh_int("first")
                x = z3.Int("x!first")
                st.safety("index-empty-list", z3.Exists([x], z3.Select(self.ids(), x)))
                st.assume(z3.Select(self.ids(), c))
                memo[k] = c
            return HObj(self.mp.cls, self.mp.schema, memo[k], self.mp.clsname)
        raise Unsupported("index %r of object list" % (idx,))

    def _contains(self, o):
        return mkbool(z3.Select(self.ids(), o.id))


class SymObjMap:
    """defaultdict(list) from int keys to lists of heap objects: R[key] = set of object ids"""

    def __init__(self, clsval, schema, clsname=None):
        self.cls = clsval
        self.schema = schema
        self.clsname = clsname
        self.R = z3.K(I, empty_set())

    def _getitem(self, key):
        return ObjSetView(self, key)

    def _state(self):
        return [self.R]

    def keys_set(self):
        st = cur()
        K = fresh_set(st, "keys")
        a = z3.Int("a!keys")
        st.assume(z3.ForAll([a], z3.Select(K.arr, a) == (z3.Select(self.R, a) != empty_set())))
        return K

    def items(self):
        return SymMapItems(self)


class SymMapItems:
    _symbolic_iter = True

    def __init__(self, mp):
        self.mp = mp

    def _setdom(self):
        return self.mp.keys_set()

    def _elem(self, x):
        return (x, ObjSetView(self.mp, x))


class ObjBag:
    """append-only Python list of heap objects inside a symbolic loop, known through the set of ids it contains"""

    _symbolic_iter = True

    def __init__(self, ids, cls, schema, clsname):
        self.ids = ids
        self.cls, self.schema, self.clsname = cls, schema, clsname

    @staticmethod
    def ids_of(x):
        if isinstance(x, ObjBag):
            return x.ids
        if isinstance(x, list):
            a = empty_set()
            for o in x:
                a = z3.Store(a, o.id, z3.BoolVal(True))
            return a
        raise Unsupported("not an object list: %r" % type(x))

    def append(self, o):
        self.ids = z3.Store(self.ids, o.id, z3.BoolVal(True))

    def _state(self):
        return [self.ids]

    def _setdom(self):
        return SymSet(self.ids)

    def _elem(self, x):
        return HObj(self.cls, self.schema, z3num(x), self.clsname)

    def _len(self):
        return SymSet(self.ids)._len()


# ---- list-like operations on an ObjBag (positions are abstracted: position k of the current version of the list is pick_v(k)) ------
def _bag_pick(self):
    st = cur()
    ver = self.ids.sexpr()
    memo = st.ghost.setdefault("bag_pick", {})
    if ver not in memo:
        st.n += 1
        f = z3.Function("pick!%d" % st.n, I, I)
        n = SymSet(self.ids)._len()
        p, q = z3.Ints("p!bp q!bp")
        st.assume(z3.ForAll([p], z3.Implies(z3.And(p >= 0, p < n.t), z3.Select(self.ids, f(p)))))
        st.assume(z3.ForAll([p, q], z3.Implies(z3.And(p >= 0, q >= 0, p < n.t, q < n.t, p != q), f(p) != f(q))))
        memo[ver] = (f, n)
    return memo[ver]


def _bag_at(self, k):
    f, n = _bag_pick(self)
    return HObj(self.cls, self.schema, f(z3num(k)), self.clsname)


def _bag_getitem(self, idx):
    f, n = _bag_pick(self)
    cur().safety("list-index", z3.And(z3num(idx) >= 0, z3num(idx) < n.t))
    return HObj(self.cls, self.schema, f(z3num(idx)), self.clsname)


def _bag_pop(self, idx=-1):
    f, n = _bag_pick(self)
    st = cur()
    if isinstance(idx, int) and idx < 0:
        raise Unsupported("pop from the end of an abstract list")
    st.safety("pop-index", z3.And(z3num(idx) >= 0, z3num(idx) < n.t))
    oid = f(z3num(idx))
    self.ids = z3.Store(self.ids, oid, z3.BoolVal(False))
    return HObj(self.cls, self.schema, oid, self.clsname)


def _bag_add(self, other):
    return ObjBag(z3.Map(_OR, self.ids, ObjBag.ids_of(other)), self.cls, self.schema, self.clsname)


ObjBag._sorted = lambda self, key, reverse: self  # order is not modelled
ObjBag._at = _bag_at
ObjBag._getitem = _bag_getitem
ObjBag.pop = _bag_pop
ObjBag.__add__ = _bag_add
ObjBag.__radd__ = lambda self, other: _bag_add(self, other)
ObjBag._truth = lambda self: SymSet(self.ids)._truth()
