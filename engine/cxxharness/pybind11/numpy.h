// Functional stand-in for pybind11/numpy.h: just enough of array_t (shared storage, shape, unchecked views) to COMPILE AND RUN
// the real matid/ext/geometry.cpp and celllist.cpp in a standalone harness (the real header is not installed in this sandbox).
#pragma once
#include <vector>
#include <memory>
#include <stdexcept>
#include <unordered_map>
#include <tuple>
#include <cmath>
#include <initializer_list>
namespace pybind11 {
typedef long ssize_t;
template <typename T, int N> struct view {
    T* p; ssize_t s[3];
    T& operator()(ssize_t i) const { return p[i]; }
    T& operator()(ssize_t i, ssize_t j) const { return p[i * s[1] + j]; }
    T& operator()(ssize_t i, ssize_t j, ssize_t k) const { return p[(i * s[1] + j) * s[2] + k]; }
    ssize_t shape(int i) const { return s[i]; }
};
template <typename T> struct array_t {
    std::shared_ptr<std::vector<char>> buf;
    std::vector<ssize_t> shp;
    array_t() : buf(std::make_shared<std::vector<char>>()) {}
    array_t(std::initializer_list<int> s) { ssize_t n = 1; for (int d : s) { shp.push_back(d); n *= d; } buf = std::make_shared<std::vector<char>>(n * sizeof(T)); }
    array_t(std::vector<ssize_t> s) { ssize_t n = 1; for (auto d : s) { shp.push_back(d); n *= d; } buf = std::make_shared<std::vector<char>>(n * sizeof(T)); }
    T* data() const { return reinterpret_cast<T*>(buf->data()); }
    template <int N> view<const T, N> unchecked() const { view<const T, N> v; v.p = data(); for (int i = 0; i < 3; ++i) v.s[i] = i < (int)shp.size() ? shp[i] : 1; return v; }
    template <int N> view<T, N> mutable_unchecked() { view<T, N> v; v.p = data(); for (int i = 0; i < 3; ++i) v.s[i] = i < (int)shp.size() ? shp[i] : 1; return v; }
    ssize_t shape(int i) const { return shp[i]; }
    ssize_t size() const { ssize_t n = 1; for (auto d : shp) n *= d; return n; }
};
}
