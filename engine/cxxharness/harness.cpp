// Standalone driver around the real matid/ext sources (compiled against the functional stub): reads cases from stdin.
//   T n  x y z ...(n rows)  cell(9)  pbc(3)  cutoff|inf      -> displacement tensor: prints n*n lines "dist dx dy dz fa fb fc"
//   E n  positions  cell  pbc  ext                          -> extended system: prints count then "idx fa fb fc x y z"
//   Q n  positions  cell  pbc  ext cutoff  qx qy qz          -> neighbour query: prints count then "extidx dist dx dy dz"
#include "geometry.h"
#include <iostream>
#include <limits>
#include <string>
namespace py = pybind11;
static double rd() { std::string s; std::cin >> s; if (s == "inf") return std::numeric_limits<double>::infinity(); return std::stod(s); }
int main() {
    std::string mode;
    std::cout.precision(17);
    while (std::cin >> mode) {
        int n; std::cin >> n;
        py::array_t<double> pos({n, 3}); auto p = pos.mutable_unchecked<2>();
        for (int i = 0; i < n; ++i) for (int k = 0; k < 3; ++k) p(i, k) = rd();
        py::array_t<double> cell({3, 3}); auto c = cell.mutable_unchecked<2>();
        for (int i = 0; i < 3; ++i) for (int k = 0; k < 3; ++k) c(i, k) = rd();
        py::array_t<bool> pbc({3}); auto b = pbc.mutable_unchecked<1>();
        for (int i = 0; i < 3; ++i) { int v; std::cin >> v; b(i) = v != 0; }
        try {
        if (mode == "T") {
            double cutoff = rd();
            py::array_t<double> disp({n, n, 3}), dist({n, n}), fac({n, n, 3});
            auto D = disp.mutable_unchecked<3>(); auto S = dist.mutable_unchecked<2>(); auto F = fac.mutable_unchecked<3>();
            double inf = std::numeric_limits<double>::infinity();
            for (int i = 0; i < n; ++i) for (int j = 0; j < n; ++j) { S(i, j) = inf; for (int k = 0; k < 3; ++k) { D(i, j, k) = inf; F(i, j, k) = inf; } }
            get_displacement_tensor(disp, dist, fac, pos, cell, pbc, cutoff, true, true);
            std::cout << "OK " << n * n << "\n";
            for (int i = 0; i < n; ++i) for (int j = 0; j < n; ++j)
                std::cout << S(i, j) << " " << D(i, j, 0) << " " << D(i, j, 1) << " " << D(i, j, 2) << " " << F(i, j, 0) << " " << F(i, j, 1) << " " << F(i, j, 2) << "\n";
        } else {
            double ext = rd();
            py::array_t<int> nums({n}); auto z = nums.mutable_unchecked<1>(); for (int i = 0; i < n; ++i) z(i) = i + 1;
            if (mode == "E") {
                ExtendedSystem es = extend_system(pos, nums, cell, pbc, ext);
                int m = es.indices.size();
                auto I = es.indices.unchecked<1>(); auto F = es.factors.unchecked<2>(); auto P = es.positions.unchecked<2>();
                std::cout << "OK " << m << "\n";
                for (int i = 0; i < m; ++i) std::cout << I(i) << " " << F(i, 0) << " " << F(i, 1) << " " << F(i, 2) << " " << P(i, 0) << " " << P(i, 1) << " " << P(i, 2) << "\n";
            } else {
                double cutoff = rd(); double qx = rd(), qy = rd(), qz = rd();
                CellList cl = get_cell_list(pos, cell, pbc, ext, cutoff);
                CellListResult r = cl.get_neighbours_for_position(qx, qy, qz);
                std::cout << "OK " << r.indices.size() << "\n";
                for (size_t i = 0; i < r.indices.size(); ++i)
                    std::cout << r.indices[i] << " " << r.distances[i] << " " << r.displacements[i][0] << " " << r.displacements[i][1] << " " << r.displacements[i][2]
                              << " " << r.indices_original[i] << " " << r.factors[i][0] << " " << r.factors[i][1] << " " << r.factors[i][2] << "\n";
            }
        }
        } catch (std::exception& e) { std::cout << "EXC " << e.what() << "\n"; }
    }
    return 0;
}
