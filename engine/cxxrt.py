"""run-time library of the translated C++ (names cxx_*): semantics of the C++ operations over proxy values"""
from __future__ import annotations

import math

import numpy as np
import z3

from .pyvc import SR, SB, cur, z3num, z3bool, mkbool, is_sym
from .errors import Unsupported
from .symcoll import SymRange
from . import npshim


class Struct:
    FIELDS = {"ExtendedSystem": ["positions", "atomic_numbers", "indices", "factors"],
              "CellListResult": ["indices", "distances", "distances_squared", "displacements", "indices_original", "factors"]}

    def __init__(self, tname, *vals):
        self.tname = tname
        for f, v in zip(self.FIELDS[tname], vals):
            setattr(self, f, v)


def cxx_struct(tname, *vals):
    if tname in Struct.FIELDS:
        return Struct(tname, *vals)
    h = cur().ghost.get("cxx_struct_hook")
    if h is not None:
        return h(tname, *vals)
    raise Unsupported("construction of %s" % tname)


def cxx_real(x):
    if isinstance(x, SR):
        return SR(z3.ToReal(x.t)) if x.is_int else x
    if isinstance(x, SB):
        return SR(z3.If(x.t, z3.RealVal(1), z3.RealVal(0)))
    return float(x) if not isinstance(x, bool) else (1.0 if x else 0.0)


def cxx_int(x):
    """(int) conversion: truncation toward zero"""
    if isinstance(x, SR):
        if x.is_int:
            return x
        if z3.is_app(x.t) and x.t.decl().kind() == z3.Z3_OP_TO_REAL:
            return SR(x.t.arg(0))  # (int) of an integer-valued double
        st = cur()
        memo = st.ghost.setdefault("memo", {})
        key = ("trunc", z3.simplify(x.t).sexpr())
        if key in memo:
            return memo[key]
        k = st.fresh_int("trunc")
        kr = z3.ToReal(k)
        st.assume(z3.If(x.t >= 0, z3.And(kr <= x.t, x.t < kr + 1), z3.And(kr >= x.t, x.t > kr - 1)))
        memo[key] = SR(k)
        return memo[key]
    if isinstance(x, SB):
        return SR(z3.If(x.t, z3.IntVal(1), z3.IntVal(0)))
    return int(x)


def cxx_ceil(x):
    if isinstance(x, SR):
        if x.is_int:
            return x
        st = cur()
        memo = st.ghost.setdefault("memo", {})
        key = ("ceil", z3.simplify(x.t).sexpr())
        if key in memo:
            return memo[key]
        k = st.fresh_int("ceil")
        kr = z3.ToReal(k)
        st.assume(z3.And(kr - 1 < x.t, x.t <= kr))
        memo[key] = SR(kr)
        st.ghost.setdefault("ceil_int", {})[str(kr)] = k
        return memo[key]
    return float(math.ceil(x))


def cxx_sqrt(x):
    if isinstance(x, SR):
        st = cur()
        memo = st.ghost.setdefault("memo", {})
        key = ("sqrt", z3.simplify(x.t).sexpr())
        if key in memo:
            return memo[key]
        r = st.fresh_real("sqrt")
        st.assume(z3.And(r >= 0, r * r == x.t))
        memo[key] = SR(r)
        return memo[key]
    return math.sqrt(x)


def _ite(c, a, b):
    c2 = z3.simplify(c)
    if z3.is_true(c2):
        return a
    if z3.is_false(c2):
        return b
    ta, tb = z3num(a), z3num(b)
    if z3.is_int(ta) != z3.is_int(tb):
        ta = z3.ToReal(ta) if z3.is_int(ta) else ta
        tb = z3.ToReal(tb) if z3.is_int(tb) else tb
    return SR(z3.If(c, ta, tb))


def cxx_max(a, b):
    if isinstance(a, Inf) or isinstance(b, Inf):
        return INF
    if is_sym(a) or is_sym(b):
        ta, tb = z3num(a), z3num(b)
        if z3.is_int(ta) != z3.is_int(tb):
            ta = z3.ToReal(ta) if z3.is_int(ta) else ta
            tb = z3.ToReal(tb) if z3.is_int(tb) else tb
        return _ite(ta < tb, b, a)  # std::max(a,b): (a < b) ? b : a
    return max(a, b)


def cxx_min(a, b):
    if isinstance(a, Inf):
        return b
    if isinstance(b, Inf):
        return a
    if is_sym(a) or is_sym(b):
        ta, tb = z3num(a), z3num(b)
        if z3.is_int(ta) != z3.is_int(tb):
            ta = z3.ToReal(ta) if z3.is_int(ta) else ta
            tb = z3.ToReal(tb) if z3.is_int(tb) else tb
        return _ite(tb < ta, b, a)
    return min(a, b)


def cxx_idiv(a, b):
    if is_sym(a) or is_sym(b):
        raise Unsupported("integer division of symbolic values")
    return int(a / b)


class Inf:
    """+infinity (IEEE): the operations the sources apply to an infinite cutoff, case-split explicitly"""

    def __eq__(self, o):
        return isinstance(o, Inf)

    def __ne__(self, o):
        return not isinstance(o, Inf)

    __hash__ = None

    def __mul__(self, o):
        if isinstance(o, Inf):
            return self
        raise Unsupported("inf * x")

    def __rtruediv__(self, o):
        return 0.0  # finite / inf

    def __truediv__(self, o):
        raise Unsupported("inf / x")

    def __le__(self, o):
        return isinstance(o, Inf)

    def __lt__(self, o):
        return False

    def __ge__(self, o):
        return True

    def __gt__(self, o):
        return not isinstance(o, Inf)


INF = Inf()


def cxx_infinity():
    return INF


def cxx_size(x):
    h = getattr(x, "_len", None)
    if h is not None:
        return h()
    if isinstance(x, np.ndarray):
        return x.shape[0]
    return len(x)


def cxx_shape(x, i):
    sh = x.shape
    return sh[i]


def cxx_range(lo, hi):
    if isinstance(lo, SR) or isinstance(hi, SR):
        return SymRange(lo, hi)
    return range(int(lo), int(hi))


def cxx_iter(x):
    if isinstance(x, dict):
        return list(x.items())
    h = getattr(x, "_cxx_iter", None)
    if h is not None:
        return h()
    return x


def cxx_vector(n, v):
    h = cur().ghost.get("cxx_vector_hook")
    if h is not None:
        r = h(n, v)
        if r is not NotImplemented:
            return r
    if isinstance(n, SR):
        raise Unsupported("vector of symbolic size without a model")
    if v is None:
        v = 0.0
    return [(_copy(v)) for _ in range(int(n))]


def _copy(v):
    if isinstance(v, list):
        return [_copy(x) for x in v]
    return v


def cxx_array(x):
    h = cur().ghost.get("cxx_array_hook")
    if h is not None:
        r = h(x)
        if r is not NotImplemented:
            return r
    if isinstance(x, list):
        if any(isinstance(d, SR) for d in x):
            raise Unsupported("array of symbolic shape without a model")
        a = np.empty([int(d) for d in x], dtype=object)
        a[...] = 0.0
        return a
    return x  # copy of a handle: same array


def cxx_default(t):
    if "vector" in t:
        return []
    if "map" in t:
        return {}
    if t in ("int", "long", "size_t"):
        return 0
    if t == "double":
        return 0.0
    return None


def cxx_find(m, k):
    h = getattr(m, "_find", None)
    if h is not None:
        return h(k)
    raise Unsupported("find on %r" % type(m))


def cxx_end(m):
    from contracts.cxx_model import _End
    return _End(m)


RUNTIME = {k: v for k, v in globals().items() if k.startswith("cxx_")}
