"""pyvc core: symbolic execution of the real Python source (ast of the file in the tree under verification)
with proxy values, replay-based path forking, calls by contract, loop invariants, named obligations.

What is assumed of Python's semantics is listed in DESIGN.md §2.2 (ints unbounded, floats as reals except where
modelled, object identity, no __setattr__ magic).
"""
from __future__ import annotations

import ast
import builtins
import os
import time
import types

import z3

from .common import Ob, REPO, tier
from .errors import Unsupported


# ---------------------------------------------------------------------------------------------
# control signals
class ReturnSig(Exception):
    def __init__(self, value):
        self.value = value


class BreakSig(Exception):
    pass


class ContinueSig(Exception):
    pass


class PathKilled(Exception):
    """path ends (infeasible, or loop-body path after the preservation check)"""


# ---------------------------------------------------------------------------------------------
# the current exploration state (one per path replay); proxies reach it through CUR
CUR = None


def cur():
    if CUR is None:
        raise RuntimeError("no active symbolic state")
    return CUR


def z3num(v):
    if isinstance(v, SR):
        return v.t
    if isinstance(v, SB):
        return z3.If(v.t, z3.IntVal(1), z3.IntVal(0))
    if isinstance(v, bool):
        return z3.IntVal(int(v))
    if isinstance(v, int):
        return z3.IntVal(v)
    if isinstance(v, float):
        if v != v or v in (float("inf"), float("-inf")):
            raise Unsupported("nan/inf in real arithmetic")
        import fractions as _fr

        return z3.RealVal(str(_fr.Fraction(repr(float(v)))))  # the decimal value the literal denotes (L-FLOAT)
    import fractions
    import numpy as np

    if isinstance(v, fractions.Fraction):
        return z3.RealVal(str(v))
    if isinstance(v, np.integer):
        return z3.IntVal(int(v))
    if isinstance(v, np.floating):
        return z3num(float(v))
    if isinstance(v, np.bool_):
        return z3.IntVal(int(v))
    if z3.is_expr(v):
        return v
    raise Unsupported("not a number: %r" % (type(v),))


def z3bool(v):
    if isinstance(v, SB):
        return v.t
    if isinstance(v, (bool,)):
        return z3.BoolVal(v)
    import numpy as np

    if isinstance(v, np.bool_):
        return z3.BoolVal(bool(v))
    if z3.is_expr(v) and z3.is_bool(v):
        return v
    if isinstance(v, SR):
        return v.t != 0
    if isinstance(v, (int, float)):
        return z3.BoolVal(bool(v))
    if v is None:
        return z3.BoolVal(False)
    raise Unsupported("not a boolean: %r" % (type(v),))


def is_sym(v):
    return isinstance(v, (SR, SB))


class SB:
    """symbolic boolean; bool() forks the path"""

    __slots__ = ("t",)

    def __init__(self, t):
        self.t = t

    def __bool__(self):
        return cur().fork(self.t)

    def __and__(self, o):
        return SB(z3.And(self.t, z3bool(o)))

    __rand__ = __and__

    def __or__(self, o):
        return SB(z3.Or(self.t, z3bool(o)))

    __ror__ = __or__

    def __invert__(self):
        return SB(z3.Not(self.t))

    def __eq__(self, o):
        return SB(self.t == z3bool(o))

    def __ne__(self, o):
        return SB(self.t != z3bool(o))

    __hash__ = None

    def _asint(self):
        return SR(z3.If(self.t, z3.IntVal(1), z3.IntVal(0)))

    def __add__(self, o):
        return self._asint() + (o._asint() if isinstance(o, SB) else o)

    __radd__ = __add__

    def __repr__(self):
        return "SB(%s)" % self.t


def mkbool(t):
    t = z3.simplify(t)
    if z3.is_true(t):
        return True
    if z3.is_false(t):
        return False
    return SB(t)


class SR:
    """symbolic number (z3 Int or Real term)"""

    __slots__ = ("t",)

    def __init__(self, t):
        self.t = t

    @property
    def is_int(self):
        return z3.is_int(self.t)

    def _bin(self, o, f):
        if _scalar(o):
            return SR(f(self.t, z3num(o)))
        return NotImplemented

    def __add__(self, o):
        return self._bin(o, lambda a, b: a + b)

    def __radd__(self, o):
        return self._bin(o, lambda a, b: b + a)

    def __sub__(self, o):
        return self._bin(o, lambda a, b: a - b)

    def __rsub__(self, o):
        return self._bin(o, lambda a, b: b - a)

    def __mul__(self, o):
        return self._bin(o, lambda a, b: a * b)

    def __rmul__(self, o):
        return self._bin(o, lambda a, b: b * a)

    def __neg__(self):
        return SR(-self.t)

    def __pos__(self):
        return self

    def __abs__(self):
        return SR(z3.If(self.t >= 0, self.t, -self.t))

    def __truediv__(self, o):
        if not _scalar(o):
            return NotImplemented
        b = z3num(o)
        cur().safety("division", b != 0)
        return SR(_toreal(self.t) / _toreal(b))

    def __rtruediv__(self, o):
        if not _scalar(o):
            return NotImplemented
        a = z3num(o)
        cur().safety("division", self.t != 0)
        return SR(_toreal(a) / _toreal(self.t))

    def __pow__(self, o):
        if isinstance(o, int) and 0 <= o <= 4:
            r = z3num(1)
            for _ in range(o):
                r = r * self.t
            return SR(r)
        raise Unsupported("power %r" % (o,))

    def __mod__(self, o):
        if not _scalar(o):
            return NotImplemented
        b = z3num(o)
        st = cur()
        memo = st.ghost.setdefault("memo", {})
        mk = ("mod", self.t.sexpr(), b.sexpr())
        if mk in memo:
            return memo[mk]
        r = self._mod(b, st)
        memo[mk] = r
        return r

    def _mod(self, b, st):
        if z3.is_int(self.t) and z3.is_int(b):
            st.safety("modulo", b != 0)
            return SR(self.t % b)
        # real modulo with positive modulus: x - m*floor(x/m)
        k = st.fresh_int("fl")
        st.assume(b > 0)  # only positive literal moduli are used by the code base
        r = self.t - z3.ToReal(k) * b
        st.assume(z3.And(r >= 0, r < b))
        return SR(r)

    def __floordiv__(self, o):
        b = z3num(o)
        st = cur()
        if z3.is_int(self.t) and z3.is_int(b):
            st.safety("division", b != 0)
            return SR(self.t / b)
        raise Unsupported("real floordiv")

    def _cmp(self, o, f):
        if o is None or not _scalar(o):
            return NotImplemented  # e.g. comparison with the IEEE infinity object: its reflected method decides
        return mkbool(f(self.t, z3num(o)))

    def __lt__(self, o):
        return self._cmp(o, lambda a, b: a < b)

    def __le__(self, o):
        return self._cmp(o, lambda a, b: a <= b)

    def __gt__(self, o):
        return self._cmp(o, lambda a, b: a > b)

    def __ge__(self, o):
        return self._cmp(o, lambda a, b: a >= b)

    def __eq__(self, o):
        if o is None or isinstance(o, str):
            return False
        if not _scalar(o):
            return NotImplemented
        try:
            return mkbool(self.t == z3num(o))
        except Unsupported:
            return False

    def __ne__(self, o):
        if o is None or isinstance(o, str):
            return True
        if not _scalar(o):
            return NotImplemented
        try:
            return mkbool(self.t != z3num(o))
        except Unsupported:
            return True

    def __hash__(self):
        return hash(self.t)

    def __bool__(self):
        return cur().fork(self.t != 0)

    def __index__(self):
        v = cur().concretize(self.t)
        return v

    def __float__(self):
        raise Unsupported("float() of a symbolic number")

    def __repr__(self):
        return "SR(%s)" % self.t


def _toreal(t):
    if z3.is_int_value(t):
        return z3.RealVal(t.as_long())
    return z3.ToReal(t) if z3.is_int(t) else t


def _scalar(o):
    import numpy as np

    if isinstance(o, (SR, int, float, SB)):
        return True
    if isinstance(o, np.ndarray):
        return o.shape == () and o.dtype != object
    return isinstance(o, (np.integer, np.floating, np.bool_)) or z3.is_expr(o)


def sreal(name):
    return SR(z3.Real(name))


def sint(name):
    return SR(z3.Int(name))


# ---------------------------------------------------------------------------------------------
class State:
    """One path: path condition, decision trail (for replay), fresh-name counter."""

    def __init__(self, explorer, trail):
        self.ex = explorer
        self.trail = list(trail)
        self.ptr = 0
        self.pc = []
        self.n = 0
        self.safety_on = explorer.safety_on
        self.ghost = {}
        self.hints = []

    # fresh symbols (deterministic per replay)
    def fresh(self, base, sort="real"):
        self.n += 1
        nm = "%s!%d" % (base, self.n)
        return {"real": z3.Real, "int": z3.Int, "bool": z3.Bool}[sort](nm)

    def fresh_int(self, base):
        return self.fresh(base, "int")

    def fresh_real(self, base):
        return self.fresh(base, "real")

    def assume(self, f):
        f = z3bool(f) if not z3.is_expr(f) else f
        self.pc.append(f)

    def lin(self):
        """linearised path condition, maintained incrementally (one abstraction map per path)"""
        if not hasattr(self, "_lz"):
            self._lz = Linearizer()
            self._lzpc = []
            self._lz_nl = False
        while len(self._lzpc) < len(self.pc):
            h = self.pc[len(self._lzpc)]
            if not is_linear(h):
                self._lz_nl = True
            self._lzpc.append(self._lz(h))
        return self._lz, self._lzpc

    def hint(self, *eqs):
        """concrete values that make the nonlinear part of the path condition ground: only used to *find models*
        (feasibility of branches, vacuity canary) - never as hypotheses of a proof"""
        self.hints.extend(eqs)

    def sat(self, extra, timeout=3000):
        if self.hints:
            s = z3.Solver()
            s.set("timeout", 1500)
            s.add(self.pc)
            s.add(extra)
            s.add(self.hints)
            self.ex.nsat += 1
            if s.check() == z3.sat:
                return True
            timeout = min(timeout, 800)
        s = z3.Solver()
        s.set("timeout", timeout)
        lz, lpc = self.lin()
        if self._lz_nl or not is_linear(extra):
            # feasibility on the linearised abstraction (over-approximation: 'unsat' is sound, anything else = feasible);
            # keeps nonlinear reasoning (and z3 runs that ignore their timeout) out of the branch exploration
            try:
                s.add(lpc)
                s.add(lz(extra))
                for ax in lz.axioms():
                    s.add(ax)
            except z3.Z3Exception:
                return True
        else:
            s.add(self.pc)
            s.add(extra)
        r = s.check()
        self.ex.nsat += 1
        return r != z3.unsat

    def fork(self, cond):
        c = z3.simplify(cond)
        if z3.is_true(c):
            return True
        if z3.is_false(c):
            return False
        if self.ptr < len(self.trail):
            d = self.trail[self.ptr]
            self.ptr += 1
            self.pc.append(c if d else z3.Not(c))
            return d
        can_t = self.sat(c)
        can_f = self.sat(z3.Not(c))
        if can_t and can_f:
            self.ex.pending.append(self.trail[: self.ptr] + [False])
            d = True
        elif can_t:
            d = True
        elif can_f:
            d = False
        else:
            raise PathKilled()
        self.trail.append(d)
        self.ptr += 1
        self.pc.append(c if d else z3.Not(c))
        if len(self.trail) > self.ex.max_depth:
            raise Unsupported("path depth > %d (unbounded symbolic loop without invariant?)" % self.ex.max_depth)
        return d

    def concretize(self, t):
        """value of an int term if the path condition forces a unique value, else fork over small domain is not attempted."""
        t = z3.simplify(t)
        if z3.is_int_value(t):
            return t.as_long()
        s = z3.Solver()
        s.set("timeout", 3000)
        s.add(self.pc)
        if s.check() != z3.sat:
            raise PathKilled()
        v = s.model().eval(t, model_completion=True)
        s.add(t != v)
        if s.check() == z3.unsat:
            return v.as_long()
        raise Unsupported("symbolic value used as a concrete index: %s" % t)

    # obligations
    def prove(self, name, goal, kind="vc", func=None):
        return self.ex.prove(self, name, goal, kind, func)

    def prove_or_assume(self, what, cond):
        """obligation when crash-freedom is part of the claim (safety on), assumption otherwise"""
        self.safety(what, cond)

    def safety(self, what, cond):
        if self.safety_on:
            c = z3.simplify(cond)
            if z3.is_true(c):
                return
            self.ex.prove(self, "safe.%s@%s" % (what, self.ex.cur_line), c, "vc", None)
        self.pc.append(cond)


_lin_cache = {}


def is_linear(f):
    """no product of two non-numeral terms, no division by a non-numeral, no uninterpreted nonlinear stuff"""
    k = f.get_id()
    if k in _lin_cache:
        return _lin_cache[k][1]
    ok = True
    stack = [f]
    seen = set()
    while stack:
        t = stack.pop()
        i = t.get_id()
        if i in seen:
            continue
        seen.add(i)
        if z3.is_quantifier(t):
            stack.append(t.body())
            continue
        if z3.is_app(t):
            kind = t.decl().kind()
            if kind == z3.Z3_OP_MUL:
                nn = [c for c in t.children() if not (z3.is_rational_value(c) or z3.is_int_value(c) or z3.is_algebraic_value(c))]
                if len(nn) > 1:
                    ok = False
                    break
            elif kind in (z3.Z3_OP_DIV, z3.Z3_OP_IDIV, z3.Z3_OP_MOD, z3.Z3_OP_POWER):
                c = t.children()[1]
                if not (z3.is_rational_value(c) or z3.is_int_value(c)):
                    ok = False
                    break
            stack.extend(t.children())
    _lin_cache[k] = (f, ok)  # keep the ast alive: ids are reused after garbage collection
    return ok


def has_quantifier(fs):
    seen = set()
    stack = list(fs)
    while stack:
        t = stack.pop()
        if z3.is_quantifier(t):
            return True
        i = t.get_id()
        if i in seen:
            continue
        seen.add(i)
        if z3.is_app(t):
            stack.extend(t.children())
    return False


def external_check(solver, timeout_s):
    """z3 command line binary with a hard time limit; returns z3.sat / z3.unsat / z3.unknown"""
    import subprocess
    import tempfile

    txt = solver.to_smt2()
    with tempfile.NamedTemporaryFile("w", suffix=".smt2", delete=False, dir="/dev/shm") as f:
        f.write(txt)
        path = f.name
    try:
        out = subprocess.run(["z3-new", "-T:%d" % int(timeout_s), "-smt2", path], capture_output=True, text=True, timeout=timeout_s + 10)
        first = (out.stdout.strip().splitlines() or ["unknown"])[0].strip()
    except Exception:
        first = "unknown"
    finally:
        try:
            os.unlink(path)
        except OSError:
            pass
    return {"sat": z3.sat, "unsat": z3.unsat}.get(first, z3.unknown)


class Linearizer:
    """sum-of-monomials normal form, then each product of >= 2 non-numeral factors (and each division by a
    non-numeral) is replaced by a fresh real constant, consistently."""

    def __init__(self):
        self.mon = {}
        self.cache = {}

    def __call__(self, f):
        t = self.elim_div(f)
        t = z3.simplify(t, som=True, flat=True, mul_to_power=False, hoist_mul=False, arith_lhs=False)
        return self.walk(t)

    def axioms(self):
        """den != 0 => den * inv(den) == 1 for every eliminated division (abstracted like everything else)"""
        out = []
        for den, inv in list(getattr(self, "invs", {}).values()):
            ax = z3.Implies(den != 0, den * inv == 1)
            out.append(self.walk(z3.simplify(ax, som=True, flat=True, mul_to_power=False, hoist_mul=False, arith_lhs=False)))
        return out

    def elim_div(self, t):
        self.dcache = getattr(self, "dcache", {})
        self.invs = getattr(self, "invs", {})
        k = t.get_id()
        if k in self.dcache:
            return self.dcache[k][1]
        if z3.is_quantifier(t) or not z3.is_app(t) or t.num_args() == 0:
            r = t
        else:
            ch = [self.elim_div(c) for c in t.children()]
            den = z3.simplify(ch[1], som=True) if t.decl().kind() == z3.Z3_OP_DIV else None
            if den is not None and (z3.is_rational_value(den) or z3.is_int_value(den)):
                r = ch[0] * (1 / den) if not z3.is_int_value(den) else ch[0] / z3.RealVal(den.as_long())
                r = z3.simplify(r) if False else r
            elif den is not None:
                key = den.get_id()
                if key not in self.invs:
                    self.invs[key] = (den, z3.Real("inv!%d" % len(self.invs)))
                r = ch[0] * self.invs[key][1]
            else:
                r = t.decl()(*ch)
        self.dcache[k] = (t, r)
        return r

    def fresh(self, key, sort):
        v = self.mon.get(key)
        if v is None:
            v = z3.Const("mono!%d" % len(self.mon), sort)
            self.mon[key] = v
        return v

    def walk(self, t):
        k = t.get_id()
        if k in self.cache:
            return self.cache[k][1]
        r = self._walk(t)
        self.cache[k] = (t, r)  # keep the ast alive: ids are reused after garbage collection
        return r

    def _walk(self, t):
        if z3.is_quantifier(t):
            return t  # left as is (no nonlinear handling under binders)
        if not z3.is_app(t) or t.num_args() == 0:
            return t
        kind = t.decl().kind()
        if kind == z3.Z3_OP_MUL:
            fac = []
            stack = list(t.children())
            while stack:
                c = stack.pop()
                if z3.is_app(c) and c.decl().kind() == z3.Z3_OP_MUL:
                    stack.extend(c.children())
                else:
                    fac.append(c)
            ch = [self.walk(c) for c in fac]
        else:
            ch = [self.walk(c) for c in t.children()]
        if kind == z3.Z3_OP_MUL:
            num = [c for c in ch if z3.is_rational_value(c) or z3.is_int_value(c)]
            rest = [c for c in ch if not (z3.is_rational_value(c) or z3.is_int_value(c))]
            if len(rest) >= 2:
                rest.sort(key=lambda c: c.get_id())
                key = ("mul",) + tuple(c.get_id() for c in rest)
                self.keep = getattr(self, "keep", [])
                self.keep.extend(rest)
                v = self.fresh(key, t.sort())
                out = v
                for c in num:
                    out = c * out
                return out
            out = None
            for c in ch:
                out = c if out is None else out * c
            return out
        if kind in (z3.Z3_OP_DIV, z3.Z3_OP_IDIV, z3.Z3_OP_MOD, z3.Z3_OP_POWER):
            if not (z3.is_rational_value(ch[1]) or z3.is_int_value(ch[1])):
                key = (kind, ch[0].get_id(), ch[1].get_id())
                self.keep = getattr(self, "keep", [])
                self.keep.extend(ch)
                return self.fresh(key, t.sort())
        return t.decl()(*ch)


class Explorer:
    """Runs a thunk over all paths (DFS by decision-trail replay) and collects merged obligations."""

    def __init__(self, func_name, safety_on=False, timeout_ms=None, max_paths=4000, max_depth=400):
        self.func = func_name
        self.pending = []
        self.obs = {}  # name -> Ob (merged over paths)
        self.seen = set()
        self.safety_on = safety_on
        self.timeout_ms = timeout_ms or (10000 if tier() == "quick" else 60000)
        self.max_paths = max_paths
        self.max_depth = max_depth
        self.paths = 0
        self.outcomes = []
        self.nsat = 0
        self.cur_line = 0

    def prove(self, st, name, goal, kind, func):
        goal = z3bool(goal) if not z3.is_expr(goal) else goal
        key = (name, hash(z3.And(*st.pc, z3.Not(goal)).sexpr()) if st.pc else hash(goal.sexpr()))
        if key in self.seen:
            return
        self.seen.add(key)
        t0 = time.time()
        if kind != "canary" and z3.is_true(z3.simplify(goal)):
            ob = self.obs.get(name)
            if ob is None:
                self.obs[name] = Ob(id=name, status="proved", backend="simplifier", time_s=0.0, func=func or self.func, kind=kind, smt2=goal.sexpr()[:200])
                self.obs[name].instances = 1
            else:
                ob.instances = getattr(ob, "instances", 1) + 1
            return
        if kind == "canary":
            self.ncanary = getattr(self, "ncanary", 0) + 1
            if self.ncanary > 6 and name in self.obs:
                return
        if kind == "canary" and st.hints:
            s = z3.Solver()
            s.set("timeout", 3000)
            s.add(st.pc)
            s.add(st.hints)
            if s.check() == z3.sat:
                ob = self.obs.get(name)
                if ob is None:
                    self.obs[name] = Ob(id=name, status="refuted", backend="z3", time_s=time.time() - t0, func=func or self.func, kind=kind)
                else:
                    ob.status = "refuted"
                return
        # stage 1: linear hypotheses only (fewer hypotheses: sound for 'unsat'); stage 2: everything
        r = None
        if kind != "canary" and not is_linear(goal):
            # stage 0: the goal alone, as an identity of polynomials (after division elimination and expansion)
            try:
                lz0 = Linearizer()
                g0 = z3.simplify(lz0(goal), som=True, arith_lhs=True)
                if z3.is_true(g0):
                    r = z3.unsat
                    s = None
                else:
                    s0 = z3.Solver()
                    s0.set("timeout", 2000)
                    s0.add(z3.Not(g0))
                    if s0.check() == z3.unsat:
                        r = z3.unsat
                        s = None
            except z3.Z3Exception:
                r = None
        lz, lpc = st.lin()
        if r is None and (st._lz_nl or not is_linear(goal)):
            # abstraction: every nonlinear monomial / division becomes one fresh variable (sound for 'unsat');
            # proves whatever follows from the hypotheses by linear combination
            try:
                s = z3.Solver()
                s.set("timeout", 5000)
                s.add(lpc)
                s.add(z3.Not(lz(goal)))
                for ax in lz.axioms():
                    s.add(ax)
                r = s.check()
            except z3.Z3Exception:
                r = None
            if r != z3.unsat:
                r = None
        prev = self.obs.get(name)
        if r is None and prev is not None and (prev.status == "refuted" or getattr(prev, "n_unknown", 0) >= 2):
            prev.instances = getattr(prev, "instances", 1) + 1
            return  # verdict for this obligation cannot get worse/more informative: do not burn the budget on every path
        hinted = None
        if r is None and st.hints and kind != "canary":
            hinted = self._hinted_counterexample(st, goal)
            if hinted is not None:
                r = z3.sat
                s = None
        # failure budget: once several obligations of this function have failed, the remaining ones get a short budget
        # (the verdict 'not all obligations discharged' is already determined; do not spend minutes per path)
        tmo = self.timeout_ms if getattr(self, "n_bad", 0) < 3 else 1500
        if r is None:
            s = z3.Solver()
            s.set("timeout", tmo)
            s.add(st.pc)
            s.add(z3.Not(goal))
            nonlin = st._lz_nl or not is_linear(goal)
            if kind == "canary" and nonlin:
                r = z3.unknown  # vacuity of nonlinear path conditions: hinted model search / linearised refutation only
            elif nonlin:
                # nonlinear + quantified queries can make the in-process solver ignore its timeout: run the z3 binary
                # under a hard wall-clock limit instead (same formula, SMT-LIB text)
                r = external_check(s, max(2, tmo // 1000))
            else:
                r = s.check()
        dt = time.time() - t0
        status = "proved" if r == z3.unsat else ("refuted" if r == z3.sat else "unknown")
        backend = "z3"
        detail = ""
        witness = None
        if r == z3.sat:
            from .common import model_str, model_json

            try:
                mdl = hinted if hinted is not None else s.model()
                detail = model_str(mdl)
                witness = model_json(mdl)
            except (z3.Z3Exception, AttributeError):
                detail = "sat (external z3 run; no model extracted)"
        elif r == z3.unknown and s is not None and st.hints and kind == "canary" and self._hinted_counterexample(st, goal) is not None:
            from .common import model_str, model_json

            mdl = self._hinted_counterexample(st, goal)
            status = "refuted"
            backend = "z3(hinted model search)"
            detail = model_str(mdl)
            witness = model_json(mdl)
        elif r == z3.unknown and getattr(self, "n_bad", 0) >= 3:
            detail = "not discharged within the reduced budget (several obligations of this function already failed)"
        elif r == z3.unknown:
            from .common import cvc5_check_smt2

            if s is None:
                s = z3.Solver()
                s.add(st.pc)
                s.add(z3.Not(goal))
            r2 = cvc5_check_smt2(s.to_smt2(), timeout_s=max(10, self.timeout_ms // 1000))
            backend = "z3+cvc5"
            if r2 == "unsat":
                status, backend = "proved", "cvc5"
            elif r2 == "sat":
                status, detail = "refuted", "cvc5: sat (z3: unknown)"
            else:
                try:
                    why = s.reason_unknown()
                except z3.Z3Exception:
                    why = "timeout"
                detail = "z3: %s; cvc5: %s" % (why or "timeout", r2)
        if status != "proved" and kind != "canary":
            self.n_bad = getattr(self, "n_bad", 0) + 1
        ob = self.obs.get(name)
        if ob is None:
            ob = Ob(id=name, status=status, backend=backend, time_s=dt, detail=detail, witness=witness,
                    func=func or self.func, kind=kind)
            try:
                ob.smt2 = s.to_smt2()[:1200] if s is not None else goal.sexpr()[:600]
            except Exception:
                pass
            ob.instances = 1
            ob.n_unknown = 1 if status == "unknown" else 0
            self.obs[name] = ob
        else:
            ob.instances = getattr(ob, "instances", 1) + 1
            ob.time_s += dt
            if status == "unknown":
                ob.n_unknown = getattr(ob, "n_unknown", 0) + 1
            rank = {"proved": 0, "unknown": 1, "error": 2, "refuted": 3}
            if rank[status] > rank[ob.status]:
                ob.status, ob.detail, ob.witness, ob.backend = status, detail, witness, backend

    def _hinted_counterexample(self, st, goal):
        """a model of pc & not goal found after grounding the nonlinear part with the hints (a genuine model)"""
        key = ("hcx", id(st), goal.get_id())
        c = getattr(self, "_hcx", {})
        if key in c:
            return c[key][1]
        s2 = z3.Solver()
        s2.set("timeout", 5000)
        s2.add(st.pc)
        s2.add(z3.Not(goal))
        s2.add(st.hints)
        mdl = s2.model() if s2.check() == z3.sat else None
        c[key] = (goal, mdl)
        self._hcx = c
        return mdl

    def explore(self, thunk):
        """thunk(state) -> value; may raise Python exceptions (recorded as outcomes)."""
        global CUR
        self.pending = [[]]
        while self.pending:
            trail = self.pending.pop()
            self.paths += 1
            if self.paths > self.max_paths:
                raise Unsupported("more than %d paths in %s" % (self.max_paths, self.func))
            st = State(self, trail)
            CUR = st
            try:
                v = thunk(st)
                self.outcomes.append(("return", v, st))
            except PathKilled:
                pass
            except (ReturnSig, BreakSig, ContinueSig) as e:
                raise Unsupported("control signal escaped: %r" % e)
            except Unsupported:
                raise
            except z3.Z3Exception as e:
                raise Unsupported("z3 error: %s" % e)
            except Exception as e:  # exception of the program under verification
                self.outcomes.append(("raise", e, st))
            finally:
                CUR = None
        return self.outcomes

    def results(self):
        return list(self.obs.values())


# ---------------------------------------------------------------------------------------------
# interpreted functions / classes


EXECUTED = set()  # (file, qualified name) of every function of the tree under verification whose body was interpreted in this process


def executed_functions():
    """source spans and hashes of the functions whose bodies were executed from the real source (callers' obligations cover them inline)"""
    from .common import func_source_info
    out = []
    for rp, qn in sorted(EXECUTED):
        try:
            info = func_source_info(rp, qn)
            info["mode"] = "body executed from source"
            out.append(info)
        except Exception:
            pass
    return out


def _is_harness_obj(x):
    """symbolic stand-ins defined by the verifier (engine/contracts/props), excluding the interpreter's own program-level values"""
    t = type(x)
    mod = (getattr(t, "__module__", "") or "").split(".")[0]
    return mod in ("engine", "contracts", "props") and not isinstance(x, (SR, SB, FuncVal, Obj))


class FuncVal:
    def __init__(self, node, module, closure=None, qualname=None, cls=None):
        self.node = node
        self.module = module  # ModuleCtx
        self.closure = closure  # Env or None
        self.qualname = qualname or node.name
        self.cls = cls

    def __repr__(self):
        return "<FuncVal %s>" % self.qualname


class BoundMethod:
    def __init__(self, func, self_obj):
        self.func = func
        self.self_obj = self_obj


class ClassVal:
    def __init__(self, node, module):
        self.node = node
        self.module = module
        self.name = node.name
        self.methods = {}
        self.props = {}
        for n in node.body:
            if isinstance(n, ast.FunctionDef):
                fv = FuncVal(n, module, None, "%s.%s" % (node.name, n.name), self)
                if any(isinstance(d, ast.Name) and d.id == "property" for d in n.decorator_list):
                    self.props[n.name] = fv
                else:
                    self.methods[n.name] = fv
        self.bases = [b for b in node.bases]

    def __repr__(self):
        return "<ClassVal %s>" % self.name


class Obj:
    """instance of an interpreted class (concrete identity)"""

    def __init__(self, cls):
        object.__setattr__(self, "_cls", cls)
        object.__setattr__(self, "_f", {})

    def __repr__(self):
        return "<Obj %s %s>" % (self._cls.name, list(self._f))


class Env:
    def __init__(self, parent=None):
        self.vars = {}
        self.parent = parent

    def lookup(self, name):
        e = self
        while e is not None:
            if name in e.vars:
                return e.vars[name]
            e = e.parent
        raise KeyError(name)

    def has(self, name):
        e = self
        while e is not None:
            if name in e.vars:
                return True
            e = e.parent
        return False


class ModuleCtx:
    """Source file of the tree under verification + the names its code may use (shims)."""

    def __init__(self, relpath, globals_=None):
        self.relpath = relpath
        self.path = os.path.join(REPO, relpath)
        self.src = open(self.path).read()
        self.tree = ast.parse(self.src)
        self.globals = dict(globals_ or {})
        self.defs = {}
        for n in self.tree.body:
            if isinstance(n, ast.FunctionDef):
                self.defs[n.name] = FuncVal(n, self, None, n.name)
            elif isinstance(n, ast.ClassDef):
                self.defs[n.name] = ClassVal(n, self)

    @classmethod
    def from_source(cls, relpath, src, globals_=None):
        """module context over generated source text (e.g. the Python rendering of C++ functions)"""
        self = cls.__new__(cls)
        self.relpath = relpath
        self.path = None
        self.src = src
        self.tree = ast.parse(src)
        self.globals = dict(globals_ or {})
        self.defs = {}
        for n in self.tree.body:
            if isinstance(n, ast.FunctionDef):
                self.defs[n.name] = FuncVal(n, self, None, n.name)
            elif isinstance(n, ast.ClassDef):
                self.defs[n.name] = ClassVal(n, self)
        return self

    def get(self, qualname):
        parts = qualname.split(".")
        v = self.defs.get(parts[0])
        if v is None:
            raise Unsupported("%s not found in %s (renamed/removed)" % (qualname, self.relpath))
        for p in parts[1:]:
            if isinstance(v, ClassVal):
                if p in v.methods:
                    v = v.methods[p]
                elif p in v.props:
                    v = v.props[p]
                else:
                    raise Unsupported("%s not found in %s" % (qualname, self.relpath))
            elif isinstance(v, FuncVal):
                # nested function definition
                found = None
                for n in ast.walk(v.node):
                    if isinstance(n, ast.FunctionDef) and n.name == p and n is not v.node:
                        found = n
                        break
                if found is None:
                    raise Unsupported("%s not found in %s" % (qualname, self.relpath))
                v = FuncVal(found, self, None, qualname)
        return v


SAFE_BUILTINS = {k: getattr(builtins, k) for k in (
    "ValueError", "TypeError", "KeyError", "IndexError", "Exception", "RuntimeError", "ZeroDivisionError",
    "AttributeError", "NotImplementedError", "AssertionError", "StopIteration",
    "isinstance", "tuple", "str", "repr", "dict", "zip", "enumerate", "reversed", "print", "id", "type", "hasattr", "getattr",
    "bool", "object", "super", "frozenset", "map", "slice", "iter", "next", "callable")}


class Interp:
    """AST interpreter. `contracts`: qualname -> callable(interp, state, args, kwargs) used instead of the body.
    `loops`: (func qualname, ordinal) -> loop spec for symbolic loops."""

    def __init__(self, state, contracts=None, loops=None, builtins_=None, call_hook=None):
        self.st = state
        self.contracts = contracts or {}
        self.loops = loops or {}
        self.builtins = dict(SAFE_BUILTINS)
        self.builtins.update(default_builtins())
        if builtins_:
            self.builtins.update(builtins_)
        self.call_counts = {}
        self.exact_rationals = False
        self.func_stack = []
        self.call_hook = call_hook

    # ---- names
    def lookup(self, env, name, module):
        try:
            return env.lookup(name)
        except KeyError:
            pass
        if name in module.globals:
            return module.globals[name]
        if name in module.defs:
            return module.defs[name]
        if name in self.builtins:
            return self.builtins[name]
        raise Unsupported("unknown name %r in %s" % (name, module.relpath))

    # ---- calls
    def call(self, f, args, kwargs=None):
        kwargs = kwargs or {}
        if isinstance(f, BoundMethod):
            return self.call(f.func, [f.self_obj] + list(args), kwargs)
        if isinstance(f, FuncVal):
            qn = f.qualname
            key = "%s:%s" % (f.module.relpath, qn)
            if key in self.contracts and not (self.func_stack and self.func_stack[-1][0] == "__top__" + key):
                k = self.call_counts.get(key, 0)
                self.call_counts[key] = k + 1
                bound = self.bind(f, args, kwargs, site="call[%s#%d]" % (qn, k))
                return self.contracts[key](self, self.st, bound, "call[%s#%d]" % (qn, k))
            return self.run_func(f, args, kwargs)
        if isinstance(f, ClassVal):
            return self.instantiate(f, args, kwargs)
        if callable(f):
            try:
                return f(*args, **kwargs)
            except (TypeError, AttributeError) as e:
                # a native callable that cannot digest a symbolic stand-in is a limit of the executor, not an exception of the program
                hs = [a for a in list(args) + list(kwargs.values()) if _is_harness_obj(a)]
                if hs and not _is_harness_obj(f):
                    raise Unsupported("harness error: %s(%s): %s" % (getattr(f, "__name__", f), type(hs[0]).__name__, e))
                raise
        raise Unsupported("call of non-callable %r" % (f,))

    def instantiate(self, cls, args, kwargs):
        alloc = self.st.ghost.get("alloc_hook")
        o = alloc(cls) if alloc is not None else None
        if o is None:
            o = Obj(cls)
        init = self.find_method(cls, "__init__")
        if init is not None:
            self.call(init, [o] + list(args), kwargs)
        elif args or kwargs:
            raise TypeError("%s() takes no arguments" % cls.name)
        return o

    def find_method(self, cls, name):
        c = cls
        while c is not None:
            if name in c.methods:
                return c.methods[name]
            nxt = None
            for b in c.bases:
                if isinstance(b, ast.Name) and b.id in c.module.defs and isinstance(c.module.defs[b.id], ClassVal):
                    nxt = c.module.defs[b.id]
                    break
            c = nxt
        return None

    def find_prop(self, cls, name):
        c = cls
        while c is not None:
            if name in c.props:
                return c.props[name]
            nxt = None
            for b in c.bases:
                if isinstance(b, ast.Name) and b.id in c.module.defs and isinstance(c.module.defs[b.id], ClassVal):
                    nxt = c.module.defs[b.id]
                    break
            c = nxt
        return None

    def bind(self, f, args, kwargs, site=""):
        """Bind arguments to the callee's real signature (read from its AST): the arity obligation."""
        a = f.node.args
        params = [p.arg for p in a.posonlyargs + a.args]
        defaults = a.defaults
        bound = {}
        if len(args) > len(params) and a.vararg is None:
            raise TypeError("%s() takes %d positional arguments but %d were given" % (f.node.name, len(params), len(args)))
        for p, v in zip(params, args):
            bound[p] = v
        if a.vararg is not None:
            bound[a.vararg.arg] = tuple(args[len(params):])
        kwonly = [p.arg for p in a.kwonlyargs]
        extra = {}
        for k, v in kwargs.items():
            if k in bound:
                raise TypeError("%s() got multiple values for argument %r" % (f.node.name, k))
            if k in params or k in kwonly:
                bound[k] = v
            elif a.kwarg is not None:
                extra[k] = v
            else:
                raise TypeError("%s() got an unexpected keyword argument %r" % (f.node.name, k))
        if a.kwarg is not None:
            bound[a.kwarg.arg] = extra
        nd = len(defaults)
        denv = Env()
        for i, p in enumerate(params):
            if p not in bound:
                j = i - (len(params) - nd)
                if j < 0:
                    raise TypeError("%s() missing required positional argument: %r" % (f.node.name, p))
                bound[p] = self.eval(defaults[j], denv, f.module)
        for p, d in zip(kwonly, a.kw_defaults):
            if p not in bound:
                if d is None:
                    raise TypeError("%s() missing keyword-only argument %r" % (f.node.name, p))
                bound[p] = self.eval(d, denv, f.module)
        return bound

    def run_func(self, f, args, kwargs, top=False):
        rp = getattr(f.module, "relpath", None)
        if rp and "<" not in f.qualname:
            EXECUTED.add((rp, f.qualname))
        bound = self.bind(f, args, kwargs)
        env = Env(f.closure)
        env.vars.update(bound)
        if not getattr(f.node, "_loops_numbered", False):
            self.number_loops(f.node)
            f.node._loops_numbered = True
        self.func_stack.append((f.qualname, [0], f, env))
        try:
            self.exec_block(f.node.body, env, f.module)
        except ReturnSig as r:
            return r.value
        finally:
            self.func_stack.pop()
        return None

    # ---- statements
    def exec_block(self, stmts, env, module):
        for s in stmts:
            self.exec(s, env, module)

    def exec(self, s, env, module):
        self.st.ex.cur_line = getattr(s, "lineno", 0)
        m = getattr(self, "s_" + type(s).__name__, None)
        if m is None:
            raise Unsupported("statement %s at %s:%d" % (type(s).__name__, module.relpath, s.lineno))
        return m(s, env, module)

    def s_Expr(self, s, env, module):
        if isinstance(s.value, ast.Constant) and isinstance(s.value.value, str):
            return
        self.eval(s.value, env, module)

    def s_Pass(self, s, env, module):
        pass

    def s_Import(self, s, env, module):
        for a in s.names:
            nm = (a.asname or a.name).split(".")[0]
            env.vars[nm] = self.lookup(env, nm, module)

    def s_ImportFrom(self, s, env, module):
        for a in s.names:
            nm = a.asname or a.name
            env.vars[nm] = self.lookup(env, nm, module)

    def s_Return(self, s, env, module):
        raise ReturnSig(self.eval(s.value, env, module) if s.value is not None else None)

    def s_Break(self, s, env, module):
        raise BreakSig()

    def s_Continue(self, s, env, module):
        raise ContinueSig()

    def s_Raise(self, s, env, module):
        if s.exc is None:
            raise Unsupported("bare raise")
        e = self.eval(s.exc, env, module)
        if isinstance(e, type) and issubclass(e, BaseException):
            e = e()
        if isinstance(e, Obj):
            raise InterpretedException(e)
        raise e

    def s_Assert(self, s, env, module):
        c = self.truth(self.eval(s.test, env, module))
        if not c:
            raise AssertionError()

    def s_FunctionDef(self, s, env, module):
        outer = self.func_stack[-1][0] if self.func_stack else ""
        env.vars[s.name] = FuncVal(s, module, env, (outer + "." if outer else "") + s.name)

    def s_Assign(self, s, env, module):
        v = self.eval(s.value, env, module)
        for t in s.targets:
            self.assign(t, v, env, module)

    def s_AnnAssign(self, s, env, module):
        if s.value is not None:
            self.assign(s.target, self.eval(s.value, env, module), env, module)

    def s_AugAssign(self, s, env, module):
        t = s.target
        if isinstance(t, ast.Name):
            cur_v = self.lookup(env, t.id, module)
            nv = self.inplace(s.op, cur_v, self.eval(s.value, env, module))
            env.vars[t.id] = nv if not self._declared_outer(env, t.id) else nv
        elif isinstance(t, ast.Subscript):
            base = self.eval(t.value, env, module)
            idx = self.eval_index(t.slice, env, module)
            cur_v = self.getitem(base, idx)
            nv = self.binop(s.op, cur_v, self.eval(s.value, env, module))
            self.setitem(base, idx, nv)
        elif isinstance(t, ast.Attribute):
            base = self.eval(t.value, env, module)
            cur_v = self.getattr(base, t.attr)
            self.setattr(base, t.attr, self.inplace(s.op, cur_v, self.eval(s.value, env, module)))
        else:
            raise Unsupported("augassign target")

    def _declared_outer(self, env, name):
        return False

    def inplace(self, op, a, b):
        import numpy as np

        if isinstance(a, np.ndarray):
            r = self.binop(op, a, b)
            a[...] = r
            return a
        h = getattr(a, "_inplace", None)
        if h is not None:
            return h(type(op).__name__, b)
        if isinstance(a, list) and isinstance(op, ast.Add):
            a.extend(b)
            return a
        if isinstance(a, set) and isinstance(op, ast.Sub):
            a.difference_update(b)
            return a
        if isinstance(a, set) and isinstance(op, ast.BitOr):
            a.update(b)
            return a
        return self.binop(op, a, b)

    def assign(self, t, v, env, module):
        if isinstance(t, ast.Name):
            env.vars[t.id] = v
        elif isinstance(t, (ast.Tuple, ast.List)):
            vals = self.unpack(v, len(t.elts))
            for tt, vv in zip(t.elts, vals):
                self.assign(tt, vv, env, module)
        elif isinstance(t, ast.Subscript):
            base = self.eval(t.value, env, module)
            idx = self.eval_index(t.slice, env, module)
            self.setitem(base, idx, v)
        elif isinstance(t, ast.Attribute):
            base = self.eval(t.value, env, module)
            self.setattr(base, t.attr, v)
        else:
            raise Unsupported("assignment target %s" % type(t).__name__)

    def unpack(self, v, n):
        h = getattr(v, "_unpack", None)
        if h is not None:
            return h(n)
        vals = list(v)
        if len(vals) != n:
            raise ValueError("cannot unpack %d values into %d targets" % (len(vals), n))
        return vals

    def s_If(self, s, env, module):
        if self.truth(self.eval(s.test, env, module)):
            self.exec_block(s.body, env, module)
        else:
            self.exec_block(s.orelse, env, module)

    def s_Try(self, s, env, module):
        try:
            try:
                self.exec_block(s.body, env, module)
            except (ReturnSig, BreakSig, ContinueSig, PathKilled, Unsupported):
                raise
            except Exception as e:
                for h in s.handlers:
                    if h.type is None:
                        match = True
                    else:
                        ty = self.eval(h.type, env, module)
                        match = isinstance(e, ty)
                    if match:
                        if h.name:
                            env.vars[h.name] = e
                        self.exec_block(h.body, env, module)
                        break
                else:
                    raise
            else:
                self.exec_block(s.orelse, env, module)
        finally:
            if s.finalbody:
                self.exec_block(s.finalbody, env, module)

    def next_loop_id(self, node=None):
        """static ordinal of the loop statement within its function (source order, nested defs excluded)"""
        qn, ctr = self.func_stack[-1][0], self.func_stack[-1][1]
        qn = qn.replace("__top__", "").split(":")[-1]
        if node is not None:
            o = getattr(node, "_loop_ord", None)
            if o is not None:
                return (qn, o)
        ctr[0] += 1
        return (qn, ctr[0])

    @staticmethod
    def number_loops(fnode):
        n = [0]

        def rec(stmts):
            for s in stmts:
                if isinstance(s, (ast.FunctionDef, ast.ClassDef, ast.Lambda)):
                    continue
                if isinstance(s, (ast.For, ast.While)):
                    n[0] += 1
                    s._loop_ord = n[0]
                for fld in ("body", "orelse", "finalbody", "handlers"):
                    sub = getattr(s, fld, None)
                    if sub:
                        rec([h for h in sub] if fld != "handlers" else [x for h in sub for x in h.body])

        rec(fnode.body)

    def s_While(self, s, env, module):
        lid = self.next_loop_id(s)
        spec = self.loops.get(lid)
        if spec is not None:
            return spec.run_while(self, s, env, module, lid)
        n = 0
        while self.truth(self.eval(s.test, env, module)):
            n += 1
            if n > 64:
                raise Unsupported("while loop without invariant exceeded 64 concrete iterations at %s:%d" % (module.relpath, s.lineno))
            try:
                self.exec_block(s.body, env, module)
            except BreakSig:
                return
            except ContinueSig:
                continue
        self.exec_block(s.orelse, env, module)

    def s_For(self, s, env, module):
        lid = self.next_loop_id(s)
        it = self.eval(s.iter, env, module)
        spec = self.loops.get(lid)
        if spec is not None:
            return spec.run_for(self, s, it, env, module, lid)
        if getattr(it, "_symbolic_iter", False):
            raise Unsupported("loop #%d of %s over a symbolic collection needs an invariant (%s:%d)" % (
                lid[1], lid[0], module.relpath, s.lineno))
        n = 0
        for v in it:
            n += 1
            if n > 5000:
                raise Unsupported("concrete loop too long")
            self.assign(s.target, v, env, module)
            try:
                self.exec_block(s.body, env, module)
            except BreakSig:
                return
            except ContinueSig:
                continue
        self.exec_block(s.orelse, env, module)

    def s_Delete(self, s, env, module):
        for t in s.targets:
            if isinstance(t, ast.Name):
                del env.vars[t.id]
            elif isinstance(t, ast.Subscript):
                base = self.eval(t.value, env, module)
                del base[self.eval_index(t.slice, env, module)]
            else:
                raise Unsupported("del target")

    # ---- expressions
    def truth(self, v):
        if isinstance(v, (SB, SR)):
            return bool(v)
        h = getattr(v, "_truth", None)
        if h is not None:
            return self.truth(h())
        if isinstance(v, Obj):
            ln = self.find_method(v._cls, "__len__")
            if ln is not None:
                return self.truth(self.call(ln, [v]) != 0)
            return True
        import numpy as np

        if isinstance(v, np.ndarray) and v.dtype == object and v.size == 1:
            return self.truth(v.reshape(-1)[0])
        return bool(v)

    def eval(self, e, env, module):
        m = getattr(self, "e_" + type(e).__name__, None)
        if m is None:
            raise Unsupported("expression %s at %s:%d" % (type(e).__name__, module.relpath, getattr(e, "lineno", 0)))
        return m(e, env, module)

    def e_Constant(self, e, env, module):
        return e.value

    def e_Name(self, e, env, module):
        return self.lookup(env, e.id, module)

    def e_Tuple(self, e, env, module):
        return tuple(self.eval_list(e.elts, env, module))

    def e_List(self, e, env, module):
        return self.eval_list(e.elts, env, module)

    def eval_list(self, elts, env, module):
        out = []
        for x in elts:
            if isinstance(x, ast.Starred):
                out.extend(self.eval(x.value, env, module))
            else:
                out.append(self.eval(x, env, module))
        return out

    def e_Set(self, e, env, module):
        vals = self.eval_list(e.elts, env, module)
        if any(isinstance(v, SR) for v in vals):
            from .heap import SymSet

            return SymSet.of(vals)
        return set(vals)

    def e_Dict(self, e, env, module):
        d = {}
        for k, v in zip(e.keys, e.values):
            if k is None:
                d.update(self.eval(v, env, module))
            else:
                d[self.eval(k, env, module)] = self.eval(v, env, module)
        return d

    def e_JoinedStr(self, e, env, module):
        """f-string: concrete parts are formatted as CPython does; a symbolic part (only met in messages) is shown as a placeholder"""
        out = []
        for v in e.values:
            if isinstance(v, ast.Constant):
                out.append(str(v.value))
                continue
            if isinstance(v, ast.FormattedValue):
                try:
                    val = self.eval(v.value, env, module)
                except Unsupported:
                    out.append("<?>")
                    continue
                if is_sym(val) or _is_harness_obj(val):
                    out.append("<symbolic>")
                    continue
                if v.conversion == 114:
                    val = repr(val)
                elif v.conversion == 115:
                    val = str(val)
                elif v.conversion == 97:
                    val = ascii(val)
                spec = self.e_JoinedStr(v.format_spec, env, module) if v.format_spec is not None else ""
                out.append(format(val, spec))
                continue
            out.append("<?>")
        return "".join(out)

    def e_Lambda(self, e, env, module):
        fd = ast.FunctionDef(name="<lambda>", args=e.args, body=[ast.Return(value=e.body, lineno=e.lineno, col_offset=0)],
                             decorator_list=[], lineno=e.lineno, col_offset=0)
        fv = FuncVal(fd, module, env, "<lambda>")
        interp = self

        def native(*a, **k):
            return interp.run_func(fv, list(a), k)

        native._funcval = fv
        return native

    def e_IfExp(self, e, env, module):
        if self.truth(self.eval(e.test, env, module)):
            return self.eval(e.body, env, module)
        return self.eval(e.orelse, env, module)

    def e_BoolOp(self, e, env, module):
        if isinstance(e.op, ast.And):
            v = True
            for x in e.values:
                v = self.eval(x, env, module)
                if not self.truth(v):
                    return v
            return v
        v = False
        for x in e.values:
            v = self.eval(x, env, module)
            if self.truth(v):
                return v
        return v

    def e_UnaryOp(self, e, env, module):
        v = self.eval(e.operand, env, module)
        if isinstance(e.op, ast.Not):
            if isinstance(v, SB):
                return mkbool(z3.Not(v.t))
            return not self.truth(v)
        if isinstance(e.op, ast.USub):
            return -v
        if isinstance(e.op, ast.UAdd):
            return +v
        if isinstance(e.op, ast.Invert):
            return ~v
        raise Unsupported("unary op")

    def e_BinOp(self, e, env, module):
        return self.binop(e.op, self.eval(e.left, env, module), self.eval(e.right, env, module))

    def binop(self, op, a, b):
        import operator as o

        if isinstance(op, ast.Div) and not is_sym(a) and not is_sym(b) and isinstance(a, (int, float)) and isinstance(b, (int, float)):
            if b == 0:
                raise ZeroDivisionError("division by zero")
            if type(a) is int and type(b) is int and a % b != 0 and self.exact_rationals:
                return SR(z3.RealVal("%d/%d" % (a, b)))  # L-FLOAT: a literal quotient like 1 / 3 denotes the rational number
        f = {ast.Add: o.add, ast.Sub: o.sub, ast.Mult: o.mul, ast.Div: o.truediv, ast.Mod: o.mod, ast.Pow: o.pow,
             ast.FloorDiv: o.floordiv, ast.BitAnd: o.and_, ast.BitOr: o.or_, ast.MatMult: o.matmul,
             ast.BitXor: o.xor, ast.LShift: o.lshift, ast.RShift: o.rshift}.get(type(op))
        if f is None:
            raise Unsupported("binary op %s" % type(op).__name__)
        if isinstance(op, ast.Mod) and isinstance(a, str):
            return "<fmt>"
        return f(a, b)

    def e_Compare(self, e, env, module):
        left = self.eval(e.left, env, module)
        result = True
        for op, rn in zip(e.ops, e.comparators):
            right = self.eval(rn, env, module)
            r = self.compare(op, left, right)
            if r is False:
                return False
            if r is True:
                pass
            elif result is True:
                result = r
            else:
                result = mkbool(z3.And(z3bool(result), z3bool(r))) if is_sym(result) or is_sym(r) else (result & r)
            left = right
        return result

    def compare(self, op, a, b):
        import operator as o

        if isinstance(op, ast.Is):
            return self.identical(a, b)
        if isinstance(op, ast.IsNot):
            r = self.identical(a, b)
            return mkbool(z3.Not(r.t)) if isinstance(r, SB) else (not r)
        if isinstance(op, ast.In):
            return self.contains(b, a)
        if isinstance(op, ast.NotIn):
            r = self.contains(b, a)
            return mkbool(z3.Not(r.t)) if isinstance(r, SB) else (not r)
        if isinstance(op, (ast.Eq, ast.NotEq)) and (isinstance(a, Obj) or isinstance(b, Obj)):
            r = a is b
            return r if isinstance(op, ast.Eq) else not r
        if isinstance(op, (ast.Eq, ast.NotEq)) and (hasattr(a, "_identical") or hasattr(b, "_identical")):
            # classes without __eq__: == is identity
            r = a._identical(b) if hasattr(a, "_identical") else b._identical(a)
            if isinstance(op, ast.Eq):
                return r
            return mkbool(z3.Not(r.t)) if isinstance(r, SB) else (not r)
        f = {ast.Eq: o.eq, ast.NotEq: o.ne, ast.Lt: o.lt, ast.LtE: o.le, ast.Gt: o.gt, ast.GtE: o.ge}[type(op)]
        return f(a, b)

    def identical(self, a, b):
        if a is None or b is None:
            h = getattr(a if b is None else b, "_is_none", None)
            if h is not None:
                return h()
            return a is b
        if isinstance(a, (bool,)) or isinstance(b, bool):
            if isinstance(a, SB) or isinstance(b, SB):
                return mkbool(z3bool(a) == z3bool(b))
            return a is b
        h = getattr(a, "_identical", None)
        if h is not None:
            return h(b)
        return a is b

    def contains(self, container, item):
        h = getattr(container, "_contains", None)
        if h is not None:
            return h(item)
        if isinstance(container, (list, tuple)) and (is_sym(item) or any(is_sym(x) for x in container)):
            r = False
            for x in container:
                c = (x == item)
                if c is True:
                    return True
                if c is not False:
                    r = c if r is False else mkbool(z3.Or(z3bool(r), z3bool(c)))
            return r
        if isinstance(container, (set, frozenset, dict)) and is_sym(item):
            return self.contains(list(container), item)
        return item in container

    def e_Attribute(self, e, env, module):
        if isinstance(e.value, ast.Call) and isinstance(e.value.func, ast.Name) and e.value.func.id == "super" and not e.value.args:
            return self.super_attr(e.attr)
        return self.getattr(self.eval(e.value, env, module), e.attr)

    def super_attr(self, attr):
        """super().attr inside a method of an interpreted class: the method of the nearest base class that defines it"""
        for ent in reversed(self.func_stack):
            if len(ent) >= 4 and ent[2].cls is not None:
                f, env = ent[2], ent[3]
                selfname = f.node.args.args[0].arg
                selfobj = env.lookup(selfname)
                c = f.cls
                for b in c.bases:
                    if isinstance(b, ast.Name) and b.id in c.module.defs and isinstance(c.module.defs[b.id], ClassVal):
                        m = self.find_method(c.module.defs[b.id], attr)
                        if m is not None:
                            return BoundMethod(m, selfobj)
                if attr == "__init__":
                    return lambda *a, **k: None
                raise Unsupported("super().%s not found" % attr)
        raise Unsupported("super() outside a method")

    def getattr(self, base, attr):
        if isinstance(base, Obj):
            if attr in base._f:
                return base._f[attr]
            p = self.find_prop(base._cls, attr)
            if p is not None:
                return self.call(p, [base])
            m = self.find_method(base._cls, attr)
            if m is not None:
                return BoundMethod(m, base)
            h = base._f.get("__native__")
            if h is not None and hasattr(h, attr):
                return getattr(h, attr)
            raise AttributeError("%s has no attribute %r" % (base._cls.name, attr))
        if isinstance(base, ClassVal):
            if attr in base.methods:
                return base.methods[attr]
            raise AttributeError(attr)
        h = getattr(base, "_getattr", None)
        if h is not None:
            return h(self, attr)
        if base is None:
            raise AttributeError("'NoneType' object has no attribute %r" % attr)
        import numpy as np

        if isinstance(base, np.ndarray) and base.dtype == object and attr in ("any", "all"):
            # one symbolic boolean for the whole array instead of one fork per element
            elems = [(x != 0) if isinstance(x, SR) else (x if isinstance(x, SB) else bool(x)) for x in base.reshape(-1)]
            fn = self.builtins["any" if attr == "any" else "all"]
            return lambda axis=None: fn(elems)
        try:
            return getattr(base, attr)
        except AttributeError as e:
            # a stand-in of the verifier that does not model this member: a limit of the executor, not an AttributeError of the program
            if _is_harness_obj(base):
                raise Unsupported("harness error: %s does not model .%s" % (type(base).__name__, attr))
            raise

    def setattr(self, base, attr, v):
        if isinstance(base, Obj):
            base._f[attr] = v
            return
        h = getattr(base, "_setattr", None)
        if h is not None:
            return h(self, attr, v)
        setattr(base, attr, v)

    def e_Subscript(self, e, env, module):
        base = self.eval(e.value, env, module)
        idx = self.eval_index(e.slice, env, module)
        return self.getitem(base, idx)

    def eval_index(self, sl, env, module):
        if isinstance(sl, ast.Slice):
            return slice(self.eval(sl.lower, env, module) if sl.lower else None,
                         self.eval(sl.upper, env, module) if sl.upper else None,
                         self.eval(sl.step, env, module) if sl.step else None)
        if isinstance(sl, ast.Tuple):
            return tuple(self.eval_index(x, env, module) for x in sl.elts)
        return self.eval(sl, env, module)

    def getitem(self, base, idx):
        h = getattr(base, "_getitem", None)
        if h is not None:
            return h(idx)
        import numpy as np

        if isinstance(idx, SR):
            return self.sym_index(base, idx)
        if isinstance(base, np.ndarray) and isinstance(idx, tuple) and any(isinstance(i, SR) for i in idx):
            idx = tuple(self.st.concretize(i.t) if isinstance(i, SR) else i for i in idx)
        if base is None:
            raise TypeError("'NoneType' object is not subscriptable")
        return base[idx]

    def sym_index(self, base, idx):
        """indexing a concrete sequence with a symbolic int: safety obligation + ite chain"""
        n = len(base)
        self.st.safety("index", z3.And(idx.t >= -n, idx.t < n))
        vals = list(base)
        if n == 0:
            raise IndexError("index out of range")
        import numpy as np

        if all(isinstance(v, (int, float, SR, np.integer, np.floating)) for v in vals):
            allint = all(isinstance(v, (int, np.integer)) or (isinstance(v, SR) and v.is_int) for v in vals)
            def conv(v):
                t = z3num(v)
                return t if allint or not z3.is_int(t) else z3.ToReal(t)
            t = conv(vals[-1])
            for k in range(n - 2, -1, -1):
                t = z3.If(z3.Or(idx.t == k, idx.t == k - n), conv(vals[k]), t)
            return SR(t)
        # generic: fork on the index value
        for k in range(n):
            if self.st.fork(z3.Or(idx.t == k, idx.t == k - n)):
                return vals[k]
        raise PathKilled()

    def setitem(self, base, idx, v):
        h = getattr(base, "_setitem", None)
        if h is not None:
            return h(idx, v)
        import numpy as np

        if isinstance(base, np.ndarray) and base.dtype != object and (is_sym(v) or (isinstance(v, np.ndarray) and v.dtype == object)):
            raise Unsupported("symbolic value stored into a non-object numpy array (array was created outside the shim)")
        if isinstance(idx, np.ndarray) and idx.dtype == object and idx.size and all(isinstance(x, (SB, bool, np.bool_)) for x in idx.reshape(-1)):
            idx = np.array([bool(x) for x in idx.reshape(-1)], dtype=bool).reshape(idx.shape)  # forks on undecided entries
        if isinstance(idx, SR):
            idx = self.st.concretize(idx.t)
        if isinstance(idx, tuple) and any(isinstance(i, SR) for i in idx):
            idx = tuple(self.st.concretize(i.t) if isinstance(i, SR) else i for i in idx)
        base[idx] = v

    def e_Call(self, e, env, module):
        f = self.eval(e.func, env, module)
        args = []
        for a in e.args:
            if isinstance(a, ast.Starred):
                args.extend(self.eval(a.value, env, module))
            else:
                args.append(self.eval(a, env, module))
        kwargs = {}
        for k in e.keywords:
            if k.arg is None:
                kwargs.update(self.eval(k.value, env, module))
            else:
                kwargs[k.arg] = self.eval(k.value, env, module)
        self.st.ex.cur_line = getattr(e, "lineno", 0)
        if self.call_hook is not None:
            r = self.call_hook(self, e, f, args, kwargs, module)
            if r is not NotImplemented:
                return r
        return self.call(f, args, kwargs)

    def _comp(self, gens, env, module, emit):
        def rec(i, env2):
            if i == len(gens):
                emit(env2)
                return
            g = gens[i]
            it = self.eval(g.iter, env2, module)
            if getattr(it, "_symbolic_iter", False):
                raise Unsupported("comprehension over a symbolic collection")
            for v in it:
                e3 = Env(env2)
                self.assign(g.target, v, e3, module)
                if all(self.truth(self.eval(c, e3, module)) for c in g.ifs):
                    rec(i + 1, e3)
        rec(0, env)

    def e_ListComp(self, e, env, module):
        if len(e.generators) == 1 and not e.generators[0].ifs:
            it = self.eval(e.generators[0].iter, env, module)
            if getattr(it, "_symbolic_iter", False) and hasattr(it, "_at"):
                from .symcoll import LazyComp

                return LazyComp(self, e.elt, e.generators[0].target, it, env, module)
        out = []
        self._comp(e.generators, env, module, lambda en: out.append(self.eval(e.elt, en, module)))
        return out

    def e_GeneratorExp(self, e, env, module):
        return self.e_ListComp(e, env, module)

    def e_SetComp(self, e, env, module):
        out = set()
        self._comp(e.generators, env, module, lambda en: out.add(self.eval(e.elt, en, module)))
        return out

    def e_DictComp(self, e, env, module):
        out = {}

        def emit(en):
            out[self.eval(e.key, en, module)] = self.eval(e.value, en, module)

        self._comp(e.generators, env, module, emit)
        return out


class InterpretedException(Exception):
    def __init__(self, obj):
        self.obj = obj


# ---------------------------------------------------------------------------------------------
# builtins that understand proxies


def default_builtins():
    import numpy as np

    def b_len(x):
        h = getattr(x, "_len", None)
        if h is not None:
            return h()
        if isinstance(x, Obj):
            raise Unsupported("len() of interpreted object without shim")
        return len(x)

    def b_abs(x):
        return abs(x)

    def pick(vals, better):
        vals = list(vals)
        if not vals:
            raise ValueError("max()/min() arg is an empty sequence")
        best = vals[0]
        for v in vals[1:]:
            c = better(v, best)
            if c is True:
                best = v
            elif c is False:
                pass
            else:
                if is_sym(v) or is_sym(best) or isinstance(v, (int, float)):
                    best = SR(z3.If(z3bool(c), z3num(v), z3num(best)))
                else:
                    best = v if bool(c) else best
        return best

    def b_max(*a, key=None, default=None):
        vals = a[0] if len(a) == 1 else a
        h = getattr(vals, "_max", None)
        if h is not None:
            return h(key)
        if key is not None:
            vals = list(vals)
            if not vals:
                raise ValueError("max() arg is an empty sequence")
            best = vals[0]
            bk = key(best)
            for v in vals[1:]:
                k = key(v)
                if k > bk:
                    best, bk = v, k
            return best
        return pick(vals, lambda v, b: v > b)

    def b_min(*a, key=None):
        vals = a[0] if len(a) == 1 else a
        if key is not None:
            vals = list(vals)
            best = vals[0]
            bk = key(best)
            for v in vals[1:]:
                k = key(v)
                if k < bk:
                    best, bk = v, k
            return best
        return pick(vals, lambda v, b: v < b)

    def b_range(*a):
        if any(isinstance(x, SR) for x in a):
            from .symcoll import SymRange

            return SymRange(*a)
        return range(*a)

    def b_list(x=()):
        h = getattr(x, "_tolist", None)
        if h is not None:
            return h()
        return list(x)

    def b_set(x=()):
        h = getattr(x, "_toset", None)
        if h is not None:
            return h()
        return set(x)

    def b_sorted(x, key=None, reverse=False):
        h = getattr(x, "_sorted", None)
        if h is not None:
            return h(key, reverse)
        if _is_harness_obj(x):
            raise Unsupported("sorted(%s)" % type(x).__name__)
        xs = list(x)
        if any(is_sym(v) for v in xs) and key is None:
            raise Unsupported("sorted() of symbolic values")
        return sorted(xs, key=key, reverse=reverse)

    def b_int(x=0, *a):
        if isinstance(x, SR):
            if x.is_int:
                return x
            # truncation toward zero
            st = cur()
            k = st.fresh_int("trunc")
            st.assume(z3.If(x.t >= 0, z3.And(z3.ToReal(k) <= x.t, x.t < z3.ToReal(k) + 1),
                            z3.And(z3.ToReal(k) >= x.t, x.t > z3.ToReal(k) - 1)))
            return SR(k)
        if isinstance(x, SB):
            return SR(z3.If(x.t, 1, 0))
        return int(x, *a)

    def b_float(x=0.0):
        if isinstance(x, SR):
            return SR(z3.ToReal(x.t)) if x.is_int else x
        return float(x)

    def b_all(xs):
        r = True
        for x in xs:
            if x is True:
                continue
            if not is_sym(x):
                if not x:
                    return False
                continue
            r = x if r is True else mkbool(z3.And(z3bool(r), z3bool(x)))
        return r

    def b_any(xs):
        r = False
        for x in xs:
            if not is_sym(x):
                if x:
                    return True
                continue
            r = x if r is False else mkbool(z3.Or(z3bool(r), z3bool(x)))
        return r

    def b_sum(xs, start=0):
        r = start
        for x in xs:
            r = r + x
        return r

    def b_filter(f, xs):
        h = getattr(xs, "_filter", None)
        if h is not None:
            return h(f)
        return [x for x in xs if (f(x) if f is not None else x)]

    def b_round(x, nd=None):
        if is_sym(x):
            raise Unsupported("round of symbolic")
        return round(x, nd) if nd is not None else round(x)

    def b_enumerate(x, start=0):
        if hasattr(x, "_at"):
            from .symcoll import SymEnumerate

            return SymEnumerate(x, start)
        return enumerate(x, start)

    def b_zip(*xs):
        if any(hasattr(x, "_at") for x in xs):
            from .symcoll import SymZip

            return SymZip(*xs)
        return zip(*xs)

    def b_isinstance(x, t):
        tr = {b_list: list, b_set: set, b_int: int, b_float: float}
        if isinstance(t, tuple):
            t = tuple(tr.get(e, e) for e in t)
        else:
            t = tr.get(t, t)
        if isinstance(x, SR) and (t is int or (isinstance(t, tuple) and int in t)):
            return x.is_int or (isinstance(t, tuple) and float in t)
        if isinstance(x, SR) and (t is float or (isinstance(t, tuple) and float in t)):
            return not x.is_int
        return isinstance(x, t)

    return {"isinstance": b_isinstance, "enumerate": b_enumerate, "zip": b_zip, "len": b_len, "abs": b_abs, "max": b_max, "min": b_min, "range": b_range, "list": b_list, "set": b_set,
            "sorted": b_sorted, "int": b_int, "float": b_float, "all": b_all, "any": b_any, "sum": b_sum,
            "filter": b_filter, "round": b_round, "True": True, "False": False, "None": None,
            "setattr": None, "NotImplemented": NotImplemented}


# ---------------------------------------------------------------------------------------------
def verify_function(module: ModuleCtx, qualname: str, make_args, post, contracts=None, loops=None, builtins_=None,
                    safety=False, pre=None, raises=None, max_paths=4000, call_hook=None, ex=None):
    """Symbolically execute module:qualname over all paths.
    make_args(st) -> (args, kwargs, ctx) builds symbolic inputs and assumes the precondition;
    post(st, ctx, result) issues obligations via st.prove for normal returns;
    raises(st, ctx, exc) handles exceptional outcomes (default: obligation 'no-exception' fails)."""
    f = module.get(qualname)
    key = "%s:%s" % (module.relpath, qualname)
    ex = ex or Explorer(key, safety_on=safety, max_paths=max_paths)

    def thunk(st):
        it = Interp(st, contracts=contracts, loops=loops, builtins_=builtins_, call_hook=call_hook)
        if "setattr" in it.builtins and it.builtins["setattr"] is None:
            it.builtins["setattr"] = lambda o, a, v: it.setattr(o, a, v)
        try:
            args, kwargs, ctx = make_args(st, it)
        except (PathKilled, Unsupported):
            raise
        except Exception as e:
            import traceback as _tb

            raise Unsupported("harness error while building inputs: %s" % _tb.format_exc()[-800:])
        ctx["interp"] = it
        if "closure" in ctx:
            f.closure = ctx["closure"]
        it.func_stack.append(("__top__" + key, [0]))
        try:
            try:
                r = it.run_func(f, args, kwargs)
            except (PathKilled, Unsupported):
                raise
            except (ReturnSig, BreakSig, ContinueSig):
                raise
            except Exception as e:
                if raises is not None:
                    raises(st, ctx, e)
                else:
                    st.prove("no-exception", z3.BoolVal(False))
                    ob = ex.obs.get("no-exception")
                    if ob is not None and not ob.detail.startswith("raises"):
                        ob.detail = "raises %s: %s | model: %s" % (type(e).__name__, str(e)[:200], ob.detail[:1500])
                raise PathKilled()
            try:
                post(st, ctx, r)
            except (PathKilled, Unsupported, ReturnSig, BreakSig, ContinueSig):
                raise
            except z3.Z3Exception:
                raise
            except (KeyError, NameError, AttributeError, IndexError, TypeError) as e:
                # a sidecar post-condition that cannot find what it talks about does not fit the code any more: undecided, not refuted
                raise Unsupported("the post-condition of %s does not fit the code any more (%s: %s)" % (qualname, type(e).__name__, e))
            return r
        finally:
            it.func_stack.pop()

    ex.explore(thunk)
    return ex
