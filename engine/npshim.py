"""numpy as seen by the interpreted code: real numpy on object arrays of proxies for concrete shapes, plus assumed
contracts (A-NP) for linear algebra and reductions. Everything not listed falls through to real numpy."""
from __future__ import annotations

import numpy as _np
import z3

from .pyvc import SR, SB, cur, is_sym, z3num, z3bool, mkbool
from .errors import Unsupported


def has_sym(x):
    if is_sym(x):
        return True
    if isinstance(x, _np.ndarray):
        return x.dtype == object
    if isinstance(x, (list, tuple)):
        return any(has_sym(v) for v in x)
    return getattr(x, "_symbolic_array", False)


def obj(x):
    """to object ndarray"""
    if isinstance(x, _np.ndarray):
        return x.astype(object) if x.dtype != object else x
    a = _np.empty(_np.shape(_concrete_skeleton(x)), dtype=object)
    _fill(a, x)
    return a


def _concrete_skeleton(x):
    if isinstance(x, (list, tuple)):
        return [_concrete_skeleton(v) for v in x]
    if isinstance(x, _np.ndarray):
        return _np.zeros(x.shape).tolist()
    return 0


def _fill(a, x):
    if a.ndim == 0:
        a[()] = x
        return
    for i in range(a.shape[0]):
        xi = x[i]
        if a.ndim == 1:
            a[i] = xi
        else:
            _fill(a[i], xi)


def vec(f):
    def g(x, *a, **k):
        if isinstance(x, _np.ndarray) and x.dtype == object:
            out = _np.empty(x.shape, dtype=object)
            for idx in _np.ndindex(x.shape):
                out[idx] = f(x[idx], *a, **k)
            return out
        if isinstance(x, (list, tuple)) and has_sym(x):
            return g(obj(x), *a, **k)
        return f(x, *a, **k)
    return g


_UF = {}


def uf(name, *sorts):
    if name not in _UF:
        _UF[name] = z3.Function(name, *sorts)
    return _UF[name]


R = z3.RealSort()


class Linalg:
    def norm(self, a, axis=None):
        if not has_sym(a):
            return _np.linalg.norm(a, axis=axis)
        if hasattr(a, "_map") and axis == 1:
            return a._map(lambda r: _norm1(obj(r)), ())
        a = obj(a)
        if axis is None:
            return _norm1(a.reshape(-1))
        if a.ndim == 2 and axis == 1:
            out = _np.empty(a.shape[0], dtype=object)
            for i in range(a.shape[0]):
                out[i] = _norm1(a[i])
            return out
        if a.ndim == 2 and axis == 0:
            out = _np.empty(a.shape[1], dtype=object)
            for i in range(a.shape[1]):
                out[i] = _norm1(a[:, i])
            return out
        raise Unsupported("norm of shape %s axis %s" % (a.shape, axis))

    def solve(self, A, B):
        if not has_sym(A) and not has_sym(B):
            return _np.linalg.solve(A, B)
        st = cur()
        A = obj(A)
        B = obj(B)
        n = A.shape[0]
        st.safety("singular-matrix", det_term(A) != 0)
        memo = st.ghost.setdefault("memo", {})
        mk = ("solve", _key(A), _key(B))
        if mk in memo:
            return memo[mk].copy()
        B2 = B.reshape(n, -1)
        X = _np.empty(B2.shape, dtype=object)
        for i in range(B2.shape[0]):
            for j in range(B2.shape[1]):
                X[i, j] = SR(st.fresh_real("solve"))
        for i in range(n):
            for j in range(B2.shape[1]):
                st.assume(z3num(sum(A[i, k] * X[k, j] for k in range(n))) == z3num(B2[i, j]))
        memo[mk] = X.reshape(B.shape)
        return X.reshape(B.shape).copy()

    def inv(self, A):
        if not has_sym(A):
            return _np.linalg.inv(A)
        st = cur()
        A = obj(A)
        n = A.shape[0]
        st.safety("singular-matrix", det_term(A) != 0)
        memo = st.ghost.setdefault("memo", {})
        mk = ("inv", _key(A))
        if mk in memo:
            return memo[mk].copy()
        Y = _np.empty((n, n), dtype=object)
        for i in range(n):
            for j in range(n):
                Y[i, j] = SR(st.fresh_real("inv"))
        for i in range(n):
            for j in range(n):
                d = 1 if i == j else 0
                st.assume(z3num(sum(A[i, k] * Y[k, j] for k in range(n))) == d)
                st.assume(z3num(sum(Y[i, k] * A[k, j] for k in range(n))) == d)
        memo[mk] = Y
        return Y.copy()

    def det(self, A):
        if not has_sym(A):
            return _np.linalg.det(A)
        return SR(det_term(obj(A)))

    def eigh(self, A):
        if not has_sym(A):
            return _np.linalg.eigh(A)
        from .symcoll import Opaque

        return Opaque("eigh", A), Opaque("eigh-vectors", A)


def det_term(A):
    A = obj(A)
    if A.shape == (3, 3):
        g = lambda i, j: z3num(A[i, j])  # noqa
        return (g(0, 0) * (g(1, 1) * g(2, 2) - g(1, 2) * g(2, 1)) - g(0, 1) * (g(1, 0) * g(2, 2) - g(1, 2) * g(2, 0))
                + g(0, 2) * (g(1, 0) * g(2, 1) - g(1, 1) * g(2, 0)))
    if A.shape == (2, 2):
        return z3num(A[0, 0]) * z3num(A[1, 1]) - z3num(A[0, 1]) * z3num(A[1, 0])
    if A.shape == (1, 1):
        return z3num(A[0, 0])
    raise Unsupported("det of shape %s" % (A.shape,))


def _key(a):
    return tuple(z3.simplify(z3num(x)).sexpr() for x in obj(a).reshape(-1)) + tuple(obj(a).shape)


def _norm1(v):
    st = cur()
    memo = st.ghost.setdefault("memo", {})
    mk = ("norm", _key(v))
    if mk in memo:
        return memo[mk]
    r = _norm1u(v)
    memo[mk] = r
    return r


def _norm1u(v):
    st = cur()
    L = st.fresh_real("norm")
    sq = z3num(0)
    for x in v:
        sq = sq + z3num(x) * z3num(x)
    st.assume(z3.And(L >= 0, L * L == sq))
    return SR(L)


def _floor(x):
    if not is_sym(x):
        return _np.floor(x)
    st = cur()
    k = st.fresh_int("floor")
    st.assume(z3.And(z3.ToReal(k) <= z3num(x), z3num(x) < z3.ToReal(k) + 1))
    return SR(z3.ToReal(k))


def _trig(name):
    def f(x):
        if not is_sym(x):
            return getattr(_np, name)(x)
        return SR(uf(name, R, R)(z3.ToReal(x.t) if x.is_int else x.t))
    return f


def _is_standin(x):
    """symbolic stand-ins defined by the verifier (engine / contracts / props), numpy arrays excluded"""
    mod = (getattr(type(x), "__module__", "") or "").split(".")[0]
    return mod in ("engine", "contracts", "props") and not isinstance(x, _np.ndarray)


class NPShim:
    newaxis = None
    pi = _np.pi
    nan = _np.nan
    inf = _np.inf
    ndarray = _np.ndarray
    linalg = Linalg()

    def __getattr__(self, name):
        native = getattr(_np, name)
        if not callable(native) or isinstance(native, type):
            return native

        def guarded(*a, **k):
            # a numpy function without a model here must not be applied to a symbolic stand-in (a token object): numpy would treat it as an
            # opaque 0-d object and silently return nonsense. (Object arrays of proxy numbers are fine: numpy's own code then runs on the
            # proxies, whose comparisons fork.)
            for x in list(a) + list(k.values()):
                if _is_standin(x) and not isinstance(x, (SR, SB)):
                    raise Unsupported("numpy.%s applied to a symbolic stand-in (%s): no model" % (name, type(x).__name__))
            return native(*a, **k)

        guarded.__name__ = name
        return guarded

    # constructors: object dtype so that proxies can be stored
    def array(self, x, dtype=None, copy=True):
        h = getattr(x, "_as_array", None)
        if h is not None:
            return h()
        if has_sym(x):
            return obj(x).copy()
        a = _np.array(x, dtype=dtype)
        return a

    def asarray(self, x, dtype=None):
        h = getattr(x, "_as_array", None)
        if h is not None:
            return h()
        if has_sym(x):
            return obj(x)
        return _np.asarray(x, dtype=dtype)

    def copy(self, x):
        return self.array(x)

    def _mk(self, shape, fill):
        first = shape[0] if isinstance(shape, tuple) and shape else shape
        if is_sym(first):
            from .larr import RowArr

            tail = tuple(shape[1:]) if isinstance(shape, tuple) else ()
            if tail:
                return RowArr(first, lambda i: self._mk(tail, fill), tail)
            return RowArr(first, lambda i: fill, ())
        a = _np.empty(shape, dtype=object)
        a[...] = fill
        return a

    def zeros(self, shape, dtype=None):
        if dtype is not None and dtype is not float:
            return _np.zeros(shape, dtype=dtype)
        return self._mk(shape, 0.0)

    def ones(self, shape, dtype=None):
        return self._mk(shape, 1.0)

    def empty(self, shape, dtype=None):
        return self._mk(shape, 0.0)

    def full(self, shape, v, dtype=None):
        return self._mk(shape, v)

    def eye(self, n):
        a = self._mk((n, n), 0.0)
        for i in range(n):
            a[i, i] = 1.0
        return a

    identity = eye

    def dot(self, a, b):
        if not has_sym(a) and not has_sym(b):
            return _np.dot(a, b)
        h = getattr(a, "_dot", None)
        if h is not None:
            return h(b)
        h = getattr(b, "_rdot", None)
        if h is not None:
            return h(a)
        return _np.dot(obj(a), obj(b))

    def cross(self, a, b):
        if not has_sym(a) and not has_sym(b):
            return _np.cross(a, b)
        a, b = obj(a), obj(b)
        out = _np.empty(3, dtype=object)
        out[0] = a[1] * b[2] - a[2] * b[1]
        out[1] = a[2] * b[0] - a[0] * b[2]
        out[2] = a[0] * b[1] - a[1] * b[0]
        return out

    def sum(self, a, axis=None):
        h = getattr(a, "_sum", None)
        if h is not None:
            return h(axis)
        if has_sym(a):
            a = obj(a)
            if a.size == 0:
                return 0
            if all(isinstance(x, (SB, bool, _np.bool_)) for x in a.reshape(-1)) and axis is None:
                if cur().ghost.get("concretize_bool_sums"):
                    return int(sum(1 for x in a.reshape(-1) if bool(x)))  # forks on undecided flags
                return SR(z3.Sum([z3.If(z3bool(x), z3.IntVal(1), z3.IntVal(0)) for x in a.reshape(-1)]))
            return a.sum(axis=axis)
        return _np.sum(a, axis=axis)

    def mean(self, a, axis=None):
        h = getattr(a, "_mean", None)
        if h is not None:
            return h(axis)
        if has_sym(a):
            a = obj(a)
            return a.sum(axis=axis) / (a.size if axis is None else a.shape[axis])
        return _np.mean(a, axis=axis)

    def absolute(self, x):
        return vec(abs)(x)

    abs = absolute

    def floor(self, x):
        return vec(_floor)(x)

    def cos(self, x):
        return vec(_trig("cos"))(x)

    def sin(self, x):
        return vec(_trig("sin"))(x)

    def arctan2(self, y, x):
        if not is_sym(y) and not is_sym(x):
            return _np.arctan2(y, x)
        return SR(uf("arctan2", R, R, R)(z3.ToReal(z3num(y)) if z3.is_int(z3num(y)) else z3num(y),
                                          z3.ToReal(z3num(x)) if z3.is_int(z3num(x)) else z3num(x)))

    def isnan(self, x):
        if is_sym(x):
            return False
        return _np.isnan(x)

    def where(self, cond, *a):
        h = getattr(cond, "_where", None)
        if h is not None:
            return h(*a)
        if isinstance(cond, _np.ndarray) and cond.dtype == object:
            from .pyvc import Interp

            c2 = _np.empty(cond.shape, dtype=bool)
            for idx in _np.ndindex(cond.shape):
                v = cond[idx]
                c2[idx] = bool(v)  # forks on symbolic entries
            cond = c2
        return _np.where(cond, *a)

    def argmin(self, a, axis=None):
        h = getattr(a, "_argmin", None)
        if h is not None:
            return h(axis)
        if has_sym(a):
            a = obj(a)
            if a.ndim != 1:
                raise Unsupported("argmin nd")
            best = 0
            for i in range(1, len(a)):
                if a[i] < a[best]:
                    best = i
            return best
        return _np.argmin(a, axis=axis)

    def argmax(self, a, axis=None):
        h = getattr(a, "_argmax", None)
        if h is not None:
            return h(axis)
        if has_sym(a):
            a = obj(a)
            if a.ndim != 1:
                raise Unsupported("argmax nd")
            best = 0
            for i in range(1, len(a)):
                if a[i] > a[best]:
                    best = i
            return best
        return _np.argmax(a, axis=axis)

    def remainder(self, a, m, out=None):
        r = vec(lambda x: x % m)(obj(a) if has_sym(a) else a)
        if out is not None:
            out[...] = r
            return out
        return r

    def clip(self, a, a_min=None, a_max=None, out=None):
        h = getattr(a, "_clip", None)
        if h is not None:
            return h(a_min, a_max, out)
        if has_sym(a) or is_sym(a_min) or is_sym(a_max):
            def c(x):
                t = z3num(x)
                if a_min is not None:
                    t = z3.If(t < z3num(a_min), z3num(a_min), t)
                if a_max is not None:
                    t = z3.If(t > z3num(a_max), z3num(a_max), t)
                return SR(t)
            r = vec(c)(obj(a))
            if out is not None:
                out[...] = r
                return out
            return r
        return _np.clip(a, a_min, a_max, out=out)

    def tile(self, a, reps):
        h = getattr(a, "_tile", None)
        if h is not None:
            return h(reps)
        return _np.tile(a, reps)

    def unique(self, a, return_index=False, **k):
        h = getattr(a, "_unique", None)
        if h is not None:
            return h(return_index=return_index, **k)
        return _np.unique(a, return_index=return_index, **k)

    def ix_(self, *a):
        h = getattr(a[0], "_ix", None)
        if h is not None:
            return h(*a)
        return _np.ix_(*a)

    def argwhere(self, a):
        h = getattr(a, "_argwhere", None)
        if h is not None:
            return h()
        return _np.argwhere(a)

    def arange(self, *a):
        if any(is_sym(x) for x in a):
            from .symcoll import SymRange

            return SymRange(*a)
        return _np.arange(*a)

    def fill_diagonal(self, a, v):
        h = getattr(a, "_fill_diagonal", None)
        if h is not None:
            return h(v)
        return _np.fill_diagonal(a, v)

    def array_equal(self, a, b):
        return _np.array_equal(a, b)

    def around(self, a, decimals=0, out=None):
        if has_sym(a) or _is_standin(a):
            if isinstance(decimals, int) and decimals >= 8:
                return a  # rounding away the last digits of a double is the identity in real arithmetic (L-FLOAT)
            raise Unsupported("numpy.around(symbolic, decimals=%r): coarse rounding is not the identity" % (decimals,))
        return _np.around(a, decimals=decimals, out=out)

    def round(self, a, decimals=0, out=None):
        return self.around(a, decimals=decimals, out=out)

    round_ = round


NP = NPShim()
