#!/bin/bash
# Builds the overlay interpreter /verif/.venv offline: python 3.12 + z3-solver, cvc5, icontract, deal, sympy
# from the local wheelhouse, plus a .pth exposing /venv's site-packages (matid deps: ase, spglib, numpy, sklearn).
set -e
cd "$(dirname "$0")"
PY=/root/.pyenv/versions/3.12.1/bin/python
if [ ! -x .venv/bin/python ] || ! .venv/bin/python -c "import z3, cvc5, numpy, ase, spglib" 2>/dev/null; then
  rm -rf .venv
  $PY -m venv .venv
  PIP_NO_INDEX=1 .venv/bin/pip install -q --no-index --find-links /opt/veriftools/wheels z3-solver cvc5 icontract sympy jsonschema >/dev/null
  SP=$(.venv/bin/python -c "import site; print(site.getsitepackages()[0])")
  echo "import site; site.addsitedir('/venv/lib/python3.12/site-packages')" > "$SP/zz_venv_overlay.pth"
fi
.venv/bin/python -c "import z3, cvc5, numpy, ase, spglib, sklearn; print('verif venv ok: z3', z3.get_version_string())"
