"""C16 — periodic neighbour search and position matching are complete and exact.
C++ part: the obligations of extend_system / CellList (shared with C10). Python part: get_matches / get_matches_simple."""
from __future__ import annotations

import numpy as np
import z3

from engine import contexts
from engine.common import Report, Ob, func_source_info
from engine.errors import Unsupported
from engine.larr import RowArr
from engine.aseshim import SymAtoms, sym_cell, sym_pbc, sym_positions, sym_int_rows
from engine.npshim import NP, det_term
from engine.pyvc import SR, SB, sint, sreal, z3num, z3bool, mkbool, cur
from engine.symcoll import LoopSpec, SymSeq, Opaque
from props._util import run_fv, section, sections_parallel, result_lists
from props import C10

REL = "matid/geometry/geometry.py"
I = z3.IntSort()
Rs = z3.RealSort()


def run():
    rep = Report("C16")
    rep.trusted_base = list(C10.run.__globals__.get("TRUSTED", [])) or ["clang 14 typed AST + engine/cxxvc.py translation", "pyvc executor", "z3"]
    rep.assumptions = [
        "L-FLOAT; pybind11 views as arrays; std::vector as list (see C10)",
        "contract of CellList.get_neighbours_for_position used by the Python matching code = the obligations proved in section query",
        "A-NP: np.argmin returns the first minimal index; A-ASE: wrap_positions",
        "precondition of get_matches (established at its construction site in PeriodicFinder.get_region, not re-proved): tolerance <= cell list cutoff and the list was extended by at least the tolerance",
    ]
    from contracts import cxx_model as X
    try:
        m = X.module()
        rep.functions.extend(m.cxx_info)
    except Unsupported as e:
        rep.add(Ob(id="cxx.translate", status="unknown", backend="clang", detail=str(e)))
        return rep
    sections_parallel(rep, [("helpers", C10._helpers), ("copies", C10._copies), ("enum", C10._enum), ("fill", C10._fill), ("lemmas", C10._lemmas),
                            ("bins", C10._bins), ("query", C10._query), ("matches", _matches), ("matches_simple", _matches_simple), ("wrappers", _wrappers)], jobs=12)
    return rep


class QueryResult:
    """CellListResult of one query (contract proved in section query): m images within the cutoff, each with original index, exact distance,
    displacement and cell offset (factors)"""

    def __init__(self, st, tag):
        self.m = SR(st.fresh_int("n_found"))
        st.assume(self.m.t >= 0)
        st.n += 1
        self.tag = st.n
        self.fi = z3.Function("found_index_%d" % self.tag, I, I)
        self.fd = z3.Function("found_distance_%d" % self.tag, I, Rs)
        self.ff = [z3.Function("found_factor%d_%d" % (k, self.tag), I, Rs) for k in range(3)]
        self.fdisp = [z3.Function("found_disp%d_%d" % (k, self.tag), I, Rs) for k in range(3)]
        n = st.ghost["n"]
        q = z3.Int("q!qr")
        st.assume(z3.ForAll([q], z3.Implies(z3.And(q >= 0, q < self.m.t), z3.And(self.fi(q) >= 0, self.fi(q) < n.t, self.fd(q) >= 0))))
        self.indices_original = SymSeq(self.m, lambda k: SR(self.fi(z3num(k))), "indices_original")
        self.distances = DistSeq(self)
        self.factors = SymSeq(self.m, lambda k: np.array([SR(f(z3num(k))) for f in self.ff], dtype=object), "factors")
        self.displacements = SymSeq(self.m, lambda k: np.array([SR(f(z3num(k))) for f in self.fdisp], dtype=object), "displacements")


class DistSeq(SymSeq):
    def __init__(self, qr):
        super().__init__(qr.m, lambda k: SR(qr.fd(z3num(k))), "distances")
        self.qr = qr

    def _argmin(self, axis=None):
        st = cur()
        k = st.fresh_int("argmin")
        q = z3.Int("q!am")
        st.assume(z3.And(k >= 0, k < self.qr.m.t))
        st.assume(z3.ForAll([q], z3.Implies(z3.And(q >= 0, q < self.qr.m.t), z3.And(self.qr.fd(k) <= self.qr.fd(q), z3.Implies(self.qr.fd(k) == self.qr.fd(q), k <= q)))))
        st.ghost["nearest"] = k
        return SR(k)


class CellListShim:
    def get_neighbours_for_position(self, x, y, z):
        st = cur()
        r = QueryResult(st, "q")
        st.ghost["last_query"] = (r, (x, y, z))
        return r


class Log:
    def __init__(self):
        self.log = []

    def append(self, v):
        self.log.append(v)

    def _state(self):
        return []


class RowStore(RowArr):
    """np.zeros((n, 3)) whose rows are assigned one at a time"""

    def _setitem(self, idx, v):
        if isinstance(idx, (SR, int)):
            if v is None:
                raise TypeError("float() argument must be a string or a real number, not 'NoneType'")
            cur().ghost.setdefault("row_writes", []).append((idx, v))
            return
        return super()._setitem(idx, v)


class NPm(type(NP)):
    def zeros(self, shape, dtype=None):
        if isinstance(shape, tuple) and shape and isinstance(shape[0], SR):
            return RowStore(shape[0], lambda i: np.array([0.0, 0.0, 0.0], dtype=object), (3,))
        return super().zeros(shape, dtype)


def _matches(rep):
    m = contexts.geometry_ctx()
    m.globals["np"] = NPm()
    subs = []

    class Sub:
        def __init__(self, index, position, original_element, substitutional_element):
            self.index, self.position, self.original_element, self.substitutional_element = index, position, original_element, substitutional_element

    class AtomShim:
        def __init__(self, number, position=None):
            self.number, self.position = number, position

    m.globals["Substitution"] = Sub
    m.globals["Atom"] = AtomShim
    try:
        def mk(st, it):
            n = sint("n")
            st.assume(n.t >= 1)
            st.ghost["n"] = n
            nq = sint("n_queries")
            st.assume(nq.t >= 1)
            cell = sym_cell("c")
            st.assume(det_term(cell) != 0)
            vals = (2, 0, 0, "3/10", 2, 0, "1/10", "1/5", 3)
            for kk in range(9):
                st.hint(z3.Real("c%d%d" % (kk // 3, kk % 3)) == z3.RealVal(str(vals[kk])))
            Z = sym_int_rows("Z", n)
            system = SymAtoms(n, cell, sym_pbc("pbc"), sym_positions("pos", n), Z)
            qpos = sym_positions("qpos", nq)
            qnum = sym_int_rows("qZ", nq)
            tol = sreal("tolerance")
            st.assume(tol.t >= 0)
            return [system, CellListShim(), qpos, qnum, tol], {}, {"n": n, "nq": nq, "Z": Z, "qpos": qpos, "qnum": qnum, "tol": tol, "system": system}

        names = ["matches", "substitutions", "vacancies"]

        def havoc(st, env, old):
            real = result_lists(env, names, (list, Log))
            st.ghost["list_names"] = dict(zip(names, real))
            for nm in real:
                env.vars[nm] = Log()
            st.ghost["row_writes"] = []
            for nm in ("i", "position", "atomic_number", "match", "substitution", "copy_index", "displacement", "cell_list_result", "indices", "distances", "factors",
                       "min_distance_index", "closest_distance", "closest_factor", "closest_index", "closest_atomic_number"):
                env.vars.pop(nm, None)

        def body(st, env, k, old):
            Z, qnum, tol = st.ghost["ctx"]["Z"], st.ghost["ctx"]["qnum"], st.ghost["ctx"]["tol"]
            r, qxyz = st.ghost["last_query"]
            qpos = st.ghost["ctx"]["qpos"]
            out = []
            out.append(("queried-at-the-given-position", z3.And([z3num(qxyz[c]) == z3num(qpos.row(k)[c]) for c in range(3)])))
            logs = {nm: env.lookup(st.ghost["list_names"][nm]).log for nm in names}
            out.append(("one-match-entry-and-one-substitution-entry-per-query", z3.BoolVal(len(logs["matches"]) == 1 and len(logs["substitutions"]) == 1)))
            if len(logs["matches"]) != 1 or len(logs["substitutions"]) != 1:
                return out
            mt, sb = logs["matches"][0], logs["substitutions"][0]
            writes = st.ghost.get("row_writes", [])
            out.append(("cell-offset-stored-for-this-query", z3.BoolVal(len(writes) == 1 and writes[0][1] is not None) if not writes or not isinstance(writes[0][0], SR)
                        else z3.And(z3.BoolVal(len(writes) == 1), writes[0][0].t == k.t)))
            nearest = st.ghost.get("nearest")
            found_any = r.m.t > 0
            s = z3num(qnum.row(k))
            if nearest is not None:
                a = r.fi(nearest)
                d = r.fd(nearest)
                within = d <= tol.t
                same = z3num(Z.row(SR(a))) == s
            # case analysis by what was returned on this path
            if mt is not None:
                out.append(("match.nearest-image-within-tolerance-same-species", z3.And(found_any, within, same, z3num(mt) == a) if nearest is not None else z3.BoolVal(False)))
                out.append(("match.no-substitution", z3.BoolVal(sb is None)))
                out.append(("match.no-vacancy", z3.BoolVal(len(logs["vacancies"]) == 0)))
                out.append(("match.offset-is-the-images", z3.And([z3num(writes[0][1][c]) == r.ff[c](nearest) for c in range(3)]) if writes else z3.BoolVal(False)))
            elif sb is not None:
                out.append(("substitution.nearest-image-within-tolerance-other-species", z3.And(found_any, within, z3.Not(same), z3num(sb.index) == a) if nearest is not None else z3.BoolVal(False)))
                out.append(("substitution.records-expected-and-found-species", z3.And(z3num(sb.original_element) == s, z3num(sb.substitutional_element) == z3num(Z.row(SR(a)))) if nearest is not None else z3.BoolVal(False)))
                out.append(("substitution.no-vacancy", z3.BoolVal(len(logs["vacancies"]) == 0)))
                out.append(("substitution.offset-is-the-images", z3.And([z3num(writes[0][1][c]) == r.ff[c](nearest) for c in range(3)]) if writes else z3.BoolVal(False)))
            else:
                out.append(("vacancy.nothing-within-tolerance", z3.Or(z3.Not(found_any), z3.Not(within)) if nearest is not None else z3.Not(found_any)))
                out.append(("vacancy.recorded-with-species-and-position", z3.BoolVal(len(logs["vacancies"]) == 1)
                            if len(logs["vacancies"]) != 1 else z3.And(z3num(logs["vacancies"][0].number) == s, z3.BoolVal(logs["vacancies"][0].position is not None))))
                # offset = floor of the scaled query position
                if writes:
                    pq = np.array(list(qpos.row(k)), dtype=object)[None, :]
                    sc = NP.linalg.solve(st.ghost["ctx"]["system"].cell.T, pq.T).T[0]  # memoised: the unknowns of the code's own to_scaled
                    out.append(("vacancy.offset-is-floor-of-scaled-position", z3.And([z3.And(z3.IsInt(z3num(writes[0][1][c])), z3num(writes[0][1][c]) <= z3num(sc[c]),
                                                                                              z3num(sc[c]) < z3num(writes[0][1][c]) + 1) for c in range(3)])))
            return out

        def mk2(st, it):
            a, k, c = mk(st, it)
            st.ghost["ctx"] = c
            return a, k, c

        def post(st, ctx, r):
            st.prove("returns-four-results", z3.BoolVal(isinstance(r, tuple) and len(r) == 4))

        run_fv(rep, "matches.", m, "get_matches", mk2, post, max_paths=5000,
               loops={("get_matches", 1): LoopSpec(lambda *a: [], havoc, name="queries", body_post=body)})
    finally:
        m.globals["np"] = NP
        m.globals.pop("Substitution", None)
        m.globals.pop("Atom", None)


def _matches_simple(rep):
    m = contexts.geometry_ctx()
    from engine.aseshim import AseGeometry

    class AseG:
        class geometry:
            @staticmethod
            def wrap_positions(positions, cell, pbc):
                cur().ghost["wrapped_from"] = positions
                return positions  # A-ASE: positions moved by lattice vectors of periodic directions (the neighbour query is lattice periodic)

    old_ase = m.globals["ase"]
    m.globals["ase"] = AseG
    try:
        def mk(st, it):
            n = sint("n")
            st.assume(n.t >= 1)
            st.ghost["n"] = n
            nq = sint("n_queries")
            st.assume(nq.t >= 1)
            Z = sym_int_rows("Z", n)
            system = SymAtoms(n, sym_cell("c"), sym_pbc("pbc"), sym_positions("pos", n), Z)
            qpos = sym_positions("qpos", nq)
            qnum = sym_int_rows("qZ", nq)
            tol = sreal("tolerance")
            st.assume(tol.t >= 0)
            st.ghost["ctx"] = {"Z": Z, "qnum": qnum, "tol": tol, "qpos": qpos}
            return [system, CellListShim(), qpos, qnum, tol], {}, {}

        def havoc(st, env, old):
            real = result_lists(env, ("matches", "displacements"), (list, Log))
            st.ghost["list_names"] = dict(zip(("matches", "displacements"), real))
            for nm in real:
                env.vars[nm] = Log()
            for nm in ("wrapped_position", "atomic_number", "match", "displacement", "cell_list_result", "indices", "distances", "min_distance_index", "closest_distance",
                       "closest_index", "closest_atomic_number"):
                env.vars.pop(nm, None)

        def body(st, env, k, old):
            c = st.ghost["ctx"]
            r, qxyz = st.ghost["last_query"]
            mt = env.lookup(st.ghost["list_names"]["matches"]).log
            dp = env.lookup(st.ghost["list_names"]["displacements"]).log
            out = [("one-entry-per-query", z3.BoolVal(len(mt) == 1 and len(dp) == 1))]
            if len(mt) != 1:
                return out
            nearest = st.ghost.get("nearest")
            s = z3num(c["qnum"].row(k))
            if mt[0] is not None:
                a = r.fi(nearest)
                out.append(("match.nearest-within-tolerance-same-species", z3.And(r.m.t > 0, r.fd(nearest) <= c["tol"].t, z3num(c["Z"].row(SR(a))) == s, z3num(mt[0]) == a)))
                out.append(("match.displacement-of-the-winner", z3.BoolVal(dp[0] is not None) if dp[0] is None else z3.And([z3num(dp[0][q]) == r.fdisp[q](nearest) for q in range(3)])))
            else:
                cond = z3.Not(r.m.t > 0) if nearest is None else z3.Or(z3.Not(r.m.t > 0), z3.Not(r.fd(nearest) <= c["tol"].t), z3num(c["Z"].row(SR(r.fi(nearest)))) != s)
                out.append(("no-match.nothing-suitable", cond))
                out.append(("no-match.no-displacement", z3.BoolVal(dp[0] is None)))
            return out

        def post(st, ctx, r):
            st.prove("returns-matches-and-displacements", z3.BoolVal(isinstance(r, tuple) and len(r) == 2))

        run_fv(rep, "matches_simple.", m, "get_matches_simple", mk, post, max_paths=5000,
               loops={("get_matches_simple", 1): LoopSpec(lambda *a: [], havoc, name="queries", body_post=body)})
    finally:
        m.globals["ase"] = old_ase


def _wrappers(rep):
    """Python entry points get_cell_list / get_extended_system: the structure, the extension distance and the cutoff reach the C++ code
    unchanged (symbolic extension and cutoff: every path)"""
    from engine.pyvc import Explorer, Interp, sreal
    m = contexts.geometry_ctx()
    geo_ns = m.globals["matid"]
    old_ext = geo_ns._subs["ext"]
    calls = []

    class Ext:
        def _getattr(self, interp, attr):
            if attr in ("get_cell_list", "extend_system"):
                def f(*a, **k):
                    calls.append((attr, a, k))
                    return Opaque(attr + "-result")
                return f
            raise Unsupported("matid.ext.%s" % attr)

    geo_ns._subs["ext"] = Ext()
    try:
        # get_cell_list(positions, cell, pbc, extension, cutoff)
        f = m.get("get_cell_list")
        ex = Explorer(REL + ":get_cell_list")
        bad = []
        toks = [Opaque("positions"), Opaque("cell"), Opaque("pbc")]

        def thunk(st):
            calls.clear()
            e, c = sreal("extension"), sreal("cutoff")
            st.assume(z3.And(e.t >= 0, c.t >= 0))
            r = Interp(st).run_func(f, toks + [e, c], {})
            ok = len(calls) == 1 and calls[0][0] == "get_cell_list" and isinstance(r, Opaque) and r.tag == "get_cell_list-result"
            if ok:
                a = list(calls[0][1]) + [calls[0][2].get(k) for k in ("positions", "cell", "pbc", "extension", "cutoff")][len(calls[0][1]):]
                ok = all(x is y for x, y in zip(a[:3], toks)) and len(a) == 5
                if ok:
                    s = z3.Solver()
                    s.set("timeout", 5000)
                    s.add(st.pc)
                    s.add(z3.Or(z3num(a[3]) != e.t, z3num(a[4]) != c.t))
                    res = s.check()
                    if res != z3.unsat:
                        mdl = s.model() if res == z3.sat else None
                        bad.append("the C++ cell list is built with extension/cutoff other than the requested ones%s" % (
                            "" if mdl is None else " (requested extension %s cutoff %s, passed %s / %s)" % (mdl.eval(e.t, True), mdl.eval(c.t, True), mdl.eval(z3num(a[3]), True), mdl.eval(z3num(a[4]), True))))
            if not ok:
                bad.append("arguments are not forwarded one-to-one to matid.ext.get_cell_list")
            return r

        oc = ex.explore(thunk)
        if any(o[0] == "raise" for o in oc):
            bad.append("raises %r" % ([o[1] for o in oc if o[0] == "raise"][0],))
        rep.add(Ob(id="wrapper.get_cell_list-forwards-structure-extension-and-cutoff", status="proved" if not bad else "refuted", backend="pyvc+z3", kind="vc",
                   func=REL + ":get_cell_list", detail="; ".join(bad)[:600]))
        from engine.common import func_source_info
        rep.functions.append(func_source_info(REL, "get_cell_list"))
        # get_extended_system(system, cutoff)
        g = m.get("get_extended_system")
        ex = Explorer(REL + ":get_extended_system")
        bad2 = []
        T = {k: Opaque(k) for k in ("positions", "numbers", "cell", "pbc")}

        class Sys:
            def get_positions(self, wrap=False):
                return T["positions"]

            def get_atomic_numbers(self):
                return T["numbers"]

            def get_cell(self):
                return T["cell"]

            def get_pbc(self):
                return T["pbc"]

        def thunk2(st):
            calls.clear()
            c = sreal("cutoff")
            st.assume(c.t >= 0)
            r = Interp(st).run_func(g, [Sys(), c], {})
            ok = len(calls) == 1 and calls[0][0] == "extend_system" and isinstance(r, Opaque) and r.tag == "extend_system-result" and len(calls[0][1]) == 5 and not calls[0][2]
            if ok:
                a = calls[0][1]
                ok = a[0] is T["positions"] and a[1] is T["numbers"] and a[2] is T["cell"] and a[3] is T["pbc"]
                s2 = z3.Solver()
                s2.set("timeout", 5000)
                s2.add(st.pc)
                s2.add(z3num(a[4]) != c.t)
                if ok and s2.check() != z3.unsat:
                    bad2.append("the system is extended by another distance than the requested one")
            if not ok:
                bad2.append("positions / numbers / cell / pbc / distance are not forwarded one-to-one to matid.ext.extend_system")
            return r

        oc = ex.explore(thunk2)
        if any(o[0] == "raise" for o in oc):
            bad2.append("raises %r" % ([o[1] for o in oc if o[0] == "raise"][0],))
        rep.add(Ob(id="wrapper.get_extended_system-forwards-structure-and-distance", status="proved" if not bad2 else "refuted", backend="pyvc+z3", kind="vc",
                   func=REL + ":get_extended_system", detail="; ".join(bad2)[:600]))
        rep.functions.append(func_source_info(REL, "get_extended_system"))
    finally:
        geo_ns._subs["ext"] = old_ext


def replay_key(ob):
    return "c16"


def replay(ob):
    from props import C10_native
    r = C10_native.cxx_replay()
    if r.get("reproduced"):
        return r
    r2 = C10_native.replay_c16()
    r2["cxx_harness"] = r.get("note", "no failing input on the compiled C++")
    return r2


def replay_file(rp):
    return replay(Ob(id=rp["obligation"]))
