"""C19 — radii presets and custom radii are honoured uniformly."""
from __future__ import annotations

import ast
import math
import os

import numpy as np
import z3

from engine import contexts
from engine.common import Report, Ob, REPO, func_source_info
import z3
from engine.pyvc import Explorer, Interp, State, sint, cur
from engine.symcoll import Opaque
from props._util import section

FN = "matid/geometry/geometry.py:get_radii"


def _same(a, b):
    if isinstance(a, float) and math.isnan(a):
        return isinstance(b, float) and math.isnan(b)
    return a == b


def run():
    rep = Report("C19")
    rep.trusted_base = ["pyvc interpreter executing the real source of get_radii on every point of its finite domain (CPython float semantics, NaN-aware)",
                        "ase.data.covalent_radii and ase.data.vdw_alvarez.vdw_radii are 'the documented table'", "Python ast (data-flow frame obligations)"]
    rep.assumptions = ["A-ASE: the ASE radii tables are the documented tables",
                       "A-NP: numpy fancy indexing radii[atomic_numbers] selects the entries of the given atomic numbers"]
    rep.functions.append(func_source_info("matid/geometry/geometry.py", "get_radii"))
    m = contexts.geometry_ctx()
    cov, vdw = m.globals["covalent_radii"], m.globals["vdw_radii"]
    f = m.get("get_radii")

    def call(args):
        ex = Explorer(FN)
        out = {}

        def thunk(st):
            it = Interp(st)
            out["r"] = it.run_func(f, list(args), {})
            return out["r"]

        oc = ex.explore(thunk)
        if len(oc) != 1:
            raise RuntimeError("get_radii forked on concrete input")
        if oc[0][0] == "raise":
            raise oc[0][1]
        return out["r"]

    def presets():
        nz = len(vdw)
        for preset in ("covalent", "vdw", "vdw_covalent"):
            zmax = len(cov) if preset == "covalent" else nz
            for Z in range(zmax):
                oid = "radii.%s[Z=%d]" % (preset, Z)
                try:
                    got = float(call([preset, np.array([Z])])[0])
                    if preset == "covalent":
                        want = float(cov[Z])
                    elif preset == "vdw":
                        want = float(vdw[Z])
                    else:
                        want = float(vdw[Z]) if not math.isnan(float(vdw[Z])) else float(cov[Z])
                    ok = _same(got, want)
                    det = "" if ok else "get_radii(%r,[%d]) = %r, documented table gives %r" % (preset, Z, got, want)
                except Exception as e:  # noqa
                    ok, det = False, "%s: %s" % (type(e).__name__, e)
                rep.add(Ob(id=oid, status="proved" if ok else "refuted", backend="exact-evaluation", func=FN, kind="exact",
                           detail=det, witness={"preset": preset, "Z": Z}))
                if preset == "vdw_covalent" and 1 <= Z:
                    has = (not math.isnan(float(vdw[Z]))) or (not math.isnan(float(cov[Z])))
                    ok2 = (not has) or (ok and math.isfinite(got) and got > 0)
                    rep.add(Ob(id="radii.vdw_covalent.finite-positive[Z=%d]" % Z, status="proved" if ok2 else "refuted",
                               backend="exact-evaluation", func=FN, kind="exact", witness={"preset": preset, "Z": Z},
                               detail="" if ok2 else "element with a tabulated radius gets %r" % (got if ok is not None else None)))
        # several atoms at once: indexing is element-wise (A-NP) - one obligation with all Z
        for preset in ("covalent", "vdw", "vdw_covalent"):
            zs = np.arange(len(vdw))
            got = call([preset, zs])
            ok = len(got) == len(zs) and all(_same(float(got[i]), float(call([preset, np.array([i])])[0])) for i in range(len(zs)))
            rep.add(Ob(id="radii.%s.elementwise" % preset, status="proved" if ok else "refuted", backend="exact-evaluation", func=FN, kind="exact"))

    class CustomRadii(Opaque):
        """a caller's own radii array: nothing but its (symbolic) length can be observed"""

        def _len(self):
            st = cur()
            if "custom_len" not in st.ghost:
                n = sint("n_custom_radii")
                st.assume(n.t >= 0)
                st.ghost["custom_len"] = n
            return st.ghost["custom_len"]

    def identity(oid, mkargs):
        """every path of get_radii(custom, ...) returns the very same object - for every length of the array"""
        ex = Explorer(FN)
        tok = CustomRadii("custom-radii")

        def thunk(st):
            return Interp(st).run_func(f, mkargs(tok), {})

        bad = []
        lens = []
        for kind, v, st in ex.explore(thunk):
            if kind == "raise":
                bad.append("raises %s: %s" % (type(v).__name__, v))
            elif v is not tok:
                n = st.ghost.get("custom_len")
                wit = ""
                if n is not None:
                    sv = z3.Solver()
                    sv.set("timeout", 3000)
                    sv.add(st.pc)
                    if sv.check() == z3.sat:
                        wit = " (array length %s)" % sv.model().eval(n.t, model_completion=True)
                        lens.append(int(str(sv.model().eval(n.t, model_completion=True))))
                bad.append("custom array is not returned unchanged%s: %r" % (wit, v))
        rep.add(Ob(id=oid, status="proved" if not bad else "refuted", backend="pyvc", func=FN, kind="vc", detail="; ".join(bad)[:600],
                   witness={"custom": True, "lengths": lens}))

    def custom():
        # non-string radii are returned unchanged (the same object), whatever the atomic numbers and whatever the length
        identity("radii.custom.identity", lambda tok: [tok, Opaque("numbers")])
        identity("radii.custom.identity-no-numbers", lambda tok: [tok])
        arr = np.array([0.31, 1.7, 2.2])
        r3 = call([arr, np.array([5, 1, 1])])
        rep.add(Ob(id="radii.custom.array-unchanged", status="proved" if (r3 is arr and (arr == np.array([0.31, 1.7, 2.2])).all()) else "refuted",
                   backend="exact-evaluation", func=FN, kind="exact"))

    section(rep, "radii.presets", presets)
    section(rep, "radii.custom", custom)
    section(rep, "radii.frame", lambda: frame(rep))
    rep.extra["exhaustive"] = True
    rep.extra["explanation"] = ("get_radii is a function of (preset, Z) on a finite domain: the real source is executed by the engine on every point "
                                "(3 presets x every Z of the ASE tables) and compared with the documented table with NaN-aware float semantics; "
                                "custom arrays: identity; consumers: data-flow frame obligations on the AST")
    return rep


CONSUMERS = [
    ("matid/geometry/geometry.py", "get_dimensionality", "radii"),
    ("matid/geometry/geometry.py", "get_distances", "radii"),
    ("matid/clustering/sbc.py", "SBC.get_clusters", "radii"),
]


def frame(rep):
    """In each consumer the parameter `radii` is read exactly once, as the first argument of a get_radii call, before any
    other use; every later use is of the resolved value. Then consumer(preset) and consumer(resolved array) compute the same
    thing by congruence (get_radii(array) is the identity)."""
    from engine.common import find_def

    for rel, qn, param in CONSUMERS:
        fn = "%s:%s" % (rel, qn)
        tree = ast.parse(open(os.path.join(REPO, rel)).read())
        node = find_def(tree, qn)
        oid = "radii.frame[%s]" % qn
        if node is None:
            rep.add(Ob(id=oid, status="unknown", backend="ast-dataflow", func=fn, detail="function not found"))
            continue
        rep.functions.append(func_source_info(rel, qn))
        has_param = any(a.arg == param for a in node.args.args + node.args.kwonlyargs)
        loads = []
        stores = []
        for n in ast.walk(node):
            if isinstance(n, ast.Name) and n.id == param:
                (loads if isinstance(n.ctx, ast.Load) else stores).append(n)
        loads.sort(key=lambda n: (n.lineno, n.col_offset))
        # the first load must be arg 0 of a call to get_radii
        first_ok = False
        resolved_name = None
        for n in ast.walk(node):
            if isinstance(n, ast.Assign) and isinstance(n.value, ast.Call):
                c = n.value
                fname = c.func.attr if isinstance(c.func, ast.Attribute) else getattr(c.func, "id", None)
                if fname == "get_radii" and c.args and isinstance(c.args[0], ast.Name) and c.args[0].id == param and loads and c.args[0] is loads[0]:
                    first_ok = True
                    resolved_name = n.targets[0].id if isinstance(n.targets[0], ast.Name) else None
        ok = has_param and first_ok and resolved_name is not None
        det = ""
        if ok and resolved_name != param:
            # the raw parameter must not be read again
            ok = len(loads) == 1
            det = "" if ok else "parameter %r read again at line %d after resolution into %r" % (param, loads[1].lineno, resolved_name)
        elif ok:
            # rebinding radii = get_radii(radii, ..): later loads see the resolved value; no other store may reintroduce the raw value
            ok = len(stores) == 1
            det = "" if ok else "parameter rebound more than once"
        else:
            det = "first use of %r is not get_radii(%s, ...)" % (param, param)
        rep.add(Ob(id=oid, status="proved" if ok else "refuted", backend="ast-dataflow", func=fn, kind="exact", detail=det, witness={"consumer": qn}))


def replay(ob):
    import matid.geometry as g
    from ase.data import covalent_radii
    from ase.data.vdw_alvarez import vdw_radii
    from ase import Atoms

    w = ob.witness or {}
    if "preset" in w:
        last = None
        for Z in [w["Z"]] + [z for z in range(len(vdw_radii)) if z != w["Z"]]:
            try:
                got = float(g.get_radii(w["preset"], np.array([Z]))[0])
            except Exception as e:  # noqa
                return {"reproduced": True, "call": "get_radii(%r, [%d])" % (w["preset"], Z), "observed": "%s: %s" % (type(e).__name__, e)}
            want = {"covalent": lambda: covalent_radii[Z], "vdw": lambda: vdw_radii[Z],
                    "vdw_covalent": lambda: vdw_radii[Z] if not np.isnan(vdw_radii[Z]) else covalent_radii[Z]}[w["preset"]]()
            last = {"reproduced": not _same(got, float(want)), "call": "get_radii(%r, [%d])" % (w["preset"], Z), "got": got, "documented": float(want)}
            if last["reproduced"]:
                return last
        return last
        Z = w["Z"]
        got = float(g.get_radii(w["preset"], np.array([Z]))[0])
        want = {"covalent": lambda: covalent_radii[Z], "vdw": lambda: vdw_radii[Z],
                "vdw_covalent": lambda: vdw_radii[Z] if not np.isnan(vdw_radii[Z]) else covalent_radii[Z]}[w["preset"]]()
        return {"reproduced": not _same(got, float(want)), "call": "get_radii(%r, [%d])" % (w["preset"], Z), "got": got, "documented": float(want)}
    if "consumer" in w or ob.id.startswith("radii.custom") or ob.id.endswith("elementwise") or ob.id == "audit":
        # uniformity at the API: preset vs the same numbers as a custom array
        rng = np.random.default_rng(3)
        from matid.clustering import SBC
        bad = []
        # a custom array comes back unchanged whatever its length (the verifier's lengths first, then lengths of the internal tables)
        for n in list(w.get("lengths") or []) + [1, 7, len(covalent_radii), len(vdw_radii)]:
            if not (0 < n <= 400):
                continue
            custom = rng.uniform(0.3, 2.0, size=n)
            Z = rng.integers(1, 84, size=n)
            try:
                got = g.get_radii(custom.copy(), Z)
                if not (np.shape(got) == custom.shape and np.array_equal(np.asarray(got), custom)):
                    bad.append(("get_radii(custom array of %d values, atomic numbers) does not return the array unchanged" % n, np.asarray(got)[:4].tolist(), custom[:4].tolist()))
            except Exception as e:  # noqa
                bad.append(("get_radii(custom array of %d values)" % n, "%s: %s" % (type(e).__name__, e)))
        # a preset gives every atom the radius of its own element, whatever the other atoms of the query are
        for preset, tab in (("covalent", covalent_radii), ("vdw", vdw_radii), ("vdw_covalent", None)):
            zs = np.arange(1, len(vdw_radii))
            for order in (zs, zs[::-1], np.array([8, 84]), np.array([61, 6, 88, 1])):
                try:
                    got = np.asarray(g.get_radii(preset, order), dtype=float)
                    one = np.array([float(g.get_radii(preset, np.array([z]))[0]) for z in order])
                    if got.shape != one.shape or not all(_same(float(a), float(b)) for a, b in zip(got, one)):
                        k = [i for i, (a, b) in enumerate(zip(got, one)) if not _same(float(a), float(b))][:3]
                        bad.append(("get_radii(%r, Z) is not element-wise" % preset, [int(order[i]) for i in k], [float(got[i]) for i in k], [float(one[i]) for i in k]))
                        break
                except Exception as e:  # noqa
                    bad.append(("get_radii(%r, %d atomic numbers)" % (preset, len(order)), "%s: %s" % (type(e).__name__, e)))
                    break
        if bad:
            return {"reproduced": True, "failing_inputs": bad[:3]}
        for trial in range(6):
            n = 6
            for preset in ("covalent", "vdw", "vdw_covalent"):
                # elements without a tabulated vdW radius only where the preset documents a fallback
                elems = [1, 6, 8, 14, 29] + ([61, 84] if preset != "vdw" else [])
                at = Atoms(numbers=rng.choice(elems, size=n), positions=rng.uniform(0, 4.5, size=(n, 3)), cell=[5, 5, 5], pbc=True)
                arr = g.get_radii(preset, at.get_atomic_numbers())
                try:
                    # a custom array is used unchanged: the radii-corrected distances are dist - (r_i + r_j) with *these* numbers
                    for rr in (np.array(arr), np.array(arr) * 1.37):
                        if np.isnan(rr).any():
                            continue
                        D = g.get_distances(at, rr)
                        want = D.dist_matrix_mic - (rr[:, None] + rr[None, :])
                        if np.abs(D.dist_matrix_radii_mic - want).max() > 1e-9:
                            bad.append(("get_distances ignores the given radii", preset, at.get_atomic_numbers().tolist()))
                    d1 = g.get_dimensionality(at, 0.6, radii=preset)
                    d2 = g.get_dimensionality(at, 0.6, radii=np.array(arr))
                    if d1 != d2:
                        bad.append(("get_dimensionality", preset, at.get_atomic_numbers().tolist(), at.get_positions().tolist(), d1, d2))
                    c1 = sorted(sorted(c.indices) for c in SBC().get_clusters(at, radii=preset))
                    c2 = sorted(sorted(c.indices) for c in SBC().get_clusters(at, radii=np.array(arr)))
                    if c1 != c2:
                        bad.append(("get_clusters", preset, at.get_atomic_numbers().tolist(), at.get_positions().tolist()))
                except Exception as e:  # noqa
                    if not np.isnan(arr).any():
                        bad.append(("exception", preset, "%s: %s" % (type(e).__name__, e)))
        return {"reproduced": bool(bad), "failing_inputs": bad[:3]}
    return {"reproduced": False}


def replay_file(rp):
    return replay(Ob(id=rp["obligation"], witness=rp.get("witness")))
