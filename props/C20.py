"""C20 — cell and frame helpers preserve the physical structure (real arithmetic, generic atom count)."""
from __future__ import annotations

import numpy as np
import z3

from engine import contexts
from engine.aseshim import SymAtoms, sym_cell, sym_pbc, sym_positions, sym_int_rows, sym_real_rows
from engine.common import Report, Ob
from engine.larr import RowArr, instantiate_reductions
from engine.npshim import NP, det_term, obj
from engine.pyvc import SR, SB, sreal, sint, z3num, z3bool, mkbool, cur, is_linear
from props._util import run_fv, section, sections_parallel


def _hint_cell(st, prefix="c", vals=(2, 0, 0, "3/10", 2, 0, "1/10", "1/5", 3)):
    k = 0
    for i in range(3):
        for j in range(3):
            st.hint(z3.Real("%s%d%d" % (prefix, i, j)) == z3.RealVal(str(vals[k])))
            k += 1


def _vec3(prefix):
    return np.array([sreal("%s%d" % (prefix, j)) for j in range(3)], dtype=object)


def _mat(prefix, r, c):
    a = np.empty((r, c), dtype=object)
    for i in range(r):
        for j in range(c):
            a[i, j] = sreal("%s%d%d" % (prefix, i, j))
    return a


def run():
    rep = Report("C20")
    rep.trusted_base = ["z3 (nonlinear real arithmetic)", "pyvc symbolic executor (engine/pyvc.py)",
                        "numpy/ASE shims = assumed contracts A-NP, A-ASE (engine/npshim.py, engine/aseshim.py)"]
    rep.assumptions = [
        "L-FLOAT: floating point treated as real arithmetic",
        "A-NP: np.linalg.solve/inv return the exact solution for a non-singular matrix; np.linalg.norm is the Euclidean norm; argmin/argmax return an extremal index",
        "A-ASE: Atoms getters return copies; get_scaled_positions = solve(cell.T, positions.T).T with periodic components wrapped; Atoms(cell, scaled_positions) places atoms at scaled.cell; set_cell keeps cartesian positions",
        "trigonometry (cos, sin, arctan2) uninterpreted with the axioms stated in the obligation (periodic centre of mass)",
        "eigen-decomposition (np.linalg.eigh) external: the obligation is that it is applied to the inertia tensor",
    ]
    m = contexts.geometry_ctx()
    sections_parallel(rep, [("scaled", lambda r, fn=_scaled: fn(r, m)), ("wrapped", lambda r, fn=_wrapped: fn(r, m)), ("swap", lambda r, fn=_swap: fn(r, m)), ("complete", lambda r, fn=_complete: fn(r, m)), ("min", lambda r, fn=_minimized: fn(r, m)), ("inertia", lambda r, fn=_inertia: fn(r, m)), ("com", lambda r, fn=_com: fn(r, m))])
    return rep


# ---------------------------------------------------------------------------------------------
def _scaled(rep, m):
    # to_cartesian(cell, to_scaled(cell, P)) == P for a generic row, non-singular cell
    def mk(st, it):
        cell = _mat("c", 3, 3)
        P = _mat("p", 1, 3)
        st.assume(det_term(cell) != 0)
        _hint_cell(st)
        return [cell, P], {}, {"cell": cell, "P": P}

    def post(st, ctx, r):
        back = ctx["interp"].call(m.get("to_cartesian"), [ctx["cell"], r])
        for j in range(3):
            st.prove("inverse.cart-of-scaled[%d]" % j, z3num(back[0, j]) == z3num(ctx["P"][0, j]))
        st.prove("shape", z3.BoolVal(r.shape == (1, 3)))

    run_fv(rep, "scaled.to_scaled.", m, "to_scaled", mk, post, safety=True)

    def mk2(st, it):
        cell = _mat("c", 3, 3)
        S = _mat("s", 1, 3)
        st.assume(det_term(cell) != 0)
        return [cell, S], {}, {"cell": cell, "S": S.copy()}

    def post2(st, ctx, r):
        back = ctx["interp"].call(m.get("to_scaled"), [ctx["cell"], r])
        for j in range(3):
            st.prove("inverse.scaled-of-cart[%d]" % j, z3num(back[0, j]) == z3num(ctx["S"][0, j]))

    run_fv(rep, "scaled.to_cartesian.", m, "to_cartesian", mk2, post2, safety=True)

    # 1-D input is promoted to one row
    def mk3(st, it):
        cell = _mat("c", 3, 3)
        P = _vec3("p")
        st.assume(det_term(cell) != 0)
        return [cell, P], {}, {"cell": cell, "P": P}

    def post3(st, ctx, r):
        st.prove("shape-1d", z3.BoolVal(getattr(r, "shape", None) == (1, 3)))
        back = NP.dot(r, ctx["cell"])
        for j in range(3):
            st.prove("inverse-1d[%d]" % j, z3num(back[0, j]) == z3num(ctx["P"][j]))

    run_fv(rep, "scaled.to_scaled-1d.", m, "to_scaled", mk3, post3)

    # wrap=True: only periodic components change, by an integer, into [0,1)
    def mk4(st, it):
        cell = _mat("c", 3, 3)
        P = _mat("p", 1, 3)
        pbc = sym_pbc("pbc")
        st.assume(det_term(cell) != 0)
        return [cell, P.copy()], {"wrap": True, "pbc": pbc}, {"cell": cell, "P": P, "pbc": pbc}

    def post4(st, ctx, r):
        ref = NP.linalg.solve(ctx["cell"].T, ctx["P"].T).T  # memoised: the same unknowns the code obtained
        _wrap_obligations(st, r, ref, ctx["pbc"])

    run_fv(rep, "scaled.to_scaled-wrap.", m, "to_scaled", mk4, post4)

    def mk5(st, it):
        cell = _mat("c", 3, 3)
        S = _mat("s", 1, 3)
        pbc = sym_pbc("pbc")
        arg = S.copy()
        return [cell, arg], {"wrap": True, "pbc": pbc}, {"cell": cell, "S": S, "pbc": pbc, "arg": arg}

    def post5(st, ctx, r):
        # the function wraps its argument in place and returns (wrapped scaled).cell
        w = ctx["arg"]
        _wrap_obligations(st, w, ctx["S"], ctx["pbc"])
        back = NP.dot(w, ctx["cell"])
        for j in range(3):
            st.prove("cartesian-of-wrapped[%d]" % j, z3num(r[0, j]) == z3num(back[0, j]))

    run_fv(rep, "scaled.to_cartesian-wrap.", m, "to_cartesian", mk5, post5)

    # shape errors raise ValueError (concrete shapes: the code's own test)
    def bad_shape(shape):
        def mkb(st, it):
            return [_mat("c", 3, 3), np.zeros(shape)], {}, {}
        return mkb

    for fn in ("to_scaled", "to_cartesian"):
        for shape in ((2, 2), (3, 3, 3), (4,)):
            got = {}

            def raises(st, ctx, e, got=got):
                got["e"] = e
                st.prove("raises-ValueError", z3.BoolVal(isinstance(e, ValueError)))

            def postb(st, ctx, r):
                st.prove("raises-ValueError", z3.BoolVal(False))

            run_fv(rep, "scaled.%s-shape%s." % (fn, "x".join(map(str, shape))), m, fn, bad_shape(shape), postb, raises=raises, expect_raise=True)


def _wrap_obligations(st, got, ref, pbc):
    for j in range(3):
        d = z3num(got[0, j]) - z3num(ref[0, j])
        k = z3.Int("k_wit")
        p = z3bool(pbc[j])
        st.prove("wrap.nonperiodic-unchanged[%d]" % j, z3.Implies(z3.Not(p), d == 0))
        st.prove("wrap.periodic-integer-shift[%d]" % j, z3.Implies(p, z3.IsInt(d)))
        st.prove("wrap.periodic-in-unit-interval[%d]" % j, z3.Implies(p, z3.And(z3num(got[0, j]) >= 0, z3num(got[0, j]) < 1)))


def _wrapped(rep, m):
    """get_wrapped_positions: result in [0,1); equal to the input modulo an integer, up to the snapping precision."""
    def mk(st, it):
        P = _mat("p", 1, 3)
        prec = sreal("prec")
        st.assume(z3.And(prec.t > 0, prec.t < z3.RealVal("0.5")))
        return [P.copy()], {"precision": prec}, {"P": P, "prec": prec}

    def post(st, ctx, r):
        for j in range(3):
            v = z3num(r[0, j])
            x = ctx["P"][0, j]
            w = z3num(x % 1)  # memoised: x - floor(x), in [0,1)
            prec = ctx["prec"].t
            st.prove("range[%d]" % j, z3.And(v >= 0, v < 1))
            st.prove("integer-shift[%d]" % j, z3.Implies(v != 0, z3.IsInt(v - z3num(x))))
            st.prove("wrapped-or-snapped[%d]" % j, z3.Or(v == w, z3.And(v == 0, z3.Or(w < prec, 1 - w < prec))))
            st.prove("snaps-near-boundary[%d]" % j, z3.Implies(z3.Or(w < prec, 1 - w < prec), v == 0))

    run_fv(rep, "wrapped.", m, "get_wrapped_positions", mk, post, max_paths=20000)


def _swap(rep, m):
    for a in range(3):
        for b in range(3):
            def mk(st, it):
                n = sint("n")
                st.assume(n.t >= 1)
                atoms = SymAtoms(n, sym_cell("c"), sym_pbc("pbc"), sym_positions("pos", n), sym_int_rows("Z", n))
                return [atoms, a, b], {}, {"atoms": atoms, "cell0": atoms.cell.copy(), "pbc0": atoms.pbc.copy(), "pos0": atoms.positions}

            def post(st, ctx, r, a=a, b=b):
                at = ctx["atoms"]
                perm = {a: b, b: a}
                for i in range(3):
                    src = perm.get(i, i)
                    for j in range(3):
                        st.prove("cell[%d,%d]" % (i, j), z3num(at.cell[i, j]) == z3num(ctx["cell0"][src, j]))
                    st.prove("pbc[%d]" % i, z3bool(at.pbc[i]) == z3bool(ctx["pbc0"][src]))
                i = sint("i_generic")
                st.assume(z3.And(i.t >= 0, i.t < at.n.t))
                for j in range(3):
                    st.prove("positions-untouched[%d]" % j, z3num(at.positions.row(i)[j]) == z3num(ctx["pos0"].row(i)[j]))
                st.prove("only-cell-and-pbc-written", z3.BoolVal(set(at.mutations) <= {"set_cell", "set_pbc"}))

            run_fv(rep, "swap[%d,%d]." % (a, b), m, "swap_basis", mk, post)


def _complete(rep, m):
    def mk(st, it):
        a, b = _vec3("a"), _vec3("b")
        L = sreal("len")
        cr = NP.cross(a, b)
        st.assume(z3.Or([z3num(x) != 0 for x in cr]))
        st.assume(L.t >= 0)
        return [a, b, L], {}, {"a": a, "b": b, "L": L}

    def post(st, ctx, r):
        st.prove("shape", z3.BoolVal(r.shape == (1, 3)))
        c = r[0]
        dot = lambda u, v: z3num(u[0]) * z3num(v[0]) + z3num(u[1]) * z3num(v[1]) + z3num(u[2]) * z3num(v[2])  # noqa
        st.prove("orthogonal-to-a", dot(c, ctx["a"]) == 0)
        st.prove("orthogonal-to-b", dot(c, ctx["b"]) == 0)
        st.prove("length", dot(c, c) == ctx["L"].t * ctx["L"].t)

    run_fv(rep, "complete.", m, "complete_cell", mk, post, safety=True)


def _minimized(rep, m):
    """get_minimized_cell. Step A: facts about the code's result, proved on the symbolic execution of the real source
    (linear in the Skolem unknowns of solve/norm). Step B: a pure real-arithmetic lemma (fresh variables) that derives the
    property-level conclusions from exactly those facts. Conclusions(actual terms) follow by instantiating the lemma."""
    from engine.common import prove
    FN = "matid/geometry/geometry.py:get_minimized_cell"
    for axis in range(3):
        def mk(st, it, axis=axis):
            n = sint("n")
            st.assume(n.t >= 1)
            cell = sym_cell("c")
            st.assume(det_term(cell) != 0)
            _hint_cell(st)
            atoms = SymAtoms(n, cell, sym_pbc("pbc"), sym_positions("pos", n), sym_int_rows("Z", n))
            ms = sreal("min_size")
            st.assume(ms.t > 0)
            return [atoms, axis, ms], {}, {"atoms": atoms, "cell0": cell.copy(), "pbc0": atoms.pbc.copy(), "pos0": atoms.positions,
                                           "ms": ms, "axis": axis}

        def post(st, ctx, r, axis=axis):
            a = axis
            at0 = ctx["atoms"]
            c0 = ctx["cell0"]
            ms = ctx["ms"].t
            st.prove("input-untouched", z3.BoolVal(at0.mutations == []))
            st.prove("is-atoms", z3.BoolVal(isinstance(r, SymAtoms)))
            st.prove("same-count", z3num(r.n) == z3num(at0.n))
            st.prove("same-numbers", z3.BoolVal(getattr(r.numbers, "f", 1) is getattr(at0.numbers, "f", 2)))
            for k in range(3):
                st.prove("pbc[%d]" % k, z3bool(r.pbc[k]) == z3bool(ctx["pbc0"][k]))
            reds = st.ghost.get("reductions", [])
            st.prove("extremal-atoms-by-argmin-argmax", z3.BoolVal(len(reds) == 2 and {k for k, _, _ in reds} == {"min", "max"}))
            if len(reds) != 2:
                return
            kmin = [mm for kd, mm, _ in reds if kd == "min"][0]
            kmax = [mm for kd, mm, _ in reds if kd == "max"][0]
            i, j = sint("i_generic"), sint("j_generic")
            st.assume(z3.And(i.t >= 0, i.t < at0.n.t, j.t >= 0, j.t < at0.n.t))
            instantiate_reductions(st, [i, j, kmin, kmax])
            sc = lambda idx: NP.linalg.solve(c0.T, obj(ctx["pos0"].row(idx)))  # noqa  (memoised: the code's own unknowns)
            s_i, smin, smax = sc(i), z3num(sc(kmin)[a]), z3num(sc(kmax)[a])
            ext = smax - smin
            L0 = z3num(NP.linalg.norm(c0[a, :]))
            # replicate the code's c_size to reach the memoised norm
            pmin = NP.zeros(3); pmin[a] = SR(smin)
            pmax = NP.zeros(3); pmax[a] = SR(smax)
            creal = NP.dot(pmax[None, :], c0) - NP.dot(pmin[None, :], c0)
            csize = z3num(NP.linalg.norm(creal))
            padded = csize < ms
            sp = z3.Solver(); sp.set("timeout", 3000); sp.add(st.pc); sp.add(z3.Not(padded))
            is_padded = sp.check() == z3.unsat
            sp = z3.Solver(); sp.set("timeout", 3000); sp.add(st.pc); sp.add(padded)
            is_fitted = sp.check() == z3.unsat
            st.prove("A0.branch-decided-by-extent-vs-min_size", z3.BoolVal(is_padded != is_fitted))
            lam = ms / L0 if is_padded else ext
            offc = (ext - lam) / 2 if is_padded else z3.RealVal(0)
            st.prove("A6.extent-bounds", z3.And(z3num(s_i[a]) >= smin, z3num(s_i[a]) <= smax))
            for q in range(3):
                if q != a:
                    for jj in range(3):
                        st.prove("A1.cell-row-unchanged[%d,%d]" % (q, jj), z3num(r.cell[q, jj]) == z3num(c0[q, jj]))
            for jj in range(3):
                st.prove("A2.cell-axis-scaled[%d]" % jj, z3num(r.cell[a, jj]) == lam * z3num(c0[a, jj]))
            Y = getattr(r, "scaled_input", None)
            st.prove("A4.built-from-scaled-positions", z3.BoolVal(Y is not None))
            if Y is None:
                return
            Yi = Y.row(i)
            newpos = NP.dot(obj(Yi), r.cell)
            for q in range(3):
                st.prove("A4.new-position[%d]" % q, z3num(r.positions.row(i)[q]) == z3num(newpos[q]))
                st.prove("A4.translation[%d]" % q,
                         z3num(newpos[q]) == z3num(ctx["pos0"].row(i)[q]) - (smin + offc) * z3num(c0[a, q]))
                st.prove("displacement-unchanged[%d]" % q,
                         z3num(r.positions.row(i)[q]) - z3num(r.positions.row(j)[q]) == z3num(ctx["pos0"].row(i)[q]) - z3num(ctx["pos0"].row(j)[q]))
            st.ghost["Y_i_axis"] = Yi

        run_fv(rep, "min[axis=%d]." % axis, m, "get_minimized_cell", mk, post)

        # ---- Step B: pure lemma over fresh reals. Facts A1..A8 + det != 0  ==>  conclusions
        a = axis
        B = [[z3.Real("B%d%d" % (p_, q_)) for q_ in range(3)] for p_ in range(3)]
        lam, smin, smax, offc, ms, L0, L1 = z3.Reals("lam smin smax offc ms L0 L1")
        s = [z3.Real("s%d" % q_) for q_ in range(3)]
        Y = [z3.Real("Y%d" % q_) for q_ in range(3)]
        P = [z3.Real("P%d" % q_) for q_ in range(3)]
        ext = smax - smin
        Bn = [[(lam * B[a][q_] if p_ == a else B[p_][q_]) for q_ in range(3)] for p_ in range(3)]  # A1, A2
        detB = (B[0][0] * (B[1][1] * B[2][2] - B[1][2] * B[2][1]) - B[0][1] * (B[1][0] * B[2][2] - B[1][2] * B[2][0])
                + B[0][2] * (B[1][0] * B[2][1] - B[1][1] * B[2][0]))
        common_h = [detB != 0, lam > 0, smin <= s[a], s[a] <= smax]
        common_h += [sum(s[p_] * B[p_][q_] for p_ in range(3)) == P[q_] for q_ in range(3)]  # A5: s.B = pos
        common_h += [sum(Y[p_] * Bn[p_][q_] for p_ in range(3)) == P[q_] - (smin + offc) * B[a][q_] for q_ in range(3)]  # A4
        # uniqueness: (Y - s') . B = 0 with s' = s except s'[a] = (s[a]-smin-offc)/lam ... expressed via w = Y*diag - s
        w = [(Y[p_] * lam - (s[p_] - smin - offc)) if p_ == a else (Y[p_] - s[p_]) for p_ in range(3)]
        lin = [sum(w[p_] * B[p_][q_] for p_ in range(3)) == 0 for q_ in range(3)]
        rep.add(prove("min[axis=%d].B0.difference-in-kernel" % a, common_h, z3.And(lin), func=FN))
        # kernel of a non-singular matrix is trivial (Cramer): w.B = 0 and det B != 0 => w = 0
        wv = [z3.Real("w%d" % q_) for q_ in range(3)]
        kern = [sum(wv[p_] * B[p_][q_] for p_ in range(3)) == 0 for q_ in range(3)]
        rep.add(prove("min[axis=%d].B1.trivial-kernel" % a, [detB != 0] + kern, z3.And([x == 0 for x in wv]), func=FN, timeout_ms=60000))
        concl_h = [lam > 0, smin <= s[a], s[a] <= smax] + [x == 0 for x in w]
        for q_ in range(3):
            if q_ != a:
                rep.add(prove("min[axis=%d].other-scaled-components-unchanged[%d]" % (a, q_), concl_h, Y[q_] == s[q_], func=FN))
        fitted_h = concl_h + [offc == 0, lam == ext]
        padded_h = concl_h + [offc == (ext - lam) / 2, L0 > 0, L1 >= 0, lam == ms / L0, L1 * L1 == ext * ext * L0 * L0, L1 < ms, ms > 0]
        rep.add(prove("min[axis=%d].inside.fitted" % a, fitted_h, z3.And(Y[a] >= 0, Y[a] <= 1), func=FN))
        rep.add(prove("min[axis=%d].inside.padded" % a, padded_h, z3.And(Y[a] >= 0, Y[a] <= 1), func=FN, timeout_ms=60000))
        rep.add(prove("min[axis=%d].flush-when-fitted" % a, fitted_h, z3.And(z3.Implies(s[a] == smin, Y[a] == 0), z3.Implies(s[a] == smax, Y[a] == 1)), func=FN))
        Ymin, Ymax = z3.Reals("Ymin Ymax")
        rep.add(prove("min[axis=%d].centred-when-padded" % a,
                      [lam > 0, offc == (ext - lam) / 2, Ymin * lam == smin - smin - offc, Ymax * lam == smax - smin - offc],
                      Ymin == 1 - Ymax, func=FN))
        # length of the new axis vector: |lam * b|^2 = max(extent, min_size)^2
        S = z3.Real("S")
        rep.add(prove("min[axis=%d].length.padded" % a, [L0 > 0, L0 * L0 == S, lam == ms / L0], lam * lam * S == ms * ms, func=FN))
        rep.add(prove("min[axis=%d].length.fitted" % a, [L0 >= 0, L1 >= 0, L0 * L0 == S, lam == ext, ext >= 0, L1 * L1 == ext * ext * S],
                      z3.And(lam * lam * S == L1 * L1), func=FN))
        rep.add(prove("min[axis=%d].padded-iff-extent-below-min_size" % a,
                      [L0 > 0, L1 >= 0, ext >= 0, L1 * L1 == ext * ext * L0 * L0, ms > 0], (L1 < ms) == (ext * L0 < ms), func=FN, timeout_ms=60000))


def _inertia(rep, m):
    for weight in (True, False):
        def mk(st, it, weight=weight):
            n = sint("n")
            st.assume(n.t >= 1)
            cell = sym_cell("c")
            st.assume(det_term(cell) != 0)
            _hint_cell(st)
            atoms = SymAtoms(n, cell, sym_pbc("pbc"), sym_positions("pos", n), sym_int_rows("Z", n))
            return [atoms], {"weight": weight}, {"atoms": atoms}

        com_seen = {}

        def com_contract(it, st, bound, site):
            # callee under contract: returns "the centre" (a 3-vector); well-formed call = binds to the real signature
            st.prove(site + ".pre.is-atoms", z3.BoolVal(isinstance(bound["system"], SymAtoms)))
            c = np.array([SR(st.fresh_real("com")) for _ in range(3)], dtype=object)
            st.ghost["com"] = c
            return c

        def post(st, ctx, r, weight=weight):
            from engine.symcoll import Opaque

            at = ctx["atoms"]
            st.prove("returns-eigh-pair", z3.BoolVal(isinstance(r, tuple) and len(r) == 2 and isinstance(r[0], Opaque) and r[0].tag == "eigh"))
            if not (isinstance(r, tuple) and isinstance(r[0], Opaque)):
                return
            T = r[0].args[0]
            st.prove("tensor-shape", z3.BoolVal(getattr(T, "shape", None) == (3, 3)))
            com = st.ghost.get("com")
            st.prove("centre-is-get_center_of_mass", z3.BoolVal(com is not None))
            sums = st.ghost.get("sums", {})
            i = sint("i_generic")
            st.assume(z3.And(i.t >= 0, i.t < at.n.t))
            p = at.positions.row(i)
            d = [z3num(p[q]) - z3num(com[q]) for q in range(3)]
            w = z3num(at.get_masses().row(i)) if weight else z3.RealVal(1)
            r2 = d[0] * d[0] + d[1] * d[1] + d[2] * d[2]
            for a in range(3):
                for b in range(3):
                    e = T[a, b]
                    key = str(z3num(e))
                    st.prove("entry-is-a-sum-over-atoms[%d,%d]" % (a, b), z3.BoolVal(key in sums))
                    if key not in sums:
                        continue
                    summand = z3num(sums[key].row(i))
                    spec = w * ((r2 if a == b else 0) - d[a] * d[b])
                    st.prove("summand[%d,%d]" % (a, b), summand == spec)

        run_fv(rep, "inertia[weight=%s]." % weight, m, "get_moments_of_inertia", mk, post,
               contracts={"matid/geometry/geometry.py:get_center_of_mass": com_contract})


def _com(rep, m):
    """Periodic centre of mass = the documented formula, for every cell/pbc/atom count:
    non-periodic components: mass-weighted mean of the scaled coordinate;
    periodic components: (arctan2(-mean(m sin t), -mean(m cos t)) + pi) / (2 pi) with t = 2 pi * (scaled coordinate mod 1);
    the result is rel_com . cell. Because the angle is built from the coordinate modulo 1, a lattice-vector shift of an
    individual atom changes no summand (lemma mod-shift). Translation covariance modulo the lattice is a mathematical
    property of this circular mean and is not machine-checked (listed as unproved conjunct)."""
    import math
    from engine.npshim import uf, R

    def mk(st, it):
        n = sint("n")
        st.assume(n.t >= 1)
        cell = sym_cell("c")
        st.assume(det_term(cell) != 0)
        _hint_cell(st)
        atoms = SymAtoms(n, cell, sym_pbc("pbc"), sym_positions("pos", n), sym_int_rows("Z", n))
        return [atoms], {}, {"atoms": atoms}

    def capture_to_cartesian(it, st, bound, site):
        st.ghost["rel_com"] = bound["scaled_positions"].copy()
        st.ghost["tc_cell"] = bound["cell"]
        return it.run_func(m.get("to_cartesian"), [bound["cell"], bound["scaled_positions"]], {"wrap": bound["wrap"], "pbc": bound["pbc"]})

    def post(st, ctx, r):
        at = ctx["atoms"]
        st.prove("input-untouched", z3.BoolVal(at.mutations == []))
        st.prove("shape", z3.BoolVal(getattr(r, "shape", None) == (3,)))
        rel = st.ghost.get("rel_com")
        st.prove("result-is-to_cartesian-of-relative-centre", z3.BoolVal(rel is not None))
        if rel is None:
            return
        back = NP.dot(rel, at.cell)
        for q in range(3):
            st.prove("cartesian[%d]" % q, z3num(r[q]) == z3num(back[q]))
        sums = st.ghost.get("sums", {})
        i = sint("i_generic")
        st.assume(z3.And(i.t >= 0, i.t < at.n.t))
        s_i = NP.linalg.solve(at.cell.T, obj(at.positions.row(i)))
        mass = z3num(at.get_masses().row(i))
        n = z3.ToReal(at.n.t)
        cosf, sinf, atan2 = uf("cos", R, R), uf("sin", R, R), uf("arctan2", R, R, R)
        PI = z3.RealVal(repr(math.pi))

        def find_sum(summand_spec):
            for key, arr in sums.items():
                s = z3.Solver()
                s.set("timeout", 2000)
                s.add([h for h in st.pc if is_linear(h)])
                s.add(z3num(arr.row(i)) != summand_spec)
                if s.check() == z3.unsat:
                    return z3.Real(key)
            return None

        S_m = find_sum(mass)
        st.prove("total-mass-is-sum-of-masses", z3.BoolVal(S_m is not None))
        for k in range(3):
            s = z3.Solver()
            s.set("timeout", 3000)
            s.add(st.pc)
            s.add(z3.Not(z3bool(at.pbc[k])))
            periodic = s.check() == z3.unsat  # the code branched on pbc[k]: decided on this path
            if not periodic:
                S = find_sum(z3num(s_i[k]) * mass)
                ok = S is not None and S_m is not None
                st.prove("nonperiodic[%d].sum-of-mass-weighted-coordinate-exists" % k, z3.BoolVal(ok))
                if ok:
                    st.prove("nonperiodic[%d].is-weighted-mean" % k, z3num(rel[k]) == S / S_m)
            else:
                w = z3num(s_i[k] % 1.0)  # wrapped scaled coordinate (memoised: the term the code used)
                theta = w * 2 * PI
                SX = find_sum(cosf(theta) * mass)
                SZ = find_sum(sinf(theta) * mass)
                ok = SX is not None and SZ is not None
                st.prove("periodic[%d].sums-of-m-cos-and-m-sin-of-wrapped-angle-exist" % k, z3.BoolVal(ok))
                if ok:
                    spec = (atan2(-(SZ / n), -(SX / n)) + PI) / (2 * PI)
                    st.prove("periodic[%d].is-circular-mean" % k, z3num(rel[k]) == spec)

    run_fv(rep, "com.", m, "get_center_of_mass", mk, post,
           contracts={"matid/geometry/geometry.py:to_cartesian": capture_to_cartesian})

    # lemma mod-shift: (x + K) mod 1 == x mod 1 for integer K (semantics of the modulo used above)
    x, K, a, b = z3.Real("x"), z3.Int("K"), z3.Int("a"), z3.Int("b")
    from engine.common import prove
    ra, rb = x - z3.ToReal(a), x + z3.ToReal(K) - z3.ToReal(b)
    ob = prove("com.lemma.mod-shift", [ra >= 0, ra < 1, rb >= 0, rb < 1], ra == rb, func="matid/geometry/geometry.py:get_center_of_mass")
    rep.add(ob)
    rep.unproved_conjuncts.append("C20: 'the periodic centre of mass moves with a rigid translation (modulo the lattice)' is a property of the circular-mean formula (trigonometry); proved here: the code computes exactly that formula, and lattice shifts of single atoms change no summand")


def replay(ob):
    """native replay: evaluate the property clause of the failed obligation's section on the real functions"""
    from props import C20_native
    sec = ob.id.split(".")[0].split("[")[0]
    sec = {"scaled": "scaled", "wrapped": "wrapped", "swap": "swap", "complete": "complete", "min": "min", "inertia": "inertia", "com": "com"}.get(sec)
    if ob.id == "audit":
        allf = []
        for sc in ("scaled", "wrapped", "swap", "complete", "min", "inertia", "com"):
            allf += C20_native.check(sc)
        return {"reproduced": bool(allf), "failing_inputs": allf[:3], "section": "all"}
    if sec is None:
        return {"reproduced": False, "note": "no native section for %s" % ob.id}
    fails = C20_native.check(sec)
    return {"reproduced": bool(fails), "failing_inputs": fails, "section": sec}


def replay_file(rp):
    from engine.common import Ob
    return replay(Ob(id=rp["obligation"]))
