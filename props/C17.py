"""C17 — classifier output is consistent with dimensionality and with its own region (dispatch and views)."""
from __future__ import annotations

import numpy as np
import z3

from engine import contexts
from engine.aseshim import SymAtoms, sym_cell, sym_pbc, sym_positions, sym_int_rows
from engine.common import Report, Ob
from engine.errors import Unsupported
from engine.heap import SymSet, SymList, fresh_set, I, SetSort
from engine.larr import RowArr
from engine.npshim import NP, NPShim
from engine.pyvc import ModuleCtx, Obj, SR, SB, sint, sreal, z3num, z3bool, mkbool, cur
from engine.symcoll import LoopSpec, SymSeq, Opaque
from props._util import run_fv, section, sections_parallel

REL = "matid/classification/classifier.py"
RELC = "matid/classification/classifications.py"


class Region:
    """LinkedUnitCollection returned by the periodic search (contract of get_region): basis indices inside [0,n)"""

    def __init__(self, st, n, name="region"):
        self.basis = fresh_set(st, "basis")
        a = z3.Int("a!reg")
        st.assume(z3.ForAll([a], z3.Implies(self.basis.mem(a), z3.And(a >= 0, a < n.t))))
        self.is_2d = mkbool(st.fresh("is2d", "bool"))
        self.conn = np.array([mkbool(st.fresh("conn", "bool")) for _ in range(3)], dtype=object)
        self.cell = Opaque("prototype-cell")

    def get_basis_indices(self):
        return self.basis

    def get_connected_directions(self):
        return self.conn

    def _is_none(self):
        return False


class MatCopy:
    def _fill_diagonal(self, v):
        pass

    def min(self, axis=None):
        return SR(cur().fresh_real("mindist"))

    def _min(self, axis=None):
        if axis is None:
            return self.min()
        return MinRow()


class MinRow:
    def mean(self):
        return SR(cur().fresh_real("meanmin"))


class Mat:
    def _as_array(self):
        return MatCopy()


class Dist:
    def __init__(self):
        self.dist_matrix_mic = Mat()
        self.dist_matrix_radii_mic = Mat()


class NPc(NPShim):
    def min(self, a, axis=None):
        h = getattr(a, "_min", None)
        if h is not None:
            return h(axis)
        return np.min(a, axis=axis)

    def argsort(self, a):
        if isinstance(a, RowArr):
            n = a.n
            perm = z3.Function("argsort_perm", I, I)
            q = z3.Int("q!as")
            cur().assume(z3.ForAll([q], z3.Implies(z3.And(q >= 0, q < n.t), z3.And(perm(q) >= 0, perm(q) < n.t))))
            return SymSeq(n, lambda k: SR(perm(z3num(k))), "argsort")
        return np.argsort(a)


class IntBag:
    """Python list of ints appended inside a symbolic loop: known through its set view"""

    def __init__(self, s):
        self.s = s

    def append(self, x):
        self.s = SymSet(z3.Store(self.s.arr, z3num(x), z3.BoolVal(True)))

    def _state(self):
        return [self.s.arr]

    @staticmethod
    def set_of(x):
        return x.s if isinstance(x, IntBag) else SymSet.of(x)


def _ctx():
    geo = contexts.geometry_ctx()
    cm = ModuleCtx(RELC, {})
    import os
    from engine.common import REPO
    ns = {}
    exec(compile(open(os.path.join(REPO, "matid/data/constants.py")).read(), "constants.py", "exec"), ns)
    constants = type("constants", (), {k: v for k, v in ns.items() if k.isupper()})
    g = {"np": NPc(), "constants": constants, "PeriodicFinder": Opaque,
         "matid": contexts.ModNS("matid", None, {"geometry": contexts.ModNS("matid.geometry", geo)})}
    for k in ("Class0D", "Class1D", "Class2D", "Class3D", "Atom", "Unknown", "Material2D", "Surface", "Classification", "Class2DWithCell"):
        if k in cm.defs:
            g[k] = cm.defs[k]
    return ModuleCtx(REL, g), cm


def run():
    rep = Report("C17")
    rep.trusted_base = ["z3", "pyvc symbolic executor"]
    rep.assumptions = [
        "contract of get_dimensionality (C09): returns None or an int in 0..3, the dimensionality of the wrapped structure",
        "contract of PeriodicFinder.get_region / cross_validate_region: returns None or a region whose basis indices lie in [0, n)",
        "A-ASE: copy() is deep; wrap() only touches the copy",
        "'returns normally' for arbitrary structures is NOT covered: the periodic search is a float heuristic outside the contracts (L-HEUR)",
    ]
    items = [("views", _views), ("crossval", _crossval)]
    for sm in ("cm", "index"):
        for tm in ("relative", "absolute"):
            items.append(("classify[%s,%s]" % (sm, tm), lambda r, sm=sm, tm=tm: _classify(r, [sm], [tm])))
    items.append(("getdistances", _getdistances))
    items.append(("dimensionality", _dimensionality))
    sections_parallel(rep, items)
    return rep


def _dimensionality(rep):
    """'the dimensionality of the wrapped structure' is what get_dimensionality computes under its contract (C09): its obligations are part of
    this check, so that a change inside it is reported here as well"""
    from props import C09
    C09._dim(rep)


def _getdistances(rep):
    """the distance tables classify hands to get_dimensionality are those of the periodic search of the wrapped structure (contract of
    get_distances, shared with C10)"""
    from props import C10
    C10._getdistances(rep)
    C10._wrapper(rep)


def _classify(rep, seed_modes=("cm", "index"), tol_modes=("relative", "absolute")):
    m, cm = _ctx()
    for seed_mode in seed_modes:
        for tol_mode in tol_modes:
            def mk(st, it, seed_mode=seed_mode, tol_mode=tol_mode):
                n = sint("n")
                st.assume(n.t >= 1)
                st.ghost["n"] = n
                cell = sym_cell("c")
                vals = (2, 0, 0, "3/10", 2, 0, "1/10", "1/5", 3)
                for kk in range(9):
                    st.hint(z3.Real("c%d%d" % (kk // 3, kk % 3)) == z3.RealVal(str(vals[kk])))
                atoms = SymAtoms(n, cell, sym_pbc("pbc"), sym_positions("pos", n), sym_int_rows("Z", n))
                mc = sreal("min_coverage")
                self_ = contexts.make_self(m, "Classifier", {
                    "pos_tol_mode": tol_mode, "delaunay_threshold_mode": tol_mode, "pos_tol": [0.25, 0.75], "delaunay_threshold": 1.5,
                    "cluster_threshold": sreal("cluster_threshold"), "seed_position": "cm" if seed_mode == "cm" else 0, "min_coverage": mc})
                return [self_, atoms], {}, {"atoms": atoms, "n": n, "mc": mc, "self": self_}

            def dist_contract(it, st, bound, site):
                st.ghost["distances_of"] = bound["system"]
                return Dist()

            def dim_contract(it, st, bound, site):
                sysm = bound["system"]
                at0 = st.ghost["input"]
                st.prove(site + ".pre.classified-on-a-wrapped-copy", z3.BoolVal(isinstance(sysm, SymAtoms) and sysm is not at0 and sysm.origin is at0
                                                                                  and sysm.mutations == ["wrap"]))
                # a pre-computed matrix must be the matrix of exactly this (wrapped) structure
                Mx = bound.get("dist_matrix_radii_mic_1x")
                if Mx is not None:
                    st.prove(site + ".pre.distance-matrix-is-the-one-of-the-wrapped-copy", z3.BoolVal(st.ghost.get("distances_of") is sysm))
                for cand in (None, 0, 1, 2, 3):
                    d = st.fresh("dim_is_%s" % cand, "bool")
                    if st.fork(d):
                        st.ghost["dim"] = cand
                        return cand
                from engine.pyvc import PathKilled
                raise PathKilled()

            def com_contract(it, st, bound, site):
                return np.array([SR(st.fresh_real("cm")) for _ in range(3)], dtype=object)

            def crossval_contract(it, st, bound, site):
                seeds = bound["seed_indices"]
                st.ghost["seeds"] = seeds
                if st.fork(st.fresh("region_found", "bool")):
                    r = Region(st, st.ghost["n"])
                    st.ghost["region"] = r
                    return r
                return None

            def inv(st, env, k, old):
                n = st.ghost["n"]
                a = z3.Int("a!s")
                s = IntBag.set_of(env.lookup("seed_indices"))
                return [("seeds-in-range", z3.ForAll([a], z3.Implies(s.mem(a), z3.And(a >= 0, a < n.t))))]

            def havoc(st, env, old):
                env.vars["seed_indices"] = IntBag(fresh_set(st, "seeds"))
                env.vars["elems"] = fresh_set(st, "elems")
                for nm in ("i", "i_elem"):
                    env.vars.pop(nm, None)

            def mk2(st, it, mk=mk):
                a, k, c = mk(st, it)
                st.ghost["input"] = a[1]
                return a, k, c

            def post(st, ctx, r, seed_mode=seed_mode):
                at, n = ctx["atoms"], ctx["n"]
                d = st.ghost.get("dim", "unset")
                st.prove("input-untouched", z3.BoolVal(at.mutations == []))
                st.prove("dimensionality-was-evaluated", z3.BoolVal(d != "unset"))
                name = r._cls.name if isinstance(r, Obj) else repr(r)
                st.prove("returns-a-classification", z3.BoolVal(isinstance(r, Obj)))
                want = {None: ("Unknown",), 1: ("Class1D",), 3: ("Class3D",), 2: ("Class2D", "Surface", "Material2D")}
                if d == 0:
                    st.prove("dim0.atom-iff-single-atom", z3.If(n.t == 1, z3.BoolVal(name == "Atom"), z3.BoolVal(name == "Class0D")))
                elif d in want:
                    st.prove("dim%s.class" % d, z3.BoolVal(name in want[d]))
                if name in ("Surface", "Material2D"):
                    reg = st.ghost.get("region")
                    st.prove("refined.dimensionality-2", z3.BoolVal(d == 2))
                    st.prove("refined.carries-the-region", z3.BoolVal(reg is not None and r._f.get("region") is reg))
                    if reg is not None:
                        card = reg.basis._len().t
                        st.prove("refined.coverage", z3.ToReal(card) / z3.ToReal(n.t) >= ctx["mc"].t)

            run_fv(rep, "classify[%s,%s]." % (seed_mode, tol_mode), m, "Classifier.classify", mk2, post,
                   contracts={"matid/geometry/geometry.py:get_distances": dist_contract, "matid/geometry/geometry.py:get_dimensionality": dim_contract,
                              "matid/geometry/geometry.py:get_center_of_mass": com_contract, REL + ":Classifier.cross_validate_region": crossval_contract},
                   loops={("Classifier.classify", 1): LoopSpec(inv, havoc, name="seed-loop")})


def _views(rep):
    """Class2DWithCell.basis_indices / outliers partition the atoms; prototype_cell is the region's cell"""
    m, cm = _ctx()

    def mk(st, it):
        n = sint("n")
        st.assume(n.t >= 1)
        reg = Region(st, n)
        at = SymAtoms(n, None, None, None, None)
        o = Obj(cm.defs["Surface"])
        it.call(cm.find if False else it.find_method(cm.defs["Surface"], "__init__"), [o, at, reg])
        return [o], {}, {"o": o, "reg": reg, "n": n}

    def post_out(st, ctx, r):
        a = z3.Int("a!v")
        reg, n = ctx["reg"], ctx["n"]
        s = SymSet.of(r)
        st.prove("outliers-are-the-atoms-outside-the-basis", z3.ForAll([a], s.mem(a) == z3.And(a >= 0, a < n.t, z3.Not(reg.basis.mem(a)))))
        if isinstance(r, SymList):
            st.prove("outliers-duplicate-free", z3bool(r.dupfree))
        it = ctx["interp"]
        b = it.getattr(ctx["o"], "basis_indices")
        bs = SymSet.of(b)
        st.prove("basis-and-outliers-partition-the-atoms", z3.ForAll([a], z3.Implies(z3.And(a >= 0, a < n.t), bs.mem(a) != s.mem(a))))
        st.prove("basis-is-the-regions-basis", bs.arr == reg.basis.arr)
        st.prove("prototype-cell-is-the-regions-cell", z3.BoolVal(it.getattr(ctx["o"], "prototype_cell") is reg.cell))

    run_fv(rep, "views.", cm, "Class2DWithCell.outliers", mk, post_out)


def _crossval(rep):
    """cross_validate_region returns one of the regions produced by get_region (or None); stops early on full coverage"""
    m, cm = _ctx()
    produced = []

    class PF:
        def __init__(self, **kw):
            pass

        def get_region(self, system, index, size, tol, bond_threshold, distances=None):
            st = cur()
            if st.fork(st.fresh("found", "bool")):
                r = Region(st, st.ghost["n"])
                st.ghost.setdefault("produced", []).append(r)
                return r
            return None

    m.globals["PeriodicFinder"] = PF

    def mk(st, it):
        n = sint("n")
        st.assume(n.t >= 1)
        st.ghost["n"] = n
        at = SymAtoms(n, None, None, None, None)
        self_ = contexts.make_self(m, "Classifier", {"max_cell_size": [12], "abs_pos_tol": [0.3, 0.9], "angle_tol": 20, "cell_size_tol": 0.25,
                                                     "max_2d_cell_height": 5, "max_2d_single_cell_size": 5, "bond_threshold": 0.75})
        return [self_, at, [SR(z3.Int("seed0")), SR(z3.Int("seed1"))], Dist()], {}, {"n": n}

    def post(st, ctx, r):
        prod = st.ghost.get("produced", [])
        st.prove("result-is-a-produced-region-or-none", z3.BoolVal(r is None or any(r is p for p in prod)))
        if r is None:
            # nothing with a non-empty basis was produced
            x = z3.Int("x!cv")
            st.prove("none-only-if-no-region-has-atoms", z3.And([z3.Not(z3.Exists([x], p.basis.mem(x))) for p in prod]) if prod else z3.BoolVal(True))
        else:
            st.prove("result-has-most-basis-atoms-so-far-or-full-coverage",
                     z3.Or(r.basis._len().t == ctx["n"].t, z3.And([r.basis._len().t >= p.basis._len().t for p in prod])))

    run_fv(rep, "crossval.", m, "Classifier.cross_validate_region", mk, post, max_paths=3000)


def replay_key(ob):
    return "c17"


def _displaced():
    from ase.build import graphene
    g3 = graphene(vacuum=8).repeat((3, 3, 1))
    g3.set_pbc([True, True, False])
    rng = np.random.default_rng(4)
    p = g3.get_positions()
    c = np.array(g3.get_cell())
    for i in range(len(g3)):
        k = rng.integers(-5, 6, size=2)
        p[i] += k[0] * c[0] + k[1] * c[1]
    g3.set_positions(p)
    return g3


def replay(ob):
    """native: classify on the C01 structure family; class vs get_dimensionality of the wrapped structure; views; input frame"""
    import matid.geometry as g
    from matid.classification.classifier import Classifier
    from matid.classification import classifications as C
    from props.C01_native import structures

    fails = []
    from ase import Atoms
    extra = [("single atom", Atoms("He", positions=[[5, 5, 5]], cell=[10, 10, 10], pbc=True)),
             ("H2 molecule", Atoms("H2", positions=[[5, 5, 5], [5.74, 5, 5]], cell=[10, 10, 10], pbc=True)),
             ("water, no pbc", Atoms("H2O", positions=[[5, 5, 5], [5.9, 5, 5], [5, 5.9, 5]], cell=[10, 10, 10], pbc=False)),
             # one-atom cells that are not isolated atoms: the class follows the dimensionality, not the atom count
             ("one-atom fcc Cu cell", Atoms("Cu", positions=[[0, 0, 0]], cell=[[0, 1.805, 1.805], [1.805, 0, 1.805], [1.805, 1.805, 0]], pbc=True)),
             ("one-atom sc Po cell, unwrapped atom", Atoms("Po", positions=[[3.9, -0.2, 0.1]], cell=[3.35, 3.35, 3.35], pbc=True)),
             ("one-atom Cu monolayer", Atoms("Cu", positions=[[0, 0, 6]], cell=[[2.55, 0, 0], [1.275, 2.2084, 0], [0, 0, 12]], pbc=[True, True, False])),
             ("one-atom Au chain", Atoms("Au", positions=[[0, 5, 5]], cell=[2.6, 10, 10], pbc=[True, False, False])),
             # atoms stored several lattice vectors away from the cell
             ("graphene 3x3, atoms displaced by lattice vectors", _displaced()),
             # bonded only through the cell boundary, in partially periodic cells
             ("C sheet bonded across the boundary", Atoms("C2", scaled_positions=[[0.1, 0.1, 0.5], [0.9, 0.9, 0.5]], cell=[5.2, 5.2, 15], pbc=[True, True, False])),
             ("C ladder bonded across the boundary", Atoms("C2", scaled_positions=[[0.5, 0.5, 0.12], [0.5, 0.5, 0.88]], cell=[12, 12, 5.6], pbc=[False, False, True]))]
    # a threshold above the default: sheets 6.0 A apart are bonded (6.0 - 2*0.76 = 4.48 <= 5.0), the stack is three-dimensional
    from ase.build import graphene as _gr
    stack = _gr(size=(3, 3, 1), vacuum=None)
    cst = np.array(stack.get_cell()); cst[2] = [0, 0, 6.0]; stack.set_cell(cst); stack.set_pbc(True)
    try:
        r = Classifier(cluster_threshold=5.0).classify(stack)
        if not isinstance(r, C.Class3D):
            fails.append({"structure": "graphene sheets 6.0 A apart, cluster_threshold=5.0", "observed": "class %s, expected Class3D (sheets bonded: 4.48 A <= 5.0 A)" % type(r).__name__})
    except Exception as e:  # noqa
        fails.append({"structure": "graphene sheets 6.0 A apart, cluster_threshold=5.0", "observed": "%s: %s" % (type(e).__name__, e)})
    # a sheet whose region covers just under a non-integral min_coverage * n: 5x5 graphene (50 C) + 10 H adatoms, min_coverage 0.84 (50.4 atoms)
    try:
        from ase.build import graphene as _gr2
        rng_ = np.random.default_rng(0)
        sheet = _gr2(vacuum=10).repeat((5, 5, 1))
        sheet.set_pbc(True)
        sc = rng_.random((10, 3)); sc[:, 2] = 0
        pa = sc @ np.array(sheet.get_cell())
        pa[:, 2] = sheet.get_positions()[:, 2].mean() + 1.5 + 0.6 * rng_.random(10)
        deco = sheet + Atoms(["H"] * 10, positions=pa)
        clf2 = Classifier(min_coverage=0.84)
        r = clf2.classify(deco)
        if isinstance(r, (C.Surface, C.Material2D)) and len(set(r.basis_indices)) / len(deco) < 0.84:
            fails.append({"structure": "5x5 graphene + 10 H adatoms (default_rng(0)), min_coverage=0.84", "observed": "%s with %d basis atoms of %d: coverage %.4f below min_coverage" % (
                type(r).__name__, len(set(r.basis_indices)), len(deco), len(set(r.basis_indices)) / len(deco))})
    except Exception as e:  # noqa
        fails.append({"structure": "decorated graphene sheet", "observed": "%s: %s" % (type(e).__name__, e)})
    # a region that is found but does not cover min_coverage of the atoms: the result is still a two-dimensional class
    try:
        from ase.build import fcc100 as _f100c
        sl = _f100c("Cu", size=(4, 4, 3), vacuum=8)
        sl += Atoms("O", positions=[sl.get_positions()[-1] + np.array([0.0, 0.0, 1.8])])
        sl.set_pbc(True)
        r = Classifier(min_coverage=1.0).classify(sl)
        wsl = sl.copy(); wsl.wrap()
        dsl = g.get_dimensionality(wsl, Classifier().cluster_threshold)
        if dsl == 2 and not isinstance(r, C.Class2D):
            fails.append({"structure": "Cu(100) 4x4x3 slab with one O adatom, min_coverage=1.0", "observed": "class %s for dimensionality 2" % (type(r).__name__ if r is not None else "None (no classification returned)")})
    except Exception as e:  # noqa
        fails.append({"structure": "Cu(100) slab with one O adatom, min_coverage=1.0", "observed": "%s: %s" % (type(e).__name__, e)})
    for name, at in extra + structures():
        # C17 speaks about cells with non-zero volume (or entirely non-periodic structures)
        if name == "degenerate cell" or name.startswith("slab with a zero cell vector"):
            continue
        p0 = at.get_positions().copy()
        try:
            clf = Classifier()
            r = clf.classify(at)
            r2 = Classifier().classify(at)
        except Exception as e:  # noqa
            fails.append({"structure": name, "observed": "%s: %s" % (type(e).__name__, e)})
            continue
        w = at.copy(); w.wrap()
        d = g.get_dimensionality(w, clf.cluster_threshold)
        want = {None: (C.Unknown,), 0: (C.Atom,) if len(at) == 1 else (C.Class0D,), 1: (C.Class1D,), 2: (C.Class2D,), 3: (C.Class3D,)}[d]
        bad = []
        if not isinstance(r, want) or (d == 0 and len(at) > 1 and isinstance(r, C.Atom)):
            bad.append("class %s for dimensionality %r" % (type(r).__name__, d))
        if type(r) is not type(r2):
            bad.append("repeated call gives %s" % type(r2).__name__)
        if not np.array_equal(p0, at.get_positions()):
            bad.append("input modified")
        if isinstance(r, (C.Surface, C.Material2D)):
            b, o = set(r.basis_indices), set(r.outliers)
            if (b | o) != set(range(len(at))) or (b & o):
                bad.append("basis/outliers do not partition the atoms")
            if len(b) / len(at) < clf.min_coverage:
                bad.append("coverage below min_coverage")
            if r.prototype_cell is None:
                bad.append("no prototype cell")
        if bad:
            fails.append({"structure": name, "observed": bad})
    return {"reproduced": bool(fails), "failing_inputs": fails[:3]}


def replay_file(rp):
    return replay(Ob(id=rp["obligation"]))
