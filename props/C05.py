"""C05 — the conventional cell is the same crystal as the input, chirality preserved (MatID's own part)."""
from __future__ import annotations

import numpy as np
import z3

from engine import contexts, tabvc
from engine.common import Report, Ob, prove, func_source_info
from engine.pyvc import SR, z3num
from props import _sym
from props._util import section, sections_parallel

REL = _sym.REL
FN = REL + ":SymmetryAnalyzer._find_wyckoff_ground_state"


def _group_obligations(sg):
    """the real _find_wyckoff_ground_state on symbolic positions, for a bounded family of occupancies of this group"""
    INFO, WY, NZ = tabvc.load_tables()
    out = []
    entries = NZ.get(sg, [])
    agg = {"apply.affine": True, "apply.frame": True, "apply.member": True, "apply.letters": True, "apply.proper-in-sohncke": True, "apply.snap-is-numerical": True, "no-error": True}
    detail = {}
    sohncke = tabvc.is_sohncke(sg)
    nocc = 0
    for occ in _sym.occupancies(sg):
        nocc += 1
        res, oc, ex = _sym.run_ground_state(sg, occ)
        if len(oc) != 1 or oc[0][0] != "return":
            agg["no-error"] = False
            detail["no-error"] = "occupancy %s: %s" % (occ, [(o[0], repr(o[1])[:120]) for o in oc])
            continue
        new_sys, new_letters = res["result"]
        self_, system, st = res["self"], res["system"], res["st"]
        bt = self_._f.get("_best_transform")
        old_letters = [l for l, z in occ]
        # member: the applied transformation is the identity or a table entry of this group, and the permutation is the same entry's
        is_ident = bool(bt is not None and (bt.get("identity") or (
            np.array_equal(np.array(bt["transformation"], dtype=float), np.identity(4)) and all(bt["permutations"].get(l) == l for l in old_letters))))
        idx = None
        if bt is not None and not is_ident:
            for k, n in enumerate(entries):
                if n["transformation"] is bt["transformation"] and n["permutations"] is bt["permutations"]:
                    idx = k
        if not (is_ident or idx is not None):
            agg["apply.member"] = False
            detail["apply.member"] = "occupancy %s: applied transformation is not a table entry" % (occ,)
            continue
        T = np.identity(4) if is_ident else np.array(bt["transformation"])
        perm = {l: l for l in old_letters} if is_ident else bt["permutations"]
        # letters
        if [perm.get(l) for l in old_letters] != list(new_letters):
            agg["apply.letters"] = False
            detail["apply.letters"] = "occupancy %s: letters %s, expected %s" % (occ, list(new_letters), [perm.get(l) for l in old_letters])
        # frame: a copy; lattice / species / atom count of spglib's system untouched
        if new_sys is system:
            if system.set_calls != []:
                agg["apply.frame"] = False
                detail["apply.frame"] = "occupancy %s: the standardised system was modified" % (occ,)
        elif not (getattr(new_sys, "origin", None) is system and system.set_calls == []
                and new_sys.cell is system.cell and list(new_sys.numbers) == list(system.numbers) and len(new_sys) == len(system)):
            agg["apply.frame"] = False
            detail["apply.frame"] = "occupancy %s: result is not an untouched-lattice copy of the standardised system" % (occ,)
        # affine: x' = A x + t modulo 1 (and snapped to 0 within 1e-5)
        A = tabvc.ratm(T[:3, :3])
        t = tabvc.ratv(T[:3, 3])
        conj = []
        import engine.pyvc as _p
        _p.CUR = st  # the post-condition uses x % 1 (fresh integer witnesses live in this path's state)
        for i in range(len(system)):
            for k in range(3):
                # the table entry exactly as the code reads it (8-decimal floats denote their decimal value, L-FLOAT);
                # that these floats are the rational normalizer up to print precision is the rationalise obligation of C14
                img = z3.Sum([z3num(float(T[k, q])) * z3num(system.scaled[i, q]) for q in range(3)]) + z3num(float(T[k, 3]))
                got = new_sys.scaled[i, k]
                if new_sys is system or bt.get("identity"):
                    conj.append(z3num(got) == z3num(system.scaled[i, k]))
                else:
                    # equal to A.x + t modulo a lattice translation (or snapped to 0), inside [0,1)
                    # the stored coordinate is get_wrapped_positions (contract: x mod 1, snapped to 0 within 1e-5; C20) of exactly A.x + t
                    xin = st.ghost.get("wrapped_of", {}).get(str(z3num(got)))
                    conj.append(xin == img if xin is not None else z3.BoolVal(False))
        if conj:
            s = z3.Solver()
            s.set("timeout", 10000)
            s.add(st.pc)
            s.add(z3.Not(z3.And(conj)))
            r = s.check()
            _p.CUR = None
            if r != z3.unsat:
                agg["apply.affine"] = False
                detail["apply.affine"] = "occupancy %s: positions are not A.x+t (mod 1): %s" % (occ, r)
        # snapping to the cell face is a numerical clean-up (at most the documented 1e-5 in scaled units), never a displacement of atoms
        precs = st.ghost.get("wrap_prec", [])
        if precs:
            s = z3.Solver()
            s.set("timeout", 10000)
            s.add(st.pc)
            s.add(z3.Or([p > z3.RealVal("1/100000") for p in precs]))
            r = s.check()
            if r != z3.unsat:
                agg["apply.snap-is-numerical"] = False
                detail["apply.snap-is-numerical"] = "occupancy %s: coordinates closer to a cell face than a tolerance that can exceed 1e-5 are moved onto the face: %s" % (
                    occ, (str(s.model())[:300] if r == z3.sat else r))
        if sohncke and tabvc.det3(A) != 1:
            agg["apply.proper-in-sohncke"] = False
            detail["apply.proper-in-sohncke"] = "occupancy %s selects entry #%s with det %s in Sohncke group %d" % (occ, idx, tabvc.det3(A), sg)
    for k, ok in agg.items():
        out.append(Ob(id="%s[%d]" % (k, sg), status="proved" if ok else "refuted", backend="pyvc+z3", func=FN, kind="vc",
                      detail=detail.get(k, "%d occupancy patterns, symbolic positions" % nocc), witness={"sg": sg}))
    return out


def _run_group(sg):
    import engine.pyvc as _p
    # SR % 1 in the post needs an active state: run inside a throw-away explorer state
    from engine.pyvc import Explorer, State
    ex = Explorer("post")
    box = {}

    def thunk(st):
        box["r"] = _group_obligations(sg)
        return None

    # _group_obligations runs nested explorers (which reset CUR); keep it simple: evaluate outside and provide a state lazily
    return _group_obligations(sg)


def run():
    rep = Report("C05")
    rep.trusted_base = ["z3", "pyvc symbolic executor", "spglib Hall database (table lemmas)"]
    rep.assumptions = [
        "A-SPG: spglib's std_lattice/std_positions/std_types are the idealised standardised cell of the input in the Hall setting of the detected group, with the same space group",
        "the 'independent symmetry search on the returned structure' of the statement is replaced by the table lemmas (normalizer maps the group onto itself and is a lattice isometry): spglib itself is outside this family",
        "occupancy patterns are a bounded family (every single letter, letter pairs with two species); positions are symbolic",
    ]
    rep.functions.append(func_source_info(REL, "SymmetryAnalyzer._find_wyckoff_ground_state"))
    rep.obligations.extend(tabvc.run_family(_group_obligations, list(range(1, 231))))
    # table lemmas (shared with C14): every normalizer maps the group onto itself, preserves the metric, is proper in Sohncke groups
    nz = tabvc.run_family(tabvc.normalizer_obligations, list(range(1, 231)))
    rep.obligations.extend(o for o in nz if o.id.split("[")[0] in ("nz.normalises", "nz.metric", "nz.handed", "nz.affine"))
    # lemma: an improper isometry T composed with an improper group element h is proper, and T(h(X)) = T(X) as sets when h(X) = X
    dT, dh = z3.Reals("detT deth")
    rep.add(prove("lemma.improper-composed-with-improper-is-proper", [dT * dT == 1, dh * dh == 1, dT < 0, dh < 0], dT * dh == 1, func=FN))
    section(rep, "system", lambda: _spglib_system(rep))
    rep.extra["explanation"] = ("MatID's contribution to the conventional cell is 'spglib's standardised cell moved by one tabulated normalizer': "
                                "that application is executed symbolically for every group; the table lemmas carry the geometric meaning")
    # spglib is asked about the analysed structure with the analyzer's tolerance; the simple getters are dataset look-ups (shared section)
    from props import _sym as _symmod
    from props._util import section as _section
    _section(rep, "dataset", lambda: _symmod.dataset_section(rep))
    return rep


def _spglib_system(rep):
    """_get_spglib_conventional_system builds Atoms from exactly (std_lattice, std_positions, std_types)"""
    from engine.pyvc import Explorer, Interp
    from engine.symcoll import Opaque
    m = contexts.symmetry_ctx()
    f = m.get("SymmetryAnalyzer._get_spglib_conventional_system")
    lat, pos, typ = Opaque("std_lattice"), Opaque("std_positions"), Opaque("std_types")

    class DS:
        std_lattice, std_positions, std_types = lat, pos, typ

    calls = []

    def atoms(**kw):
        calls.append(kw)
        return Opaque("atoms")

    old = m.globals["Atoms"]
    m.globals["Atoms"] = atoms
    try:
        ex = Explorer("x")

        def thunk(st):
            it = Interp(st, contracts={REL + ":SymmetryAnalyzer.get_symmetry_dataset": lambda *a: DS})
            self_ = contexts.make_self(m, "SymmetryAnalyzer", {"_spglib_conventional_system": None})
            return it.run_func(f, [self_], {})

        oc = ex.explore(thunk)
    finally:
        m.globals["Atoms"] = old
    ok = (len(oc) == 1 and oc[0][0] == "return" and len(calls) == 1 and calls[0].get("cell") is lat and calls[0].get("scaled_positions") is pos
          and calls[0].get("numbers") is typ and set(calls[0]) == {"cell", "scaled_positions", "numbers"})
    rep.add(Ob(id="system.built-from-spglib-standardised-cell", status="proved" if ok else "refuted", backend="pyvc", kind="vc",
               func=REL + ":SymmetryAnalyzer._get_spglib_conventional_system", detail="" if ok else "Atoms(%s)" % (calls,)))
    rep.functions.append(func_source_info(REL, "SymmetryAnalyzer._get_spglib_conventional_system"))


def replay_key(ob):
    return str((ob.witness or {}).get("sg"))


def replay(ob):
    """native: probe crystals through the real analyzer; conventional system vs spglib's standardised atoms under the applied normalizer"""
    from props import table_replay as tr
    import spglib

    w = ob.witness or {}
    groups = [w["sg"]] if "sg" in w else []
    groups += [214, 198, 92, 19, 4, 152, 221, 62, 227, 88]
    fails = []
    for sg in groups[:8]:
        for extra in _sym.occupancies(sg)[:(40 if "sg" in w and sg == w["sg"] else 6)]:
            try:
                at = tr.pinned_probe(sg, [(l, z + 15, None) for l, z in extra], npin=1)
                if len(at) > 250:
                    continue
                a = tr.analyze(at)
                conv = a.get_conventional_system()
                if int(a.get_space_group_number()) != sg:
                    continue
                ds = a.get_symmetry_dataset()
                T = np.array(a._best_transform["transformation"])
                bad = []
                if tabvc.is_sohncke(sg) and np.linalg.det(T[:3, :3]) < 0:
                    bad.append("improper transformation applied in Sohncke group: mirror image returned")
                if abs(np.array(conv.get_cell()) - np.array(ds.std_lattice)).max() > 1e-8:
                    bad.append("lattice differs from the standardised lattice")
                if sorted(conv.get_atomic_numbers()) != sorted(ds.std_types):
                    bad.append("composition differs")
                img = (np.array(ds.std_positions) @ T[:3, :3].T + T[:3, 3]) % 1.0
                d = conv.get_scaled_positions()[:, None, :] - img[None, :, :]
                d = (d + 0.5) % 1.0 - 0.5
                if np.abs(d).max(axis=2).min(axis=1).max() > 1e-4:
                    bad.append("atoms are not the standardised atoms moved by the applied normalizer")
                d2 = spglib.get_symmetry_dataset((conv.get_cell(), conv.get_scaled_positions(), conv.get_atomic_numbers()), 1e-3)
                if d2.number != sg:
                    bad.append("returned structure has space group %d" % d2.number)
                if bad:
                    fails.append({"sg": sg, "occupied": extra, "observed": bad})
            except Exception as e:  # noqa
                fails.append({"sg": sg, "occupied": extra, "observed": "%s: %s" % (type(e).__name__, str(e)[:200])})
            if len(fails) >= 3:
                return {"reproduced": True, "failing_inputs": fails}
    # a chiral crystal described in a left-handed basis (a and b exchanged together with the coordinates) is still the same crystal
    try:
        for sg in (76, 144, 19):
            at = tr.pinned_probe(sg, npin=2)
            cell = np.array(at.get_cell())[[1, 0, 2]]
            sp = at.get_scaled_positions()[:, [1, 0, 2]]
            from ase import Atoms as _At
            lh = _At(numbers=at.get_atomic_numbers(), scaled_positions=sp, cell=cell, pbc=True)
            if np.abs(lh.get_positions() - at.get_positions()).max() > 1e-9:
                continue
            n_ref = int(tr.analyze(at).get_space_group_number())
            n_lh = int(tr.analyze(lh).get_space_group_number())
            if n_ref != n_lh:
                fails.append({"sg": sg, "presentation": "the same atoms with cell vectors a and b exchanged (left-handed basis)", "observed": "space group %d, in the right-handed basis %d" % (n_lh, n_ref)})
                return {"reproduced": True, "failing_inputs": fails}
    except Exception as e:  # noqa
        fails.append({"presentation": "left-handed basis", "observed": "%s: %s" % (type(e).__name__, str(e)[:200])})
    # one analyzer used for two crystals in turn: the conventional system must be the second crystal's
    try:
        a = tr.analyze(tr.pinned_probe(152, npin=1))
        a.get_conventional_system()
        second = tr.pinned_probe(154, [(_sym.letters_of(154)[0], 32, None)], npin=1)
        a.set_system(second)
        conv = a.get_conventional_system()
        if sorted(conv.get_atomic_numbers()) != sorted(a.get_symmetry_dataset().std_types):
            fails.append({"sg": 154, "presentation": "analyzer that had analysed another crystal before (set_system)", "observed": "conventional system has the composition of the previous crystal"})
            return {"reproduced": True, "failing_inputs": fails}
    except Exception as e:  # noqa
        fails.append({"presentation": "set_system on a used analyzer", "observed": "%s: %s" % (type(e).__name__, str(e)[:200])})
    # coordinates close to (but not on) a cell face after the applied normalizer: snapping must stay a numerical clean-up
    for sg in ([w["sg"]] if "sg" in w else []) + [75, 16, 143, 3, 25]:
        L = _sym.letters_of(sg)
        for special in L[:3]:
            for par in ({"x": 0.5011, "y": 0.21, "z": 0.41}, {"x": 0.13, "y": 0.5011, "z": 0.2511}, {"x": 0.0011, "y": 0.3341, "z": 0.5011}):
                try:
                    at = tr.probe(sg, [(L[-1], 8, par), (special, 14, None)])
                    if len(at) > 250:
                        continue
                    a = tr.analyze(at, tol=0.01)
                    conv = a.get_conventional_system()
                    if int(a.get_space_group_number()) != sg:
                        continue
                    ds = a.get_symmetry_dataset()
                    T = np.array(a._best_transform["transformation"])
                    img = (np.array(ds.std_positions) @ T[:3, :3].T + T[:3, 3]) % 1.0
                    d = conv.get_scaled_positions()[:, None, :] - img[None, :, :]
                    d = (d + 0.5) % 1.0 - 0.5
                    bad = []
                    if np.abs(d).max(axis=2).min(axis=1).max() > 1e-4:
                        bad.append("atoms are not the standardised atoms moved by the applied normalizer (an atom %.4f from a cell face was moved onto it)" % 0.0011)
                    d2 = spglib.get_symmetry_dataset((conv.get_cell(), conv.get_scaled_positions(), conv.get_atomic_numbers()), 1e-4)
                    if d2 is None or d2.number != sg:
                        bad.append("returned structure has space group %s" % (None if d2 is None else d2.number))
                    if bad:
                        fails.append({"sg": sg, "occupied": [L[-1], special], "parameters": par, "symmetry_tol": 0.01, "observed": bad})
                        return {"reproduced": True, "failing_inputs": fails}
                except Exception as e:  # noqa
                    fails.append({"sg": sg, "occupied": [L[-1], special], "observed": "%s: %s" % (type(e).__name__, str(e)[:200])})
    return {"reproduced": bool(fails), "failing_inputs": fails}


def replay_file(rp):
    return replay(Ob(id=rp["obligation"], witness=rp.get("witness")))
