"""helpers shared by the property modules"""
from __future__ import annotations

import traceback

import z3

from engine.common import Ob, Report, func_source_info
from engine.errors import Unsupported
from engine.pyvc import verify_function, Explorer, PathKilled


def run_fv(rep: Report, prefix, module, qualname, mk, post, expect_raise=False, **kw):
    """verify_function + vacuity guards (a reachable return path; a false post-condition must be refuted)."""
    state = {"returns": 0}

    def post2(st, ctx, r):
        state["returns"] += 1
        st.prove("__canary__", z3.BoolVal(False), kind="canary")
        post(st, ctx, r)

    ex = verify_function(module, qualname, mk, post2, **kw)
    fn = "%s:%s" % (module.relpath, qualname)
    try:
        info = func_source_info(module.relpath, qualname)
        if not any(f.get("name") == info["name"] for f in rep.functions):
            rep.functions.append(info)
    except Exception:
        pass
    n_obs = 0
    for ob in ex.results():
        if ob.id == "__canary__":
            # refuted: a model of the path condition exists (non-vacuous). unknown: `False` is not derivable from the path
            # condition with the budget that discharges the real obligations (no model found: quantified/nonlinear).
            # proved: the path condition is contradictory - every obligation on it would hold vacuously.
            if ob.status == "refuted":
                stt, det = "proved", "model of the path condition found"
            elif ob.status == "unknown":
                stt, det = "proved", "False not derivable within the proof budget (no model found)"
                rep.vacuity["canaries_without_model"] = rep.vacuity.get("canaries_without_model", 0) + 1
            else:
                stt, det = "error", "a false post-condition was proved: precondition/path vacuous"
            c = Ob(id=prefix + "canary", kind="canary", backend="z3", func=fn, status=stt, detail=det)
            rep.add(c)
            continue
        ob.id = prefix + ob.id
        ob.func = fn
        rep.add(ob)
        n_obs += 1
    raises = sum(1 for o in ex.outcomes if o[0] == "raise")
    rep.add(Ob(id=prefix + "cover.return-path", kind="cover", backend="engine", func=fn,
               status="proved" if (state["returns"] > 0 or expect_raise) else "error",
               detail="paths=%d returns=%d" % (ex.paths, state["returns"])))
    rep.vacuity.setdefault("paths", {})[prefix.rstrip(".")] = ex.paths
    return ex


def section(rep: Report, name, fn):
    """Run one group of obligations; an Unsupported source construct makes the group undecided, not violated."""
    try:
        fn()
    except Unsupported as e:
        rep.add(Ob(id=name + ".engine", status="unknown", backend="engine", detail="unsupported: %s" % e, kind="vc"))
    except Exception:
        rep.add(Ob(id=name + ".engine", status="error", backend="engine", detail=traceback.format_exc()[-1500:], kind="vc"))


_ITEMS = []


def _run_section(idx):
    name, fn = _ITEMS[idx]
    from engine import contexts
    rep = Report("tmp")
    section(rep, name, lambda: fn(rep))
    from engine.pyvc import executed_functions
    for f in executed_functions():
        if not any(g.get("name") == f["name"] for g in rep.functions):
            rep.functions.append(f)
    for ob in rep.obligations:
        ob.smt2 = ob.smt2[:800]
        try:
            import json
            json.dumps(ob.witness)
        except Exception:
            ob.witness = str(ob.witness)[:2000]
    return rep.obligations, rep.functions, rep.vacuity, rep.unproved_conjuncts, rep.bounded


def sections_parallel(rep: Report, items, jobs=8):
    """run independent sections [(name, fn(rep))] in forked workers and merge their reports"""
    import multiprocessing as mp
    import os

    if os.environ.get("VERIF_SERIAL") or len(items) == 1:
        for name, fn in items:
            section(rep, name, lambda fn=fn: fn(rep))
        return
    global _ITEMS
    _ITEMS = list(items)
    ctx = mp.get_context("fork")
    with ctx.Pool(min(jobs, len(items))) as p:
        results = p.map(_run_section, list(range(len(items))), chunksize=1)
    for obs, funcs, vac, unp, bnd in results:
        rep.obligations.extend(obs)
        for f in funcs:
            if not any(g.get("name") == f.get("name") for g in rep.functions):
                rep.functions.append(f)
        for k, v in vac.items():
            if isinstance(v, dict):
                rep.vacuity.setdefault(k, {}).update(v)
            elif isinstance(v, int):
                rep.vacuity[k] = rep.vacuity.get(k, 0) + v
            else:
                rep.vacuity[k] = v
        rep.unproved_conjuncts.extend(unp)
        rep.bounded.extend(bnd)


def result_lists(env, expected, kinds=(list,)):
    """names of the local lists a loop fills, independent of what the code calls them: the expected names when they exist, otherwise
    the function's list-valued locals in the order they were created (a pure renaming); anything else does not fit the contract"""
    if all(nm in env.vars for nm in expected):
        return list(expected)
    names = [k for k, v in env.vars.items() if isinstance(v, kinds)]
    if len(names) != len(expected):
        raise Unsupported("expected %d result lists %s among the locals, found %s" % (len(expected), list(expected), names))
    return names
