"""Native replay for C01/C13: the top-level contracts evaluated on the real code for small scopes.
Used (a) to replay refuted / undecided obligations on the tree under verification, (b) in the thorough tier as run-time audit
of the contracts on the unchanged tree (a firing contract there = contract error or defect; never ignored)."""
from __future__ import annotations

import itertools

import numpy as np


def _components(D, idx, thr):
    idx = list(idx)
    parent = {i: i for i in idx}

    def find(x):
        while parent[x] != x:
            parent[x] = parent[parent[x]]
            x = parent[x]
        return x

    for a in idx:
        for b in idx:
            if a < b and D[a, b] <= thr:
                parent[find(a)] = find(b)
    comps = {}
    for i in idx:
        comps.setdefault(find(i), set()).add(i)
    return list(comps.values())


class _D:
    pass


def localize(limit=4000):
    from ase import Atoms
    from matid.clustering.sbc import SBC
    from matid.clustering.cluster import Cluster

    n = 4
    system = Atoms("H4", positions=np.arange(12).reshape(4, 3) * 1.0)
    subsets = [s for r in range(0, n + 1) for s in itertools.combinations(range(n), r)]
    rng = np.random.default_rng(0)
    mats = [rng.uniform(-1, 2, size=(n, n)) for _ in range(2)]
    count = 0
    for K in (2, 3):
        for combo in itertools.product(subsets, repeat=K):
            if count > limit:
                return []
            if sum(len(c) for c in combo) < 2:
                continue
            count += 1
            for M in mats[: 1 if K == 3 else 2]:
                d = _D()
                d.dist_matrix_radii_mic = M
                clusters = [Cluster(list(c), {1}) for c in combo]
                before = [set(c.indices) for c in clusters]
                try:
                    out = SBC()._localize_clusters(system, clusters, 1.0, d)
                except Exception as e:  # noqa
                    return [{"function": "SBC._localize_clusters", "clusters": [list(c) for c in combo], "observed": "%s: %s" % (type(e).__name__, e)}]
                bad = []
                if out is not clusters and [id(x) for x in out] != [id(x) for x in clusters]:
                    bad.append("does not return the given clusters")
                after = [list(c.indices) for c in out]
                for b, a in zip(before, after):
                    if not set(a) <= b:
                        bad.append("atoms added")
                    if len(set(a)) != len(a):
                        bad.append("duplicates")
                for i in range(n):
                    owners = [k for k, a in enumerate(after) if i in a]
                    if len(owners) > 1:
                        bad.append("atom %d in clusters %s" % (i, owners))
                    if any(i in b for b in before) and not owners:
                        bad.append("atom %d lost" % i)
                if bad:
                    return [{"function": "SBC._localize_clusters", "clusters": [list(c) for c in combo], "after": after, "observed": bad}]
    return []


def _line_system(gaps, pbc=False):
    from ase import Atoms

    x = np.concatenate([[0.0], np.cumsum(gaps)])
    pos = np.zeros((len(x), 3))
    pos[:, 0] = x + 1.0
    return Atoms("Cu%d" % len(x), positions=pos, cell=[x.max() + 12.0, 10, 10], pbc=pbc)


def clean(limit=600, c13=False):
    """_clean_clusters + Cluster.get_dimensionality (C13) on chains with gaps: clusters with dangling atoms"""
    import matid.geometry as g
    from matid.clustering.sbc import SBC
    from matid.clustering.cluster import Cluster

    thr = 0.65
    fails = []
    count = 0
    for gaps in itertools.product([2.4, 4.5], repeat=5):
        for pbc in (False, True):
            system = _line_system(gaps, pbc)
            n = len(system)
            radii = g.get_radii("covalent", system.get_atomic_numbers())
            dist = g.get_distances(system, radii)
            D = dist.dist_matrix_radii_mic
            for split in (n, 3, 4):
                parts = [list(range(0, split)), list(range(split, n))]
                parts = [p for p in parts if p]
                if split == 3:
                    # _localize_clusters may strip every atom from a cluster: such a cluster must not be reported
                    parts = parts + [[]]
                count += 1
                if count > limit:
                    return fails
                for prefill in (False, True):
                    clusters = [Cluster(list(p), {29}, None, system=system, distances=dist, radii=radii, bond_threshold=thr) for p in parts]
                    if prefill:
                        for c in clusters:
                            c._get_distance_matrix_radii_mic()
                    before = [set(c.indices) for c in clusters]
                    try:
                        out = SBC()._clean_clusters(clusters, thr)
                    except Exception as e:  # noqa
                        return [{"function": "SBC._clean_clusters", "gaps": gaps, "observed": "%s: %s" % (type(e).__name__, e)}]
                    for c in out:
                        k = [id(x) for x in clusters].index(id(c))
                        bad = []
                        idx = list(c.indices)
                        if not idx:
                            bad.append("empty cluster")
                        if len(set(idx)) != len(idx) or not set(idx) <= before[k]:
                            bad.append("not a duplicate-free subset")
                        comps = _components(D, before[k], thr)
                        if set(idx) not in comps:
                            bad.append("kept atoms %s are not one bonded component of %s" % (sorted(idx), sorted(before[k])))
                        elif len(idx) != max(len(x) for x in comps):
                            bad.append("kept component is not a largest one")
                        m = c._distance_matrix_radii_mic
                        if not c13:
                            if bad:
                                return [{"function": "SBC._clean_clusters", "gaps": list(gaps), "pbc": pbc, "cluster": sorted(before[k]), "observed": bad}]
                            continue
                        if m is not None and (m.shape != (len(idx), len(idx))):
                            bad.append("cached distance matrix has shape %s for %d atoms (stale cache)" % (m.shape, len(idx)))
                        try:
                            got = c.get_dimensionality()
                            ref = g.get_dimensionality(system[idx], thr, radii=radii[idx])
                            if got != ref:
                                bad.append("Cluster.get_dimensionality() = %r, get_dimensionality(atoms) = %r" % (got, ref))
                            if c.get_dimensionality() != got:
                                bad.append("repeated call differs")
                        except Exception as e:  # noqa
                            bad.append("get_dimensionality raised %s: %s" % (type(e).__name__, e))
                        if bad:
                            return [{"function": "SBC._clean_clusters / Cluster.get_dimensionality", "gaps": list(gaps), "pbc": pbc,
                                     "cluster": sorted(before[k]), "prefilled_cache": prefill, "observed": bad}]
    return fails


def structures():
    from ase import Atoms
    from ase.build import bulk, fcc111

    rng = np.random.default_rng(3)
    out = []
    a = bulk("Cu", "fcc", a=3.6, cubic=True) * (2, 2, 2)
    out.append(("fcc", a))
    b = bulk("NaCl", "rocksalt", a=5.64, cubic=True) * (2, 2, 2)
    b.set_pbc(False)
    b.center(vacuum=5)
    out.append(("rocksalt crystallite", b[[i for i in range(len(b)) if i % 7 != 3]]))
    s = fcc111("Al", size=(3, 3, 3), vacuum=8)
    out.append(("slab", s))
    s2 = s.copy()
    s2 += Atoms("O2", positions=s.get_positions()[-1] + np.array([[0, 0, 1.9], [0, 0, 3.1]]))
    out.append(("slab+adsorbate", s2))
    for k in range(4):
        n = int(rng.integers(1, 9))
        pbc = [bool(x) for x in rng.integers(0, 2, size=3)]
        out.append(("gas%d" % k, Atoms(numbers=rng.choice([1, 6, 8, 14], size=n), positions=rng.uniform(0, 6, size=(n, 3)), cell=[6.5, 7, 7.5], pbc=pbc)))
    c = bulk("Si", "diamond", a=5.43, cubic=True) * (2, 2, 1)
    c.rattle(0.05, seed=1)
    p = c.get_positions()
    p[0] += 2 * c.cell[0]
    c.set_positions(p)
    out.append(("diamond rattled, unwrapped", c))
    # rock salt with an ordered patch of substituted atoms: a region with more species lies inside the region of the host crystal
    nk = bulk("NaCl", "rocksalt", a=5.64, cubic=True) * (4, 3, 3)
    zs = nk.get_atomic_numbers()
    for i, (pp, z) in enumerate(zip(nk.get_positions(), zs)):
        if z == 11 and np.allclose(pp / 5.64, np.round(pp / 5.64)) and pp[0] < 2 * 5.64 - 0.1:
            zs[i] = 19
    nk.set_atomic_numbers(zs)
    out.append(("rock salt with an ordered patch of K on Na sites", nk))
    from ase.build import fcc100 as _f100
    zs_ = _f100("Cu", size=(3, 3, 2), vacuum=None)
    cz = np.array(zs_.get_cell()); cz[2] = 0.0
    zs_.set_cell(cz); zs_.set_pbc([True, True, False])
    out.append(("slab with a zero cell vector along its non-periodic direction", zs_))
    out.append(("degenerate cell", Atoms("H2O", positions=[[0, 0, 0], [0.9, 0, 0], [0, 0.9, 0]], cell=[0, 0, 0], pbc=False)))
    return out


def end_to_end(which=None, c13=False):
    """the whole statement of C01 (and C13) on get_clusters for a fixed family of small structures"""
    import matid.geometry as g
    from matid.clustering.sbc import SBC

    fails = []
    fam = structures()
    if c13:
        from ase.build import bulk
        rng = np.random.default_rng(1)
        for k in range(4):
            a = bulk("NaCl", "rocksalt", a=5.64, cubic=True) * (3, 3, 3)
            a.set_pbc(False)
            a.center(vacuum=6)
            fam.append(("defective rocksalt crystallite %d" % k, a[rng.random(len(a)) > 0.25]))
    if c13:
        # layered crystals in a fully periodic cell: the layers are bonded with van der Waals radii but not with covalent ones, so the
        # shortcut must use the radii of the clustering
        from ase.build import graphene, mx2
        gr = graphene(size=(4, 4, 1), vacuum=None)
        cell = np.array(gr.get_cell())
        cell[2] = [0, 0, 3.35]
        gr.set_cell(cell)
        gr.set_pbc(True)
        fam.insert(0, ("layered: graphene sheets 3.35 A apart", gr))
        gv = gr.copy()
        del gv[5]
        fam.insert(1, ("layered: graphene sheets with a vacancy", gv))
        # multiply twinned particle of a metal whose nearest-neighbour gap (0.58 A for Pb) lies between the merge threshold and the bond
        # threshold: regions found from different seeds overlap and are merged
        from ase.cluster import Decahedron
        from ase import Atoms as _Atoms
        dp = Decahedron("Pb", 3, 3, 0)
        pbp = _Atoms(symbols=dp.get_chemical_symbols(), positions=dp.get_positions(), pbc=False)
        pbp.center(vacuum=6.0)
        fam.insert(2, ("Pb decahedron (55 atoms)", pbp))
        # rattled slab in a fully periodic cell with a 3.6 A gap between its images: regions from different seeds are merged, and with the
        # custom radii the images are bonded (3D) although they are not with covalent radii (2D)
        from ase.build import fcc111 as _f111
        sl = _f111("Al", size=(6, 6, 4), vacuum=1.8)
        sl.set_pbc(True)
        sl.rattle(0.1, seed=1)
        fam.insert(3, ("custom radii: rattled Al slab, periodic images 3.6 A apart", sl))
    for name, at in fam:
        for bt in ((0.65, 0.9) if c13 else (0.65,)):
            fails.extend(_e2e_one(name, at, bt, c13))
        if len(fails) >= 3:
            break
    return fails


def _e2e_one(name, at, bt, c13):
    import matid.geometry as g
    from matid.clustering.sbc import SBC

    fails = []
    if True:
        pos0, cell0, pbc0, num0 = at.get_positions().copy(), np.array(at.get_cell()).copy(), at.get_pbc().copy(), at.get_atomic_numbers().copy()
        presets = ("covalent", "vdw_covalent") + (("vdw",) if name.startswith("layered") else ()) + (("custom",) if name.startswith("custom radii") else ())
        for radii in presets:
            radii_name = radii
            if radii == "custom":
                # a caller's own per-atom array (1.35 x covalent)
                radii = 1.35 * g.get_radii("covalent", num0)
            try:
                cl = SBC().get_clusters(at, radii=radii, bond_threshold=bt)
                cl2 = SBC().get_clusters(at, radii=radii, bond_threshold=bt)
            except Exception as e:  # noqa
                fails.append({"structure": name, "observed": "get_clusters raised %s: %s" % (type(e).__name__, e)})
                continue
            bad = []
            if not (np.array_equal(at.get_positions(), pos0) and np.array_equal(np.array(at.get_cell()), cell0) and (at.get_pbc() == pbc0).all()
                    and (at.get_atomic_numbers() == num0).all()):
                bad.append("input structure modified")
            if sorted(sorted(c.indices) for c in cl) != sorted(sorted(c.indices) for c in cl2):
                bad.append("not deterministic")
            n = len(at)
            r = g.get_radii(radii, num0)
            wrapped = at.copy()
            seen = set()
            for c in cl:
                idx = list(c.indices)
                if not idx:
                    bad.append("empty cluster")
                if len(set(idx)) != len(idx):
                    bad.append("duplicate indices")
                if any(i < 0 or i >= n for i in idx):
                    bad.append("index out of range")
                if seen & set(idx):
                    bad.append("clusters overlap")
                seen |= set(idx)
                if any(num0[i] not in c.species for i in idx):
                    bad.append("atom species not in cluster.species")
                try:
                    sub = at[idx]
                    if g.get_dimensionality(sub, bt, radii=r[idx]) is None:
                        bad.append("cluster %s is not one bonded component" % sorted(idx))
                    if c13 and c.get_dimensionality() != g.get_dimensionality(sub, bt, radii=r[idx]):
                        bad.append("C13: shortcut %r != reference" % (c.get_dimensionality(),))
                except Exception as e:  # noqa
                    bad.append("dimensionality raised %s: %s" % (type(e).__name__, e))
                cell = c.get_cell()
                if cell is None or int(np.sum(cell.get_pbc())) not in (2, 3):
                    bad.append("prototype cell periodic in %s directions" % (None if cell is None else int(np.sum(cell.get_pbc()))))
            if bad:
                fails.append({"structure": name, "radii": radii, "bond_threshold": bt, "observed": bad[:5]})
    return fails


def unordered_clusters(trials=60):
    """C13 on clusters whose index list is not ascending and whose atoms have very different radii: the shortcut must pair every atom
    with its own radius (random periodic H/Cs boxes; the reference is get_dimensionality of the cluster's atoms with the radii of these atoms)"""
    import matid.geometry as g
    from ase import Atoms
    from matid.clustering.cluster import Cluster

    rng = np.random.default_rng(11)
    fails = []
    for trial in range(trials):
        n = int(rng.integers(4, 9))
        L = float(rng.uniform(5.0, 7.5))
        pbc = [bool(x) for x in rng.integers(0, 2, size=3)]
        at = Atoms(numbers=rng.choice([1, 55], size=n), positions=rng.uniform(0, L, size=(n, 3)), cell=[L, L * 1.1, L * 0.9], pbc=pbc)
        radii = g.get_radii("covalent", at.get_atomic_numbers())
        dist = g.get_distances(at, radii)
        k = int(rng.integers(2, n + 1))
        idx = [int(i) for i in rng.permutation(n)[:k]]
        for thr in (0.3, 0.8):
            try:
                c = Cluster(list(idx), set(at.get_atomic_numbers()[idx].tolist()), None, system=at, distances=dist, radii=radii, bond_threshold=thr)
                got = c.get_dimensionality()
                ref = g.get_dimensionality(at[idx], thr, radii=radii[idx])
            except Exception as e:  # noqa
                fails.append({"function": "Cluster.get_dimensionality", "observed": "%s: %s" % (type(e).__name__, e)})
                continue
            if got != ref:
                fails.append({"function": "Cluster.get_dimensionality", "numbers": at.get_atomic_numbers().tolist(), "positions": at.get_positions().round(4).tolist(),
                              "cell": [L, L * 1.1, L * 0.9], "pbc": pbc, "indices": idx, "threshold": thr,
                              "observed": "Cluster.get_dimensionality() = %r, get_dimensionality(cluster atoms, radii of these atoms) = %r" % (got, ref)})
        if len(fails) >= 2:
            break
    return fails


def random_gases(limit=400):
    """the statement of C01 on dense random gases without periodicity (many small overlapping regions: the order of merging, overlap
    resolution and outlier removal matters here); ~30 s"""
    import matid.geometry as g
    from ase import Atoms
    from matid.clustering import SBC

    fails = []
    for k in range(limit):
        rng = np.random.default_rng(1000 + k)
        n = int(rng.integers(25, 50))
        L = (n * 11.0) ** (1 / 3)
        at = Atoms(numbers=rng.choice([6, 8, 14, 29], size=n), positions=rng.uniform(0, L, size=(n, 3)), cell=[L, L, L], pbc=False)
        try:
            cl = SBC().get_clusters(at, seed=k)
        except Exception as e:  # noqa
            fails.append({"structure": "random gas, generator seed %d" % (1000 + k), "observed": "get_clusters raised %s: %s" % (type(e).__name__, e)})
            continue
        r = g.get_radii("covalent", at.get_atomic_numbers())
        seen = set()
        for c in cl:
            idx = list(c.indices)
            bad = None
            if not idx:
                bad = "empty cluster"
            elif len(set(idx)) != len(idx) or seen & set(idx):
                bad = "duplicate or overlapping indices"
            elif g.get_dimensionality(at[idx], 0.65, radii=r[idx]) is None:
                bad = "cluster %s is not one bonded component" % sorted(idx)
            seen |= set(idx)
            if bad:
                fails.append({"structure": "random gas: numpy default_rng(%d), n = integers(25,50), L = (11 n)^(1/3), numbers choice [6,8,14,29], positions uniform(0,L)" % (1000 + k),
                              "n_atoms": n, "get_clusters_seed": k, "observed": bad})
                break
        if len(fails) >= 2:
            break
    return fails
