"""C10 — the displacement tensor is a sound and, within range, exact minimum-image table.
C++ sources are translated mechanically from clang's AST on every run (engine/cxxvc.py) and executed symbolically."""
from __future__ import annotations

import numpy as np
import z3

from contracts import cxx_model as X
from engine import contexts, cxxrt
from engine.common import Report, Ob, prove
from engine.errors import Unsupported
from engine.heap import SymSet, fresh_set, I
from engine.larr import RowArr
from engine.aseshim import sym_positions, sym_int_rows, sym_cell, sym_pbc
from engine.npshim import NP, det_term
from engine.pyvc import SR, SB, sint, sreal, z3num, z3bool, mkbool, cur, Obj
from engine.symcoll import LoopSpec, Opaque
from props._util import run_fv, section, sections_parallel

R = z3.RealSort()
FNX = "matid/ext/geometry.cpp:extend_system"


def run():
    rep = Report("C10")
    rep.trusted_base = ["clang 14 typed AST (through engine/cxxstub/pybind11/numpy.h)", "engine/cxxvc.py translation", "pyvc executor", "z3 (nonlinear real arithmetic)"]
    rep.assumptions = [
        "L-FLOAT: double is real arithmetic; (int) truncates toward zero; ceil and sqrt exact; IEEE rounding not modelled",
        "pybind11 array views = mathematical arrays; std::vector = list (the sources never mutate a copy); unordered_map = finite map",
        "the stub pybind11/numpy.h declares exactly the members the sources use (the real header is not installed in this sandbox)",
    ]
    try:
        m = X.module()
        rep.functions.extend(m.cxx_info)
    except Unsupported as e:
        rep.add(Ob(id="cxx.translate", status="unknown", backend="clang", detail=str(e)))
        return rep
    sections_parallel(rep, [("helpers", _helpers), ("copies", _copies), ("enum", _enum), ("fill", _fill), ("lemmas", _lemmas),
                            ("bins", _bins), ("query", _query), ("tensor", lambda r: _tensor(r, [False])), ("tensor-inf", lambda r: _tensor(r, [True])),
                            ("wrapper", _wrapper), ("getdistances", _getdistances), ("driver", _driver)], jobs=12)
    return rep


def _vec(prefix):
    return [sreal("%s%d" % (prefix, k)) for k in range(3)]


# ---------------------------------------------------------------------------------------------
def _helpers(rep):
    m = X.module()

    def mk(st, it):
        a, b = _vec("a"), _vec("b")
        return [a, b], {}, {"a": a, "b": b}

    def post_dot(st, ctx, r):
        a, b = ctx["a"], ctx["b"]
        st.prove("is-scalar-product", z3num(r) == sum((z3num(a[k]) * z3num(b[k]) for k in range(3)), z3num(0)))

    run_fv(rep, "helpers.dot.", m, "dot", mk, post_dot)

    def post_cross(st, ctx, r):
        a, b = [z3num(x) for x in ctx["a"]], [z3num(x) for x in ctx["b"]]
        want = [a[1] * b[2] - a[2] * b[1], a[2] * b[0] - a[0] * b[2], a[0] * b[1] - a[1] * b[0]]
        st.prove("is-vector-product", z3.And([z3num(r[k]) == want[k] for k in range(3)]))
        st.prove("length-3", z3.BoolVal(len(r) == 3))

    run_fv(rep, "helpers.cross.", m, "cross", mk, post_cross)

    def mkn(st, it):
        a = _vec("a")
        return [a], {}, {"a": a}

    def post_norm(st, ctx, r):
        a = [z3num(x) for x in ctx["a"]]
        st.prove("nonnegative-root-of-sum-of-squares", z3.And(z3num(r) >= 0, z3num(r) * z3num(r) == a[0] * a[0] + a[1] * a[1] + a[2] * a[2]))

    run_fv(rep, "helpers.norm.", m, "norm", mkn, post_norm)
    x = [z3.Real("x%d" % k) for k in range(3)]
    Lz = z3.Real("L")
    rep.add(prove("helpers.norm.lemma.zero-iff-zero-vector", [Lz >= 0, Lz * Lz == x[0] * x[0] + x[1] * x[1] + x[2] * x[2]],
                  (Lz == 0) == z3.And([v == 0 for v in x]), func="matid/ext/geometry.cpp:norm", timeout_ms=60000))


# ---------------------------------------------------------------------------------------------
def norm_contract(it, st, bound, site):
    """contract of the helper norm (proved in section helpers + lemma norm-zero-iff-zero-vector): L >= 0, L^2 = sum of squares,
    L == 0 exactly for the zero vector"""
    a = bound["a"]
    comps = [z3num(x) for x in a]
    L = cxxrt.cxx_sqrt(SR(sum((c * c for c in comps), z3.RealVal(0))))
    st.assume((z3num(L) == 0) == z3.And([c == 0 for c in comps]))
    return L


NORM = {"matid/ext (translated C++):norm": norm_contract}


def _extend_inputs(st, nz=(True, True, True)):
    n = sint("n_atoms")
    st.assume(n.t >= 1)
    cell = sym_cell("c")
    vals = (2, 0, 0, "3/10", 2, 0, "1/10", "1/5", 3)
    for kk in range(9):
        if nz[kk // 3]:
            st.hint(z3.Real("c%d%d" % (kk // 3, kk % 3)) == z3.RealVal(str(vals[kk])))
    for i in range(3):
        if not nz[i]:
            for j in range(3):
                st.assume(z3num(cell[i, j]) == 0)
        else:
            st.assume(z3.Or([z3num(cell[i, j]) != 0 for j in range(3)]))
    pbc = sym_pbc("pbc")
    cutoff = sreal("cutoff")
    st.assume(cutoff.t >= 0)
    pos = sym_positions("pos", n)
    nums = sym_int_rows("Z", n)
    return n, cell, pbc, cutoff, pos, nums


def _copies(rep):
    """number of copies per axis = ceil(extension / perpendicular height) for periodic non-zero axes, else 0"""
    m = X.module()
    f = m.get("extend_system")
    for label, nz in (("full-cell", (True, True, True)), ("c-missing", (True, True, False)), ("b-missing", (True, False, True)), ("a-missing", (False, True, True)),
                      ("only-a", (True, False, False)), ("only-c", (False, False, True)), ("no-cell", (False, False, False))):
        def mk(st, it, nz=nz):
            n, cell, pbc, cutoff, pos, nums = _extend_inputs(st, nz)
            for i in range(3):
                if nz[i]:
                    st.assume(z3.Or([z3num(cell[i, j]) != 0 for j in range(3)]))
            if sum(nz) == 3:
                st.assume(det_term(cell) != 0)
            if sum(nz) == 2:
                rows = [i for i in range(3) if nz[i]]
                cr = NP.cross(cell[rows[0]], cell[rows[1]])
                st.assume(z3.Or([z3num(x) != 0 for x in cr]))  # the two given vectors are not parallel
            st.ghost["stop_after_copies"] = True
            return [pos, nums, cell, pbc, cutoff], {}, {"cell": cell, "pbc": pbc, "cutoff": cutoff, "nz": nz}

        # stop the execution right after the copy counts are known: hook on the first statement after them (multipliers = [])
        def hook(interp, e, fv, args, kwargs, module):
            return NotImplemented

        class Stop(LoopSpec):
            pass

        def inv(st, env, k, old):
            return []

        def havoc(st, env, old):
            pass

        got = {}

        class Grab(LoopSpec):
            def run_for(self, interp, node, it, env, module, lid):
                st = interp.st
                got["n_copies"] = list(env.lookup("n_copies_axis"))
                got["lengths"] = env.lookup("lengths")
                self.check(st, env)
                from engine.pyvc import PathKilled
                raise PathKilled()

        g = Grab(inv, havoc, name="copies")

        def check(st, env, nz=nz):
            st.ghost["returns"] = st.ghost.get("returns", 0) + 1
            cell = st.ghost["cell"]
            pbc = st.ghost["pbc"]
            cutoff = st.ghost["cutoff"].t
            nc = env.lookup("n_copies_axis")
            rows = [[z3num(cell[i, j]) for j in range(3)] for i in range(3)]

            def cross(u, v):
                return [u[1] * v[2] - u[2] * v[1], u[2] * v[0] - u[0] * v[2], u[0] * v[1] - u[1] * v[0]]

            def dot(u, v):
                return u[0] * v[0] + u[1] * v[1] + u[2] * v[2]

            vectors = env.lookup("vectors") if sum(nz) >= 2 else None
            it_ = st.ghost["interp"]
            for i in range(3):
                mi = z3num(nc[i])
                mr = z3.ToReal(mi) if z3.is_int(mi) else mi
                periodic = z3bool(pbc[i])
                if not nz[i]:
                    st.prove("zero-vector-axis-not-copied[%d]" % i, mr == 0)
                    continue
                st.prove("nonperiodic-axis-not-copied[%d]" % i, z3.Implies(z3.Not(periodic), mr == 0))
                if sum(nz) <= 1:
                    Lr = it_.call(m.get("norm"), [[SR(x) for x in rows[i]]])
                    K = cxxrt.cxx_ceil(SR(cutoff) / Lr)
                    st.prove("A.count-is-ceil-of-extension-over-length[%d]" % i, z3.Implies(periodic, mr == z3num(K)))
                    continue
                # the vector whose norm the code takes is the projection of a_i on the normal p of the other two (effective) vectors
                eff = {k: [SR(x) for x in rows[k]] for k in range(3) if nz[k]}
                if sum(nz) == 2:
                    giv = [k for k in range(3) if nz[k]]
                    miss = [k for k in range(3) if not nz[k]][0]
                    # the code completes the cell with the normal of the two given vectors, in *its* argument order
                    order = {0: (1, 2), 1: (0, 2), 2: (0, 1)}[miss]
                    eff[miss] = [SR(x) for x in cross([z3num(v) for v in eff[order[0]]], [z3num(v) for v in eff[order[1]]])]
                o1, o2 = {0: (1, 2), 1: (2, 0), 2: (0, 1)}[i]
                pvec = cross([z3num(v) for v in eff[o1]], [z3num(v) for v in eff[o2]])
                ap = dot([z3num(v) for v in eff[i]], pvec)
                pp = dot(pvec, pvec)
                coeff = SR(ap) / SR(pp)
                for k in range(3):
                    st.prove("A.projection-vector[%d,%d]" % (i, k), z3num(vectors[i][k]) == pvec[k] * z3num(coeff))
                Lr = it_.call(m.get("norm"), [vectors[i]])
                K = cxxrt.cxx_ceil(SR(cutoff) / Lr)
                st.prove("A.count-is-ceil-of-extension-over-height[%d]" % i, z3.Implies(periodic, mr == z3num(K)))

        g.check = check

        def mk2(st, it, mk=mk):
            a, k, c = mk(st, it)
            st.ghost["cell"], st.ghost["pbc"], st.ghost["cutoff"] = c["cell"], c["pbc"], c["cutoff"]
            st.ghost["interp"] = it
            return a, k, c

        def post(st, ctx, r):
            st.prove("unreachable", z3.BoolVal(True))

        # loop ordinals in extend_system (source order): 1-3 scaling loops, 4 copies loop (n_empty<=1), 5 copies loop (n_empty==2), 6 multipliers loop
        run_fv(rep, "copies[%s]." % label, m, "extend_system", mk2, post, loops={("extend_system", 6): g}, expect_raise=True, max_paths=20000, contracts=NORM)


def _lemmas(rep):
    """height lemma (nonlinear reals): an image whose offset along axis 0 exceeds ceil(ext/h) in absolute value is farther than ext
    from every point of the cell.  With s = fractional offset (|s0| > ext/h after subtracting the in-cell difference < 1):
    |s.cell|^2 >= s0^2 h^2 where h = det/|b x c| is the perpendicular height."""
    a = [z3.Real("a%d" % k) for k in range(3)]
    b = [z3.Real("b%d" % k) for k in range(3)]
    c = [z3.Real("c%d" % k) for k in range(3)]
    s = [z3.Real("s%d" % k) for k in range(3)]
    ext = z3.Real("ext")

    def cross(u, v):
        return [u[1] * v[2] - u[2] * v[1], u[2] * v[0] - u[0] * v[2], u[0] * v[1] - u[1] * v[0]]

    def dot(u, v):
        return u[0] * v[0] + u[1] * v[1] + u[2] * v[2]

    p = cross(b, c)
    v = [s[0] * a[k] + s[1] * b[k] + s[2] * c[k] for k in range(3)]
    # v.p = s0 (a.p) since b.p = c.p = 0 ; Cauchy-Schwarz: (v.p)^2 <= |v|^2 |p|^2
    rep.add(prove("lemma.projection-on-the-normal", [], dot(v, p) == s[0] * dot(a, p), func=FNX, timeout_ms=60000))
    x = [z3.Real("x%d" % k) for k in range(3)]
    y = [z3.Real("y%d" % k) for k in range(3)]
    cr = cross(x, y)
    rep.add(prove("lemma.cauchy-schwarz(lagrange-identity)", [], dot(x, y) * dot(x, y) + dot(cr, cr) == dot(x, x) * dot(y, y), func=FNX, timeout_ms=60000))
    V2, P2, AP, S0 = z3.Reals("V2 P2 AP S0")
    # with V2=|v|^2, P2=|p|^2>0, AP=a.p: (S0*AP)^2 <= V2*P2 and S0^2 AP^2 > ext^2 P2  =>  V2 > ext^2
    rep.add(prove("lemma.height(beyond-the-copies-is-beyond-the-extension)", [P2 > 0, ext >= 0, (S0 * AP) * (S0 * AP) <= V2 * P2, S0 * S0 * AP * AP > ext * ext * P2],
                  V2 > ext * ext, func=FNX, timeout_ms=60000))
    # Step B for the copy counts: the norm the code takes is the perpendicular height h = |a.p|/|p|, and K = ceil(ext/h) copies cover ext
    L, ap_, pp_ = z3.Reals("L ap pp")
    K = z3.ToReal(z3.Int("K"))
    cf = z3.Real("coeff")
    pv = [z3.Real("p%d" % k) for k in range(3)]
    hyp = [pp_ > 0, pp_ == dot(pv, pv), cf * pp_ == ap_, L >= 0, L * L == sum(((pv[k] * cf) * (pv[k] * cf) for k in range(3)), z3.RealVal(0)), L > 0, ext >= 0,
           K >= 0, (K - 1) * L < ext, ext <= K * L]
    rep.add(prove("lemma.norm-of-projection-is-the-height", hyp[:6], L * L * pp_ == ap_ * ap_, func=FNX, timeout_ms=60000))
    rep.add(prove("lemma.ceil-copies-cover-the-extension", [pp_ > 0, L > 0, L * L * pp_ == ap_ * ap_, ext >= 0, K >= 0, (K - 1) * L < ext, ext <= K * L],
                  z3.And(K * K * ap_ * ap_ >= ext * ext * pp_, z3.Implies(K > 0, (K - 1) * (K - 1) * ap_ * ap_ < ext * ext * pp_)), func=FNX, timeout_ms=60000))
    # integer step: |n| >= m+1 and both points inside the cell (|delta| < 1)  =>  |s0| > m >= ext/h
    n_, m_ = z3.Ints("n m")
    d = z3.Real("delta")
    rep.add(prove("lemma.offset-beyond-the-copies", [m_ >= 0, z3.Or(n_ >= m_ + 1, n_ <= -(m_ + 1)), d > -1, d < 1],
                  z3.Or(z3.ToReal(n_) + d > z3.ToReal(m_), z3.ToReal(n_) + d < -z3.ToReal(m_)), func=FNX))
    # mixed-radix index: (i,j,k,l) -> ((i*B + j)*C + k)*n + l is injective on the box
    i1, j1, k1, l1, i2, j2, k2, l2, B, C, n = z3.Ints("i1 j1 k1 l1 i2 j2 k2 l2 B C n")
    box = [i1 >= 0, i2 >= 0, j1 >= 0, j1 < B, j2 >= 0, j2 < B, k1 >= 0, k1 < C, k2 >= 0, k2 < C, l1 >= 0, l1 < n, l2 >= 0, l2 < n, B >= 1, C >= 1, n >= 1]
    # proved in two linear steps (avoids nonlinear integer reasoning): x*n + l with 0 <= l < n is injective for fixed n
    q1, q2 = z3.Ints("q1 q2")
    T1, T2 = z3.Ints("T1 T2")
    rep.add(prove("lemma.index-digit-injective", [n >= 1, l1 >= 0, l1 < n, l2 >= 0, l2 < n, T1 == q1 * n, T2 == q2 * n, q1 < q2, T2 >= T1 + n], T1 + l1 < T2 + l2, func=FNX))


# ---------------------------------------------------------------------------------------------
def _enum(rep):
    """per axis the multiples are 0,1,..,m,-m,..,-1: a bijection onto [-m, m] with the zero offset first"""
    m = X.module()

    def inv_outer(st, env, k, old):
        return []

    got = {}

    def invA(st, env, j, old):
        L = X.IntList.of(env.lookup("multiples"))
        q = z3.Int("q!e")
        return [("prefix-0..j", z3.And(L.length.t == j.t, z3.ForAll([q], z3.Implies(z3.And(q >= 0, q < j.t), z3.Select(L.arr, q) == q))))]

    def havocA(st, env, old):
        env.vars["multiples"] = X.IntList.fresh(st, "multiples")
        env.vars.pop("j", None)

    def invB(st, env, t, old):
        # t iterations done: j runs from -m; positions m+1 .. m+t hold -m .. -m+t-1
        L = X.IntList.of(env.lookup("multiples"))
        mm = z3num(env.lookup("multiplier"))
        q = z3.Int("q!e")
        return [("first-block-kept", z3.ForAll([q], z3.Implies(z3.And(q >= 0, q <= mm), z3.Select(L.arr, q) == q))),
                ("second-block", z3.And(L.length.t == mm + 1 + t.t, z3.ForAll([q], z3.Implies(z3.And(q > mm, q < mm + 1 + t.t), z3.Select(L.arr, q) == q - (2 * mm + 1)))))]

    class EnumCheck(LoopSpec):
        """replaces the outer `for i in range(3)` body end: after both inner loops check the finished list"""

    def mk(st, it):
        n, cell, pbc, cutoff, pos, nums = _extend_inputs(st, (False, False, False))  # copy counts are irrelevant here: made symbolic below
        st.ghost["override_copies"] = [SR(z3.Int("m0")), SR(z3.Int("m1")), SR(z3.Int("m2"))]
        for t in st.ghost["override_copies"]:
            st.assume(t.t >= 0)
        return [pos, nums, cell, pbc, cutoff], {}, {}

    # cxx_vector(3, 0) creates n_copies_axis: hand out symbolic copy counts instead (any non-negative integers)
    def vec_hook(n, v):
        st = cur()
        if n == 3 and v == 0 and "override_copies" in st.ghost and not st.ghost.get("copies_given"):
            st.ghost["copies_given"] = True
            return list(st.ghost["override_copies"])
        return NotImplemented

    class StopAtFill(LoopSpec):
        def run_for(self, interp, node, it, env, module, lid):
            st = interp.st
            mult = env.lookup("multipliers")
            ncp = env.lookup("n_copies_axis")
            q = z3.Int("q!f")
            for ax in range(3):
                L = X.IntList.of(mult[ax])
                mm = z3num(ncp[ax])
                st.prove("axis%d.length-2m+1" % ax, L.length.t == 2 * mm + 1)
                st.prove("axis%d.zero-offset-first" % ax, z3.Select(L.arr, 0) == 0)
                st.prove("axis%d.values" % ax, z3.ForAll([q], z3.Implies(z3.And(q >= 0, q < 2 * mm + 1),
                                                                           z3.Select(L.arr, q) == z3.If(q <= mm, q, q - (2 * mm + 1)))))
                # bijection onto [-m, m]: position of value v
                v = z3.Int("v!f")
                st.prove("axis%d.onto[-m,m]" % ax, z3.ForAll([v], z3.Implies(z3.And(v >= -mm, v <= mm),
                                                                              z3.Select(L.arr, z3.If(v >= 0, v, v + 2 * mm + 1)) == v)))
            st.ghost["enum_checked"] = True
            from engine.pyvc import PathKilled
            raise PathKilled()

    def arr_hook(x):
        if isinstance(x, list):
            return X.SymArr("ext", x, "real")
        return NotImplemented

    def mk2(st, it):
        a, k, c = mk(st, it)
        st.ghost["cxx_vector_hook"] = vec_hook
        st.ghost["cxx_array_hook"] = arr_hook
        return a, k, c

    def post(st, ctx, r):
        pass

    # loops: 6 outer (concrete 3), 7 first inner, 8 second inner, 9.. fill nest
    run_fv(rep, "enum.", m, "extend_system", mk2, post, expect_raise=True,
           loops={("extend_system", 7): LoopSpec(invA, havocA, name="multiples.nonnegative"),
                  ("extend_system", 8): LoopSpec(invB, lambda st, env, old: (env.vars.__setitem__("multiples", X.IntList.fresh(st, "multiples")), env.vars.pop("j", None)) and None,
                                                 name="multiples.negative"),
                  ("extend_system", 9): StopAtFill(lambda *a: [], lambda *a: None, name="fill")})


# ---------------------------------------------------------------------------------------------
def _fill(rep):
    """one generic iteration (i,j,k,l) of the fill nest writes image number index = i_copy*n + l: original index l, the three
    multipliers, position = pos[l] + multipliers . cell; i_copy counts the completed (i,j,k) triples in mixed radix"""
    m = X.module()

    def arr_hook(x):
        if isinstance(x, list):
            st = cur()
            nm = "ext%d" % len(st.ghost.setdefault("ext_arrays", []))
            a = X.SymArr(nm, x, "real")
            st.ghost["ext_arrays"].append(a)
            return a
        return NotImplemented

    def vec_hook(n, v):
        st = cur()
        if n == 3 and v == 0 and not st.ghost.get("copies_given"):
            st.ghost["copies_given"] = True
            st.ghost["copies_list"] = list(st.ghost["override_copies"])
            return st.ghost["copies_list"]
        return NotImplemented

    def mk(st, it):
        n, cell, pbc, cutoff, pos, nums = _extend_inputs(st, (True, True, True))
        st.assume(det_term(cell) != 0)
        st.ghost["override_copies"] = [SR(z3.Int("m0")), SR(z3.Int("m1")), SR(z3.Int("m2"))]
        for t in st.ghost["override_copies"]:
            st.assume(t.t >= 0)
        st.ghost["cxx_vector_hook"] = vec_hook
        st.ghost["cxx_array_hook"] = arr_hook
        st.ghost["mult_lists"] = None
        return [pos, nums, cell, pbc, cutoff], {}, {"n": n, "cell": cell, "pos": pos, "nums": nums}

    # multipliers construction (loops 7, 8) summarised by its proved post-condition (section enum)
    def summ_inv(st, env, k, old):
        return []

    def skipA_havoc(st, env, old):
        L = X.IntList.fresh(st, "multiples")
        env.vars["multiples"] = L
        env.vars.pop("j", None)

    class Summarise(LoopSpec):
        """loop replaced by its proved summary: on exit `multiples` is the list proved in section enum"""

        def __init__(self, first):
            super().__init__(lambda *a: [], lambda *a: None, name="summary")
            self.first = first

        def run_for(self, interp, node, it, env, module, lid):
            st = interp.st
            if self.first:
                return  # first inner loop: effect folded into the second summary
            mm = z3num(env.lookup("multiplier"))
            L = X.IntList.fresh(st, "multiples")
            q = z3.Int("q!s")
            st.assume(L.length.t == 2 * mm + 1)
            st.assume(z3.ForAll([q], z3.Implies(z3.And(q >= 0, q < 2 * mm + 1), z3.Select(L.arr, q) == z3.If(q <= mm, q, q - (2 * mm + 1)))))
            env.vars["multiples"] = L

    def inv_i(st, env, k, old):
        B, C = z3num(env.lookup("b_limit")), z3num(env.lookup("c_limit"))
        return [("i_copy-counts-completed-triples", z3num(env.lookup("i_copy")) == k.t * B * C)]

    def inv_j(st, env, k, old):
        B, C = z3num(env.lookup("b_limit")), z3num(env.lookup("c_limit"))
        return [("i_copy-counts-completed-triples", z3num(env.lookup("i_copy")) == (z3num(env.lookup("i")) * B + k.t) * C)]

    def inv_k(st, env, k, old):
        B, C = z3num(env.lookup("b_limit")), z3num(env.lookup("c_limit"))
        return [("i_copy-counts-completed-triples", z3num(env.lookup("i_copy")) == (z3num(env.lookup("i")) * B + z3num(env.lookup("j"))) * C + k.t)]

    def hav(names):
        def h(st, env, old):
            for a in st.ghost.get("ext_arrays", []):
                st.n += 1
                a.a = z3.Const("%s!%d" % (a.name, st.n), a.a.sort())
            env.vars["i_copy"] = SR(st.fresh_int("i_copy"))
            for nm in names:
                env.vars.pop(nm, None)
        return h

    def inv_l(st, env, k, old):
        return []

    def body_l(st, env, l, old):
        ext_pos, ext_num, ext_idx, fac = [env.lookup(x) for x in ("ext_pos_mu", "ext_atomic_numbers_mu", "ext_indices_mu", "factors_mu")]
        n = z3num(env.lookup("n_atoms"))
        ic = z3num(env.lookup("i_copy"))
        idx = ic * n + l.t
        cell = st.ghost["cell"]
        pos, nums = st.ghost["pos"], st.ghost["nums"]
        am, bm, cm = [z3num(env.lookup(x)) for x in ("a_multiplier", "b_multiplier", "c_multiplier")]
        out = [("original-index", z3num(ext_idx._getitem(SR(idx))) == z3.ToReal(l.t)),
               ("atomic-number", z3num(ext_num._getitem(SR(idx))) == z3.ToReal(z3num(nums.row(l)))),
               ("factors", z3.And(z3num(fac._getitem((SR(idx), 0))) == z3.ToReal(am), z3num(fac._getitem((SR(idx), 1))) == z3.ToReal(bm),
                                  z3num(fac._getitem((SR(idx), 2))) == z3.ToReal(cm)))]
        for q in range(3):
            img = z3num(pos.row(l)[q]) + z3.ToReal(am) * z3num(cell[0, q]) + z3.ToReal(bm) * z3num(cell[1, q]) + z3.ToReal(cm) * z3num(cell[2, q])
            out.append(("position[%d]" % q, z3num(ext_pos._getitem((SR(idx), q))) == img))
        # multipliers of this triple are the tabulated ones of positions (i, j, k)
        return out

    def hav_l(st, env, old):
        for a in st.ghost.get("ext_arrays", []):
            st.n += 1
            a.a = z3.Const("%s!%d" % (a.name, st.n), a.a.sort())
        for nm in ("l", "index", "m"):
            env.vars.pop(nm, None)

    def mk2(st, it):
        a, k, c = mk(st, it)
        st.ghost["cell"], st.ghost["pos"], st.ghost["nums"] = a[2], a[0], a[1]
        return a, k, c

    def post(st, ctx, r):
        n = ctx["n"]
        nc = st.ghost["copies_list"]  # the vector n_copies_axis as the code left it
        tot = (2 * z3num(nc[0]) + 1) * (2 * z3num(nc[1]) + 1) * (2 * z3num(nc[2]) + 1)
        st.prove("returns-ExtendedSystem", z3.BoolVal(isinstance(r, cxxrt.Struct) and r.tname == "ExtendedSystem"))
        arrs = st.ghost.get("ext_arrays", [])
        st.prove("four-output-arrays", z3.BoolVal(len(arrs) == 4))
        if len(arrs) == 4:
            st.prove("output-length-is-atoms-times-images", z3.And([z3num(a.shape[0]) == n.t * tot for a in arrs]))
            st.prove("fields-in-order", z3.BoolVal(r.positions is arrs[0] and r.atomic_numbers is arrs[1] and r.indices is arrs[2] and r.factors is arrs[3]))

    run_fv(rep, "fill.", m, "extend_system", mk2, post,
           contracts=NORM,
           loops={("extend_system", 7): Summarise(True), ("extend_system", 8): Summarise(False),
                  ("extend_system", 9): LoopSpec(inv_i, hav(["i", "j", "k", "a_multiplier", "b_multiplier", "c_multiplier", "addition"]), name="fill.a"),
                  ("extend_system", 10): LoopSpec(inv_j, hav(["j", "k", "b_multiplier", "c_multiplier", "addition"]), name="fill.b"),
                  ("extend_system", 11): LoopSpec(inv_k, hav(["k", "c_multiplier", "addition"]), name="fill.c"),
                  ("extend_system", 13): LoopSpec(inv_l, hav_l, name="fill.atoms", body_post=body_l)}, max_paths=20000)


FNC = "matid/ext/celllist.cpp"


class CL:
    """CellList object (fields set by the translated constructor / init)"""


def _bins_hook(n, v):
    if v == [] or (isinstance(v, tuple) and v and v[0] == "dim"):
        dims = [n] + (list(v[1:]) if isinstance(v, tuple) else [])
        if len(dims) == 3:
            return X.Bins(dims)
        return ("dim",) + tuple(dims)
    return NotImplemented


def _mk_cl(st, inf=False):
    N = sint("N_ext")
    st.assume(N.t >= 1)
    cl = CL()
    cl.positions = X.PosList(N)
    cl.indices = X.RowList(N, "orig", None, "int")
    cl.factors = X.RowList(N, "fac", 3, "real")
    if inf:
        cl.cutoff = cxxrt.INF
        cl.cutoffSquared = cxxrt.INF
    else:
        c = sreal("cutoff")
        st.assume(c.t > 0)
        cl.cutoff = c
        cl.cutoffSquared = c * c
    st.ghost["cxx_vector_hook"] = _bins_hook
    return cl, N


def _trunc_floor_rel(b, t, dx):
    """b == floor(t/dx) for t >= 0, written without division"""
    br = z3.ToReal(b)
    return z3.And(br * dx <= t, t < (br + 1) * dx)


def _bins(rep):
    """CellList::init: bounding box with padding, bin counts/sizes, every extended atom lands in an existing bin"""
    m = X.module()
    for inf in (False, True):
        lab = "bins[cutoff=inf]." if inf else "bins."

        def mk(st, it, inf=inf):
            cl, N = _mk_cl(st, inf)
            st.ghost["cl"] = cl
            return [cl], {}, {"cl": cl, "N": N}

        def inv1(st, env, k, old):
            cl = st.ghost["cl"]
            q = z3.Int("q!mm")
            out = []
            for c, (lo, hi) in enumerate((("xmin", "xmax"), ("ymin", "ymax"), ("zmin", "zmax"))):
                lo_, hi_ = z3num(getattr(cl, lo)), z3num(getattr(cl, hi))
                X0 = cl.positions.at(0, c)
                out.append(("%s<=first<=%s" % (lo, hi), z3.And(lo_ <= X0, X0 <= hi_)))
                out.append(("%s<=seen<=%s" % (lo, hi), z3.ForAll([q], z3.Implies(z3.And(q >= 0, q < k.t), z3.And(lo_ <= cl.positions.at(q, c), cl.positions.at(q, c) <= hi_)))))
            return out

        def havoc1(st, env, old):
            cl = st.ghost["cl"]
            for nm in ("xmin", "xmax", "ymin", "ymax", "zmin", "zmax"):
                setattr(cl, nm, SR(st.fresh_real(nm)))
            for nm in ("i", "x", "y", "z"):
                env.vars.pop(nm, None)

        def inv2(st, env, k, old):
            return []

        def havoc2(st, env, old):
            cl = st.ghost["cl"]
            B = cl.bins
            st.n += 1
            B.b = [z3.Const("bin%s!%d" % (c, st.n), z3.ArraySort(I, I)) for c in "xyz"]
            B.filled = fresh_set(st, "filled")
            st.ghost["bins_before"] = (list(B.b), B.filled.arr)
            for nm in ("idx", "x", "y", "z", "i", "j", "k"):
                env.vars.pop(nm, None)

        def body2(st, env, idx, old):
            cl = st.ghost["cl"]
            B = cl.bins
            b0, f0 = st.ghost["bins_before"]
            out = []
            vals = [env.lookup("i"), env.lookup("j"), env.lookup("k")]
            for c in range(3):
                out.append(("writes-only-its-own-entry(%s)" % "xyz"[c], B.b[c] == z3.Store(b0[c], idx.t, z3num(vals[c]))))
                out.append(("bin-exists(%s)" % "xyz"[c], z3.And(z3num(vals[c]) >= 0, z3num(vals[c]) < z3num(B.dims[c]))))
            out.append(("marks-the-atom-stored", B.filled.arr == z3.Store(f0, idx.t, z3.BoolVal(True))))
            return out

        def post(st, ctx, r, inf=inf):
            cl = ctx["cl"]
            st.prove("at-least-one-bin", z3.And(z3num(cl.nx) >= 1, z3num(cl.ny) >= 1, z3num(cl.nz) >= 1))
            if not inf:
                st.prove("bin-size-at-least-cutoff", z3.And(z3num(cl.dx) >= cl.cutoff.t, z3num(cl.dy) >= cl.cutoff.t, z3num(cl.dz) >= cl.cutoff.t))
            else:
                st.prove("single-infinite-bin", z3.BoolVal(cl.nx == 1 and cl.ny == 1 and cl.nz == 1 and cl.dx is cxxrt.INF))

        # safety on: the bin index obligations inside append are proved, not assumed
        run_fv(rep, lab, m, "CellList_init", mk, post, safety=True,
               loops={("CellList_init", 1): LoopSpec(inv1, havoc1, name="bounding-box"),
                      ("CellList_init", 2): LoopSpec(inv2, havoc2, name="fill-bins", body_post=body2)})


def _bin_lemmas(rep):
    t, dx, W, c = z3.Reals("t dx W c")
    nx, b = z3.Ints("nx b")
    # stored atom: 0 < t < W (padding), dx = max(c, W/nx) so dx*nx >= W, b = floor(t/dx)  =>  0 <= b <= nx-1
    rep.add(prove("lemma.bin-index-in-range", [W > 0, t > 0, t < W, nx >= 1, dx > 0, dx * z3.ToReal(nx) >= W, _trunc_floor_rel(b, t, dx)],
                  z3.And(b >= 0, b <= nx - 1), func=FNC + ":CellList::init", timeout_ms=60000))
    # number of bins: nx = max(1, trunc(W/c)), dx = max(c, W/nx): dx >= c and dx*nx >= W
    k = z3.Int("k")
    rep.add(prove("lemma.bin-size", [W > 0, c > 0, k >= 0, z3.ToReal(k) * c <= W, nx == z3.If(k >= 1, k, 1), dx == z3.If(c < W / z3.ToReal(nx), W / z3.ToReal(nx), c)],
                  z3.And(dx >= c, dx * z3.ToReal(nx) >= W), func=FNC + ":CellList::init", timeout_ms=60000))
    # adjacency: |u - v| <= 1, b = floor(v) in [0,nx-1], i0 = trunc(u) toward zero  =>  max(i0-1,0) <= b <= min(i0+1,nx-1)
    u, v = z3.Reals("u v")
    i0 = z3.Int("i0")
    trunc = z3.If(u >= 0, z3.And(z3.ToReal(i0) <= u, u < z3.ToReal(i0) + 1), z3.And(z3.ToReal(i0) >= u, u > z3.ToReal(i0) - 1))
    istart = z3.If(i0 - 1 < 0, 0, i0 - 1)
    iend = z3.If(nx - 1 < i0 + 1, nx - 1, i0 + 1)
    rep.add(prove("lemma.adjacent-bins-suffice", [u - v <= 1, v - u <= 1, z3.ToReal(b) <= v, v < z3.ToReal(b) + 1, b >= 0, b <= nx - 1, nx >= 1, trunc],
                  z3.And(istart <= b, b <= iend), func=FNC + ":CellList::get_neighbours_for_position"))
    x, Xs, xmin = z3.Reals("x X xmin")
    rep.add(prove("lemma.within-cutoff-means-within-one-bin-width", [dx > 0, c > 0, dx >= c, x - Xs <= c, Xs - x <= c, u * dx == x - xmin, v * dx == Xs - xmin],
                  z3.And(u - v <= 1, v - u <= 1), func=FNC + ":CellList::get_neighbours_for_position", timeout_ms=60000))
    d0, d1, d2 = z3.Reals("d0 d1 d2")
    rep.add(prove("lemma.distance-bounds-each-component", [c >= 0, d0 * d0 + d1 * d1 + d2 * d2 <= c * c], z3.And(d0 <= c, -d0 <= c), func=FNC, timeout_ms=60000))


def _cl_after_init(st, inf=False):
    """CellList state established by the constructor/init (contract = the facts proved in section bins + the array-initialisation summary)"""
    cl, N = _mk_cl(st, inf)
    for nm in ("xmin", "ymin", "zmin"):
        setattr(cl, nm, sreal(nm))
    if inf:
        cl.nx = cl.ny = cl.nz = 1
        cl.dx = cl.dy = cl.dz = cxxrt.INF
    else:
        for nm in ("nx", "ny", "nz"):
            v = sint(nm)
            st.assume(v.t >= 1)
            setattr(cl, nm, v)
        for nm in ("dx", "dy", "dz"):
            v = sreal(nm)
            st.assume(v.t >= cl.cutoff.t)
            setattr(cl, nm, v)
    B = X.Bins([cl.nx, cl.ny, cl.nz])
    q = z3.Int("q!ai")
    dims = [cl.nx, cl.ny, cl.nz]
    mins = [cl.xmin, cl.ymin, cl.zmin]
    ds = [cl.dx, cl.dy, cl.dz]
    st.assume(z3.ForAll([q], B.filled.mem(q) == z3.And(q >= 0, q < N.t))) if False else None
    B.filled = fresh_set(st, "filled")
    st.assume(z3.ForAll([q], B.filled.mem(q) == z3.And(q >= 0, q < N.t)))
    for c in range(3):
        bq = z3.Select(B.b[c], q)
        rel = (bq == 0) if inf else _trunc_floor_rel(bq, cl.positions.at(q, c) - z3num(mins[c]), z3num(ds[c]))
        st.assume(z3.ForAll([q], z3.Implies(z3.And(q >= 0, q < N.t), z3.And(bq >= 0, bq < z3num(dims[c]), rel))))
    cl.bins = B
    return cl, N


def _query(rep):
    """CellList::get_neighbours_for_position: one generic stored atom of one scanned bin is reported iff it is within the cutoff, with exact
    distance / displacement / factors / original index; the scanned box is [max(i0-1,0), min(i0+1,n-1)]^3 (completeness by lemma adjacent-bins)"""
    m = X.module()
    _bin_lemmas(rep)
    for inf in (False, True):
        lab = "query[cutoff=inf]." if inf else "query."

        def mk(st, it, inf=inf):
            cl, N = _cl_after_init(st, inf)
            st.ghost["cl"] = cl
            x, y, z = sreal("qx"), sreal("qy"), sreal("qz")
            st.ghost["q"] = (x, y, z)
            return [cl, x, y, z], {}, {"cl": cl, "N": N}

        names = ["neighbours", "distances", "distances_squared", "displacements", "factors", "indices_original"]

        def havoc_level(level):
            def havoc_logs(st, env, old):
                for nm in names:
                    env.vars[nm] = X.AppendLog(nm)
                for nm in (["i", "j", "k"][level:] if level < 3 else []) + ["binIndices", "idx", "ix", "iy", "iz", "deltax", "deltay", "deltaz", "distance_squared"]:
                    env.vars.pop(nm, None)
            return havoc_logs

        def check_range(which):
            def inv(st, env, k, old):
                return []
            return inv

        class RangeSpec(LoopSpec):
            def __init__(self, axis):
                super().__init__(lambda *a: [], havoc_level(axis), name="scan." + "xyz"[axis])
                self.axis = axis

            def run_for(self, interp, node, it, env, module, lid):
                st = interp.st
                cl = st.ghost["cl"]
                c = self.axis
                i0 = env.lookup(["i0", "j0", "k0"][c])
                n = [cl.nx, cl.ny, cl.nz][c]
                concrete = isinstance(it, range)
                lo, hi = (z3num(it.start), z3num(it.stop)) if concrete else (z3num(it.lo), z3num(it.hi))
                st.prove("scan.%s.from-max(i0-1,0)" % "xyz"[c], lo == z3.If(z3num(i0) - 1 < 0, 0, z3num(i0) - 1))
                st.prove("scan.%s.to-min(i0+1,n-1)-inclusive" % "xyz"[c], hi == z3.If(z3num(n) - 1 < z3num(i0) + 1, z3num(n) - 1, z3num(i0) + 1) + 1)
                if c == 0:
                    # i0 is the truncated bin coordinate of the query point
                    q = st.ghost["q"]
                    mins = [cl.xmin, cl.ymin, cl.zmin]
                    ds = [cl.dx, cl.dy, cl.dz]
                    for cc in range(3):
                        i0c = env.lookup(["i0", "j0", "k0"][cc])
                        if isinstance(ds[cc], cxxrt.Inf):
                            st.prove("query-bin(%s)" % "xyz"[cc], z3num(i0c) == 0)
                        else:
                            want = cxxrt.cxx_int((q[cc] - mins[cc]) / ds[cc])
                            st.prove("query-bin(%s)" % "xyz"[cc], z3num(i0c) == z3num(want))
                if concrete:
                    from engine.pyvc import BreakSig, ContinueSig
                    for v in it:
                        interp.assign(node.target, v, env, module)
                        try:
                            interp.exec_block(node.body, env, module)
                        except ContinueSig:
                            continue
                        except BreakSig:
                            break
                    return
                return super().run_for(interp, node, it, env, module, lid)

        def body_atoms(st, env, idx, old):
            cl = st.ghost["cl"]
            q = st.ghost["q"]
            d = [z3num(q[c]) - cl.positions.at(idx.t, c) for c in range(3)]
            d2 = d[0] * d[0] + d[1] * d[1] + d[2] * d[2]
            logs = {nm: env.lookup(nm).log for nm in names}
            inside = mkbool(d2 <= cl.cutoff.t * cl.cutoff.t) if not isinstance(cl.cutoff, cxxrt.Inf) else True
            reported = len(logs["neighbours"]) == 1
            out = [("reported-at-most-once", z3.BoolVal(all(len(v) == (1 if reported else 0) for v in logs.values())))]
            out.append(("reported-iff-within-cutoff", z3bool(inside) == z3.BoolVal(reported)))
            if reported:
                out.append(("index", z3num(logs["neighbours"][0]) == idx.t))
                out.append(("original-index", z3num(logs["indices_original"][0]) == cl.indices.f[0](idx.t)))
                dist = z3num(logs["distances"][0])
                out.append(("distance", z3.And(dist >= 0, dist * dist == d2)))
                out.append(("distance-squared", z3num(logs["distances_squared"][0]) == d2))
                out.append(("displacement-is-query-minus-image", z3.And([z3num(logs["displacements"][0][c]) == d[c] for c in range(3)])))
                out.append(("factors", z3.And([z3num(logs["factors"][0][c]) == cl.factors.f[c](idx.t) for c in range(3)])))
            return out

        def post(st, ctx, r):
            st.prove("returns-CellListResult", z3.BoolVal(isinstance(r, cxxrt.Struct) and r.tname == "CellListResult"))

        run_fv(rep, lab, m, "CellList_get_neighbours_for_position", mk, post,
               loops={("CellList_get_neighbours_for_position", 1): RangeSpec(0), ("CellList_get_neighbours_for_position", 2): RangeSpec(1),
                      ("CellList_get_neighbours_for_position", 3): RangeSpec(2),
                      ("CellList_get_neighbours_for_position", 4): LoopSpec(lambda *a: [], havoc_level(3), name="bin-content", body_post=body_atoms)})


def _tensor(rep, infs=(False, True)):
    """CellList::get_displacement_tensor: per atom i the map keeps, for every original index j < i, the nearest scanned image within the
    cutoff (entries only improve); the fill writes (i,j) and (j,i) antisymmetrically; the diagonal is zero"""
    m = X.module()
    FT = "CellList_get_displacement_tensor"
    for inf in infs:
        lab = "tensor[cutoff=inf]." if inf else "tensor."

        def arrs(st):
            n = st.ghost["n_atoms"]
            return (X.SymArr("displacements", [n, n, 3]), X.SymArr("distances", [n, n]), X.SymArr("factors", [n, n, 3]))

        def mk(st, it, inf=inf):
            cl, N = _cl_after_init(st, inf)
            st.ghost["cl"] = cl
            n = sint("n_atoms")
            st.assume(z3.And(n.t >= 1, n.t <= N.t))
            st.ghost["n_atoms"] = n
            disp, dist, fac = arrs(st)
            st.ghost["arrays"] = (disp, dist, fac)
            q = z3.Int("q!o")
            orig = cl.indices
            # extended system contract (section fill): original atoms first, original index in [0, n)
            st.assume(z3.ForAll([q], z3.Implies(z3.And(q >= 0, q < N.t), z3.And(orig.f[0](q) >= 0, orig.f[0](q) < n.t))))
            st.assume(z3.ForAll([q], z3.Implies(z3.And(q >= 0, q < n.t), orig.f[0](q) == q)))
            return [cl, disp, dist, fac, orig, n], {}, {"cl": cl, "n": n}

        def d2_of(st, env, idx):
            cl = st.ghost["cl"]
            i = z3num(env.lookup("i"))
            return [cl.positions.at(i, c) - cl.positions.at(idx, c) for c in range(3)]

        def WF(st, env, mm):
            """every entry of the map is a genuine scanned image of its key: key < i, original index = key, within the cutoff,
            distance/displacement/factors are that image's"""
            cl = st.ghost["cl"]
            i = z3num(env.lookup("i"))
            j = z3.Int("j!wf")
            src = z3.Select(mm.src, j)
            dd = [cl.positions.at(i, c) - cl.positions.at(src, c) for c in range(3)]
            d2 = dd[0] * dd[0] + dd[1] * dd[1] + dd[2] * dd[2]
            dist = z3.Select(mm.dist, j)
            parts = [j >= 0, j < i, src >= 0, src < z3num(cl.positions.N), cl.indices.f[0](src) == j, dist >= 0, dist * dist == d2]
            if not isinstance(cl.cutoff, cxxrt.Inf):
                parts.append(d2 <= cl.cutoff.t * cl.cutoff.t)
            parts += [z3.Select(mm.disp[c], j) == dd[c] for c in range(3)]
            parts += [z3.Select(mm.fac[c], j) == cl.factors.f[c](src) for c in range(3)]
            return z3.ForAll([j], z3.Implies(mm.keys.mem(j), z3.And(parts)))

        def havoc_outer(st, env, old):
            for a in st.ghost["arrays"]:
                st.n += 1
                a.a = z3.Const("%s!%d" % (a.name, st.n), a.a.sort())
            for nm in ("i", "k", "x", "y", "z", "i0", "j0", "k0", "istart", "iend", "jstart", "jend", "kstart", "kend", "min_map", "i_bin", "j_bin", "k_bin",
                       "binIndices", "idx", "j", "it", "distance", "displacement", "factor"):
                env.vars.pop(nm, None)

        def havoc_scan(level):
            def h(st, env, old):
                mm = env.lookup("min_map")
                if not isinstance(mm, X.MinMap):
                    mm = X.MinMap()
                    env.vars["min_map"] = mm
                mm.havoc()
                for nm in (["i_bin", "j_bin", "k_bin"][level:] if level < 3 else []) + ["binIndices", "idx", "j", "ix", "iy", "iz", "deltax", "deltay", "deltaz",
                                                                                       "distance_squared", "distance"]:
                    env.vars.pop(nm, None)
            return h

        def inv_scan(st, env, k, old):
            mm = env.lookup("min_map")
            if not isinstance(mm, X.MinMap):
                return [("map-empty-before-the-scan", z3.BoolVal(mm == {}))]
            return [("entries-are-genuine-images", WF(st, env, mm))]

        class Scan(LoopSpec):
            def __init__(self, axis):
                super().__init__(inv_scan, havoc_scan(axis), name="scan." + "xyz"[axis])
                self.axis = axis

            def run_for(self, interp, node, it, env, module, lid):
                st = interp.st
                cl = st.ghost["cl"]
                c = self.axis
                mm = env.lookup("min_map")
                if not isinstance(mm, X.MinMap):
                    st.prove("scan.map-starts-empty", z3.BoolVal(mm == {}))
                    env.vars["min_map"] = X.MinMap()
                i0 = env.lookup(["i0", "j0", "k0"][c])
                n = [cl.nx, cl.ny, cl.nz][c]
                concrete = isinstance(it, range)
                lo, hi = (z3num(it.start), z3num(it.stop)) if concrete else (z3num(it.lo), z3num(it.hi))
                st.prove("scan.%s.from-max(i0-1,0)" % "xyz"[c], lo == z3.If(z3num(i0) - 1 < 0, 0, z3num(i0) - 1))
                st.prove("scan.%s.to-min(i0+1,n-1)-inclusive" % "xyz"[c], hi == z3.If(z3num(n) - 1 < z3num(i0) + 1, z3num(n) - 1, z3num(i0) + 1) + 1)
                if concrete:
                    from engine.pyvc import BreakSig, ContinueSig
                    for v in it:
                        interp.assign(node.target, v, env, module)
                        try:
                            interp.exec_block(node.body, env, module)
                        except ContinueSig:
                            continue
                        except BreakSig:
                            break
                    return
                return super().run_for(interp, node, it, env, module, lid)

        def havoc_content(st, env, old):
            mm = env.lookup("min_map")
            mm.havoc()
            st.ghost["mm_before"] = (mm.keys.arr, mm.dist)
            for nm in ("idx", "j", "ix", "iy", "iz", "deltax", "deltay", "deltaz", "distance_squared", "distance"):
                env.vars.pop(nm, None)

        class Content(LoopSpec):
            def run_for_set(self, interp, node, it, env, module, lid):
                return super().run_for_set(interp, node, it, env, module, lid)

        def body_content(st, env, idx, old):
            cl = st.ghost["cl"]
            mm = env.lookup("min_map")
            k0, d0 = st.ghost["mm_before"]
            i = z3num(env.lookup("i"))
            j = cl.indices.f[0](idx.t)
            dd = [cl.positions.at(i, c) - cl.positions.at(idx.t, c) for c in range(3)]
            d2 = dd[0] * dd[0] + dd[1] * dd[1] + dd[2] * dd[2]
            within = z3.BoolVal(True) if isinstance(cl.cutoff, cxxrt.Inf) else (d2 <= cl.cutoff.t * cl.cutoff.t)
            jj = z3.Int("j!m")
            dnew = z3.Select(mm.dist, j)
            return [
                ("qualifying-image-is-recorded-or-beaten", z3.Implies(z3.And(j < i, within), z3.And(mm.keys.mem(j), dnew * dnew <= d2, dnew >= 0))),
                ("keys-only-grow", z3.ForAll([jj], z3.Implies(z3.Select(k0, jj), mm.keys.mem(jj)))),
                ("entries-only-improve", z3.ForAll([jj], z3.Implies(z3.Select(k0, jj), z3.Select(mm.dist, jj) <= z3.Select(d0, jj)))),
                ("nothing-recorded-for-j>=i-or-beyond-cutoff", z3.Implies(z3.Not(z3.And(j < i, within)), z3.And(mm.keys.arr == k0, mm.dist == d0))),
            ]

        def set_current(st, env):
            pass

        class ContentSpec(LoopSpec):
            def run_for_set(self, interp, node, it, env, module, lid):
                return LoopSpec.run_for_set(self, interp, node, it, env, module, lid)

        # the ghost 'source image' of an entry: recorded when the code stores into the map
        def call_hook(interp, e, f, args, kwargs, module):
            return NotImplemented

        def inv_fill(st, env, D, old):
            disp, dist, fac = st.ghost["arrays"]
            i = env.lookup("i")
            return [("diagonal-zero", z3.And(z3num(dist._getitem((i, i))) == 0, *[z3num(disp._getitem((i, i, c))) == 0 for c in range(3)],
                                             *[z3num(fac._getitem((i, i, c))) == 0 for c in range(3)])),
                    ("entries-are-genuine-images", WF(st, env, env.lookup("min_map")))]

        def havoc_fill(st, env, old):
            for a in st.ghost["arrays"]:
                st.n += 1
                a.a = z3.Const("%s!%d" % (a.name, st.n), a.a.sort())
            for nm in ("it", "distance", "displacement", "factor", "k"):
                env.vars.pop(nm, None)

        def body_fill(st, env, key, old):
            disp, dist, fac = st.ghost["arrays"]
            mm = env.lookup("min_map")
            i = env.lookup("i")
            j = key
            dj = z3.Select(mm.dist, j.t)
            out = [("distance-symmetric", z3.And(z3num(dist._getitem((i, j))) == dj, z3num(dist._getitem((j, i))) == dj))]
            for c in range(3):
                out.append(("displacement-antisymmetric[%d]" % c, z3.And(z3num(disp._getitem((i, j, c))) == z3.Select(mm.disp[c], j.t),
                                                                           z3num(disp._getitem((j, i, c))) == -z3.Select(mm.disp[c], j.t))))
                out.append(("factors-antisymmetric[%d]" % c, z3.And(z3num(fac._getitem((i, j, c))) == z3.Select(mm.fac[c], j.t),
                                                                      z3num(fac._getitem((j, i, c))) == -z3.Select(mm.fac[c], j.t))))
            return out

        def post(st, ctx, r):
            pass

        # store hook: remember which extended atom is being processed (ghost source of a map entry)
        orig_setitem = X.MinMap._setitem

        def mk2(st, it, mk=mk):
            a, k, c = mk(st, it)
            return a, k, c

        class ContentWithGhost(LoopSpec):
            def run_for_set(self, interp, node, it, env, module, lid):
                st = interp.st
                orig_assign = interp.assign

                def assign(t, v, e, mod):
                    if getattr(t, "id", None) == "idx":
                        st.ghost["current_idx"] = v
                    return orig_assign(t, v, e, mod)

                interp.assign = assign
                try:
                    return LoopSpec.run_for_set(self, interp, node, it, env, module, lid)
                finally:
                    interp.assign = orig_assign

        run_fv(rep, lab, m, FT, mk2, post, safety=False, max_paths=20000,
               loops={(FT, 1): LoopSpec(lambda *a: [], havoc_outer, name="atoms"),
                      (FT, 3): Scan(0), (FT, 4): Scan(1), (FT, 5): Scan(2),
                      (FT, 6): ContentWithGhost(inv_scan, havoc_content, name="bin-content", body_post=body_content),
                      (FT, 7): LoopSpec(inv_fill, havoc_fill, name="fill", body_post=body_fill)})


def _wrapper(rep):
    """Python side: geometry.get_displacement_tensor / expand_pbc / get_distances (executed from the real source; finite flag domain)"""
    import itertools
    m = contexts.geometry_ctx()
    from engine.pyvc import Explorer, Interp
    REL = "matid/geometry/geometry.py"
    calls = []

    class Ext:
        def _getattr(self, interp, attr):
            if attr == "get_displacement_tensor":
                def f(*a):
                    calls.append(a)
                return f
            raise Unsupported("matid.ext.%s" % attr)

    geo_ns = m.globals["matid"]
    old_ext = geo_ns._subs["ext"]
    geo_ns._subs["ext"] = Ext()
    bad = []
    n_cases = 0
    try:
        f = m.get("get_displacement_tensor")
        pos = np.zeros((2, 3))
        cell = np.diag([3.0, 4.0, 5.0])
        for cutoff, cl, pbc, rf, rd in itertools.product((None, float("inf"), 2.5), (None, cell), (True, False, [True, False, True]), (False, True), (False, True)):
            calls.clear()
            ex = Explorer(REL + ":get_displacement_tensor")

            def thunk(st):
                it = Interp(st)
                return it.run_func(f, [pos], {"cell": cl, "pbc": pbc, "cutoff": cutoff, "return_factors": rf, "return_distances": rd})

            oc = ex.explore(thunk)
            n_cases += 1
            ok = len(oc) == 1 and oc[0][0] == "return" and len(calls) == 1
            if ok:
                a = calls[0]
                r = oc[0][1]
                disp, dist, fac = a[0], a[1], a[2]
                ok &= disp.shape == (2, 2, 3) and dist.shape == (2, 2) and fac.shape == (2, 2, 3)
                ok &= all(x == float("inf") for x in np.array(disp, dtype=float).reshape(-1)) and all(x == float("inf") for x in np.array(dist, dtype=float).reshape(-1))
                ok &= a[3] is pos and (a[4] is cl if cl is not None else np.array_equal(np.array(a[4], dtype=float), np.eye(3)))
                want_pbc = [pbc] * 3 if isinstance(pbc, bool) else list(pbc)
                ok &= list(a[5]) == want_pbc
                ok &= a[6] == (float("inf") if cutoff is None else cutoff) and a[7] is rf and a[8] is rd
                exp = [disp] + ([fac] if rf else []) + ([dist] if rd else [])
                if len(exp) == 1:
                    ok &= r is disp
                else:
                    ok &= isinstance(r, tuple) and len(r) == len(exp) and all(x is y for x, y in zip(r, exp))
            if not ok:
                bad.append((cutoff, cl is not None, pbc, rf, rd))
        rep.add(Ob(id="wrapper.initialises-with-inf-and-forwards-arguments", status="proved" if not bad else "refuted", backend="exact-evaluation", kind="exact",
                   func=REL + ":get_displacement_tensor", detail="%d argument combinations; failures %s" % (n_cases, bad[:3])))
        # the same with a symbolic cell (any handedness, any shape, degenerate or not): periodicity and cutoff reach the C++ code unchanged on every path
        import z3
        from engine.pyvc import sreal, z3num
        from engine.aseshim import sym_cell
        bad2 = []
        for pbc in ((True, True, True), (False, False, True), (True, False, True), (False, False, False)):
            for cutoff in (None, 2.5):
                ex = Explorer(REL + ":get_displacement_tensor")
                box = {}

                def thunk2(st, pbc=pbc, cutoff=cutoff):
                    calls.clear()
                    C = sym_cell("c")
                    box["C"] = C
                    r = Interp(st).run_func(f, [pos], {"cell": C, "pbc": list(pbc), "cutoff": cutoff, "return_factors": True, "return_distances": True})
                    ok = len(calls) == 1 and calls[0][4] is C and [bool(x) for x in calls[0][5]] == list(pbc) and calls[0][6] == (float("inf") if cutoff is None else cutoff)
                    if not ok:
                        sv = z3.Solver()
                        sv.set("timeout", 3000)
                        sv.add(st.pc)
                        wit = ""
                        if sv.check() == z3.sat:
                            mdl = sv.model()
                            wit = " for the cell %s" % [[str(mdl.eval(z3num(C[i, j]), model_completion=True)) for j in range(3)] for i in range(3)]
                        bad2.append("pbc %s cutoff %s: the C++ search is called with pbc %s cutoff %s%s" % (
                            list(pbc), cutoff, [bool(x) for x in calls[0][5]] if calls else None, calls[0][6] if calls else None, wit))
                    return r

                oc2 = ex.explore(thunk2)
                if any(o[0] == "raise" for o in oc2):
                    bad2.append("raises %r" % ([o[1] for o in oc2 if o[0] == "raise"][0],))
        rep.add(Ob(id="wrapper.periodicity-and-cutoff-forwarded-for-every-cell", status="proved" if not bad2 else "refuted", backend="pyvc+z3", kind="vc",
                   func=REL + ":get_displacement_tensor", detail="; ".join(bad2)[:700]))
        # expand_pbc
        g = m.get("expand_pbc")
        res = []
        for arg, want in ((True, [True] * 3), (False, [False] * 3), ([True, False, False], [True, False, False]), (np.array([False, True, True]), [False, True, True])):
            ex = Explorer("expand_pbc")
            oc = ex.explore(lambda st, arg=arg: Interp(st).run_func(g, [arg], {}))
            res.append(len(oc) == 1 and oc[0][0] == "return" and list(oc[0][1]) == want)
        ex = Explorer("expand_pbc")
        oc = ex.explore(lambda st: Interp(st).run_func(g, [[True, False]], {}))
        res.append(len(oc) == 1 and oc[0][0] == "raise" and isinstance(oc[0][1], ValueError))
        rep.add(Ob(id="wrapper.expand_pbc-total", status="proved" if all(res) else "refuted", backend="exact-evaluation", kind="exact", func=REL + ":expand_pbc"))
    finally:
        geo_ns._subs["ext"] = old_ext
    from engine.common import func_source_info
    rep.functions.append(func_source_info(REL, "get_displacement_tensor"))
    rep.functions.append(func_source_info(REL, "expand_pbc"))


def _getdistances(rep):
    """geometry.get_distances (observation point of the property): for every structure the MIC tables it hands out are the ones of
    get_displacement_tensor(positions, cell, pbc) with an unbounded cutoff (any periodic direction), or the plain differences (none);
    radii-corrected distances are dist - r_i - r_j. Positions, cell and radii are symbolic, all 8 pbc combinations."""
    import itertools
    import z3
    from engine.pyvc import Explorer, Interp, SR, sreal, z3num
    from engine.aseshim import sym_cell
    m = contexts.geometry_ctx()
    REL = "matid/geometry/geometry.py"
    FNQ = REL + ":get_distances"
    f = m.get("get_distances")
    old_D = m.globals.get("Distances")
    m.globals["Distances"] = lambda *a, **k: ("Distances", a, k)
    try:
        for pbc in itertools.product((False, True), repeat=3):
            tagp = "".join("T" if b else "F" for b in pbc)
            ex = Explorer(FNQ)
            box = {}

            def thunk(st, pbc=pbc):
                P = np.empty((2, 3), dtype=object)
                for i in range(2):
                    for k in range(3):
                        P[i, k] = sreal("p%d%d" % (i, k))
                C = sym_cell("c")
                calls = []
                R = np.array([sreal("r0"), sreal("r1")], dtype=object)

                class Sys:
                    def get_positions(self, wrap=False):
                        return P

                    def get_cell(self):
                        return C

                    def get_pbc(self):
                        return np.array(pbc)

                    def get_atomic_numbers(self):
                        return np.array([1, 8])

                    def __len__(self):
                        return 2

                def tensor(it, st, bound, site):
                    calls.append(dict(bound))
                    D = np.empty((2, 2, 3), dtype=object)
                    F = np.empty((2, 2, 3), dtype=object)
                    M = np.empty((2, 2), dtype=object)
                    for idx in np.ndindex(2, 2, 3):
                        D[idx] = SR(st.fresh_real("disp"))
                        F[idx] = SR(st.fresh_real("fac"))
                    for idx in np.ndindex(2, 2):
                        M[idx] = SR(st.fresh_real("dist"))
                    box["tok"] = (D, F, M)
                    out = [D] + ([F] if bound["return_factors"] else []) + ([M] if bound["return_distances"] else [])
                    return out[0] if len(out) == 1 else tuple(out)

                it = Interp(st, contracts={REL + ":get_displacement_tensor": tensor, REL + ":get_radii": lambda it, st, bound, site: R})
                r = it.run_func(f, [Sys()], {})
                box.update(P=P, C=C, R=R, calls=calls, st=st)
                # ---- post-condition on this path
                bad = []
                if len(calls) != 1:
                    bad.append("get_displacement_tensor called %d times" % len(calls))
                else:
                    b = calls[0]
                    D, F, M = box["tok"]
                    if b["positions"] is not P:
                        bad.append("positions passed are not the structure's positions")
                    if b.get("cutoff") not in (None, float("inf")):
                        bad.append("cutoff %r: not unbounded" % (b.get("cutoff"),))
                    if any(pbc):
                        if b.get("cell") is not C:
                            bad.append("cell passed is not the structure's cell")
                        pb = b.get("pbc")
                        pbl = [bool(pb)] * 3 if isinstance(pb, (bool, np.bool_)) else [bool(x) for x in pb]
                        if pbl != list(pbc):
                            bad.append("pbc passed %s for structure pbc %s" % (pbl, list(pbc)))
                    else:
                        pb = b.get("pbc")
                        pbl = [bool(pb)] * 3 if isinstance(pb, (bool, np.bool_)) else [bool(x) for x in pb]
                        if any(pbl):
                            bad.append("periodic search for a non-periodic structure")
                    if not (isinstance(r, tuple) and r and r[0] == "Distances"):
                        bad.append("does not return a Distances object")
                    else:
                        a = list(r[1]) + [None] * 4
                        kw = r[2]
                        disp = kw.get("disp_tensor_mic", a[0])
                        fac = kw.get("disp_factors", a[1])
                        dist = kw.get("dist_matrix_mic", a[2])
                        drad = kw.get("dist_matrix_radii_mic", a[3])
                        if disp is not D:
                            bad.append("disp_tensor_mic is not the table of get_displacement_tensor")
                        if dist is not M:
                            bad.append("dist_matrix_mic is not the table of get_displacement_tensor")
                        if any(pbc):
                            if fac is not F:
                                bad.append("disp_factors is not the table of get_displacement_tensor")
                        elif not (np.shape(fac) == (2, 2, 3) and all(v == 0 for v in np.array(fac, dtype=object).reshape(-1))):
                            bad.append("factors of a non-periodic structure are not zero")
                        try:
                            goal = z3.And([z3num(np.asarray(drad, dtype=object)[i, j]) == z3num(M[i, j]) - z3num(R[i]) - z3num(R[j]) for i in range(2) for j in range(2)])
                            s = z3.Solver()
                            s.set("timeout", 10000)
                            s.add(st.pc)
                            s.add(z3.Not(goal))
                            if s.check() != z3.unsat:
                                bad.append("dist_matrix_radii_mic is not dist - r_i - r_j")
                            if np.asarray(drad, dtype=object) is M:
                                bad.append("radii-corrected matrix aliases the distance matrix")
                        except Exception as e:  # noqa
                            bad.append("radii-corrected matrix: %s" % e)
                if bad:
                    sv = z3.Solver()
                    sv.set("timeout", 5000)
                    sv.add(st.pc)
                    wit = None
                    if sv.check() == z3.sat:
                        mdl = sv.model()

                        def val(x):
                            v = mdl.eval(z3num(x), model_completion=True)
                            try:
                                return float(v.as_fraction())
                            except Exception:
                                return float(v.approx(12).as_fraction()) if hasattr(v, "approx") else 0.0
                        wit = {"positions": [[val(P[i, k]) for k in range(3)] for i in range(2)], "cell": [[val(C[i, k]) for k in range(3)] for i in range(2 + 1)], "pbc": list(pbc)}
                    box.setdefault("bad", []).append((bad, wit))
                return r

            oc = ex.explore(thunk)
            bads = box.get("bad", [])
            raises = [o for o in oc if o[0] == "raise"]
            ok = not bads and not raises and len(oc) >= 1
            det = ""
            wit = {"pbc": list(pbc)}
            if bads:
                det = "; ".join(bads[0][0])
                if bads[0][1]:
                    wit.update(bads[0][1])
                    det += " | structure: %s" % (bads[0][1],)
            elif raises:
                det = "raises %r" % (raises[0][1],)
            rep.add(Ob(id="get_distances[pbc=%s].tables-are-the-periodic-search-of-the-structure" % tagp, status="proved" if ok else "refuted", backend="pyvc+z3", kind="vc",
                       func=FNQ, detail=det[:900], witness=wit))
    finally:
        m.globals["Distances"] = old_D
    from engine.common import func_source_info
    rep.functions.append(func_source_info(REL, "get_distances"))


def _driver(rep):
    """get_displacement_tensor (C++ entry point) and get_cell_list: extension = cutoff, or the longest periodic cell vector for an
    infinite cutoff; the cell list is built from the extended system with the cutoff; the tensor is filled for the original atoms"""
    m = X.module()
    for inf in (False, True):
        lab = "driver[cutoff=inf]." if inf else "driver."
        rec = {}

        def ext_contract(it, st, bound, site):
            st.ghost["extend_args"] = bound
            return cxxrt.Struct("ExtendedSystem", "EXT_POS", "EXT_NUM", "EXT_IDX", "EXT_FAC")

        class CLTok:
            indices_py = "EXT_IDX"

            def get_displacement_tensor(self, *a):
                cur().ghost["tensor_args"] = a

        def struct_hook(tname, *vals):
            if tname == "CellList":
                cur().ghost["celllist_args"] = vals
                return CLTok()
            raise Unsupported("struct %s" % tname)

        def mk(st, it, inf=inf):
            n = sint("n_atoms")
            st.assume(n.t >= 1)
            cell = sym_cell("c")
            pbc = sym_pbc("pbc")
            cutoff = cxxrt.INF if inf else sreal("cutoff")
            pos = sym_positions("pos", n)
            st.ghost["cxx_struct_hook"] = struct_hook
            st.ghost["cxx_array_hook"] = lambda x: (X.SymArr("tmp", x, "real") if isinstance(x, list) else NotImplemented)
            return ["DISP", "DIST", "FAC", pos, cell, pbc, cutoff, False, True], {}, {"cell": cell, "pbc": pbc, "cutoff": cutoff, "pos": pos, "n": n}

        def post(st, ctx, r, inf=inf):
            ea = st.ghost.get("extend_args")
            ca = st.ghost.get("celllist_args")
            ta = st.ghost.get("tensor_args")
            st.prove("extends-then-builds-cell-list-then-fills", z3.BoolVal(ea is not None and ca is not None and ta is not None))
            if ea is None or ca is None or ta is None:
                return
            st.prove("extended-with-the-given-positions-cell-pbc", z3.BoolVal(ea["positions"] is ctx["pos"] and ea["cell"] is ctx["cell"] and ea["pbc"] is ctx["pbc"]))
            ext = ea["cutoff"]
            if not inf:
                st.prove("extension-is-the-cutoff", z3num(ext) == ctx["cutoff"].t)
            else:
                cell, pbc = ctx["cell"], ctx["pbc"]
                Ls = [norm_contract(None, st, {"a": [cell[i, 0], cell[i, 1], cell[i, 2]]}, "") for i in range(3)]
                e = z3num(ext)
                st.prove("extension-covers-every-periodic-vector", z3.And([z3.Implies(z3bool(pbc[i]), e >= z3num(Ls[i])) for i in range(3)]))
                st.prove("extension-is-the-longest-periodic-vector-or-zero", z3.Or([e == 0] + [z3.And(z3bool(pbc[i]), e == z3num(Ls[i])) for i in range(3)]))
            st.prove("cell-list-over-the-extended-system", z3.BoolVal(ca[0] == "EXT_POS" and ca[1] == "EXT_IDX" and ca[2] == "EXT_FAC"))
            st.prove("cell-list-cutoff-is-the-cutoff", z3.BoolVal(ca[3] is ctx["cutoff"]) if inf else z3num(ca[3]) == ctx["cutoff"].t)
            st.prove("tensor-arrays-forwarded", z3.BoolVal(ta[0] == "DISP" and ta[1] == "DIST" and ta[2] == "FAC" and ta[3] == "EXT_IDX"))
            st.prove("tensor-for-the-original-atoms", z3num(ta[4]) == ctx["n"].t)

        contracts = dict(NORM)
        contracts["matid/ext (translated C++):extend_system"] = ext_contract
        def hav_zero(st, env, old):
            a = env.lookup("atomic_numbers_mu")
            st.n += 1
            a.a = z3.Const("%s!%d" % (a.name, st.n), a.a.sort())
            env.vars.pop("i", None)

        def body_zero(st, env, k, old):
            a = env.lookup("atomic_numbers_mu")
            return [("dummy-atomic-number-zero", z3num(a._getitem(k)) == 0)]

        run_fv(rep, lab, m, "get_displacement_tensor_cpp", mk, post, contracts=contracts,
               loops={("get_cell_list", 1): LoopSpec(lambda *a: [], hav_zero, name="dummy-numbers", body_post=body_zero)})


def replay_key(ob):
    return "c10"


def replay(ob):
    from props import C10_native
    r = C10_native.cxx_replay()
    if r.get("reproduced"):
        return r
    r2 = C10_native.replay_c10()
    r2["cxx_harness"] = r.get("note", "no failing input on the compiled C++")
    return r2


def replay_file(rp):
    return replay(Ob(id=rp["obligation"]))
