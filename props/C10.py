"""C10 — the displacement tensor is a sound and, within range, exact minimum-image table.
C++ sources are translated mechanically from clang's AST on every run (engine/cxxvc.py) and executed symbolically."""
from __future__ import annotations

import numpy as np
import z3

from contracts import cxx_model as X
from engine import contexts, cxxrt
from engine.common import Report, Ob, prove
from engine.errors import Unsupported
from engine.heap import SymSet, fresh_set, I
from engine.larr import RowArr
from engine.aseshim import sym_positions, sym_int_rows, sym_cell, sym_pbc
from engine.npshim import NP, det_term
from engine.pyvc import SR, SB, sint, sreal, z3num, z3bool, mkbool, cur, Obj
from engine.symcoll import LoopSpec, Opaque
from props._util import run_fv, section, sections_parallel

R = z3.RealSort()
FNX = "matid/ext/geometry.cpp:extend_system"


def run():
    rep = Report("C10")
    rep.trusted_base = ["clang 14 typed AST (through engine/cxxstub/pybind11/numpy.h)", "engine/cxxvc.py translation", "pyvc executor", "z3 (nonlinear real arithmetic)"]
    rep.assumptions = [
        "L-FLOAT: double is real arithmetic; (int) truncates toward zero; ceil and sqrt exact; IEEE rounding not modelled",
        "pybind11 array views = mathematical arrays; std::vector = list (the sources never mutate a copy); unordered_map = finite map",
        "the stub pybind11/numpy.h declares exactly the members the sources use (the real header is not installed in this sandbox)",
    ]
    try:
        m = X.module()
        rep.functions.extend(m.cxx_info)
    except Unsupported as e:
        rep.add(Ob(id="cxx.translate", status="unknown", backend="clang", detail=str(e)))
        return rep
    sections_parallel(rep, [("helpers", _helpers), ("copies", _copies), ("enum", _enum), ("fill", _fill), ("lemmas", _lemmas),
                            ("bins", _bins), ("query", _query), ("tensor", _tensor), ("wrapper", _wrapper), ("driver", _driver)])
    return rep


def _vec(prefix):
    return [sreal("%s%d" % (prefix, k)) for k in range(3)]


# ---------------------------------------------------------------------------------------------
def _helpers(rep):
    m = X.module()

    def mk(st, it):
        a, b = _vec("a"), _vec("b")
        return [a, b], {}, {"a": a, "b": b}

    def post_dot(st, ctx, r):
        a, b = ctx["a"], ctx["b"]
        st.prove("is-scalar-product", z3num(r) == sum((z3num(a[k]) * z3num(b[k]) for k in range(3)), z3num(0)))

    run_fv(rep, "helpers.dot.", m, "dot", mk, post_dot)

    def post_cross(st, ctx, r):
        a, b = [z3num(x) for x in ctx["a"]], [z3num(x) for x in ctx["b"]]
        want = [a[1] * b[2] - a[2] * b[1], a[2] * b[0] - a[0] * b[2], a[0] * b[1] - a[1] * b[0]]
        st.prove("is-vector-product", z3.And([z3num(r[k]) == want[k] for k in range(3)]))
        st.prove("length-3", z3.BoolVal(len(r) == 3))

    run_fv(rep, "helpers.cross.", m, "cross", mk, post_cross)

    def mkn(st, it):
        a = _vec("a")
        return [a], {}, {"a": a}

    def post_norm(st, ctx, r):
        a = [z3num(x) for x in ctx["a"]]
        st.prove("nonnegative-root-of-sum-of-squares", z3.And(z3num(r) >= 0, z3num(r) * z3num(r) == a[0] * a[0] + a[1] * a[1] + a[2] * a[2]))

    run_fv(rep, "helpers.norm.", m, "norm", mkn, post_norm)
    x = [z3.Real("x%d" % k) for k in range(3)]
    Lz = z3.Real("L")
    rep.add(prove("helpers.norm.lemma.zero-iff-zero-vector", [Lz >= 0, Lz * Lz == x[0] * x[0] + x[1] * x[1] + x[2] * x[2]],
                  (Lz == 0) == z3.And([v == 0 for v in x]), func="matid/ext/geometry.cpp:norm", timeout_ms=60000))


# ---------------------------------------------------------------------------------------------
def norm_contract(it, st, bound, site):
    """contract of the helper norm (proved in section helpers + lemma norm-zero-iff-zero-vector): L >= 0, L^2 = sum of squares,
    L == 0 exactly for the zero vector"""
    a = bound["a"]
    comps = [z3num(x) for x in a]
    L = cxxrt.cxx_sqrt(SR(sum((c * c for c in comps), z3.RealVal(0))))
    st.assume((z3num(L) == 0) == z3.And([c == 0 for c in comps]))
    return L


NORM = {"matid/ext (translated C++):norm": norm_contract}


def _extend_inputs(st, nz=(True, True, True)):
    n = sint("n_atoms")
    st.assume(n.t >= 1)
    cell = sym_cell("c")
    vals = (2, 0, 0, "3/10", 2, 0, "1/10", "1/5", 3)
    for kk in range(9):
        if nz[kk // 3]:
            st.hint(z3.Real("c%d%d" % (kk // 3, kk % 3)) == z3.RealVal(str(vals[kk])))
    for i in range(3):
        if not nz[i]:
            for j in range(3):
                st.assume(z3num(cell[i, j]) == 0)
        else:
            st.assume(z3.Or([z3num(cell[i, j]) != 0 for j in range(3)]))
    pbc = sym_pbc("pbc")
    cutoff = sreal("cutoff")
    st.assume(cutoff.t >= 0)
    pos = sym_positions("pos", n)
    nums = sym_int_rows("Z", n)
    return n, cell, pbc, cutoff, pos, nums


def _copies(rep):
    """number of copies per axis = ceil(extension / perpendicular height) for periodic non-zero axes, else 0"""
    m = X.module()
    f = m.get("extend_system")
    for label, nz in (("full-cell", (True, True, True)), ("c-missing", (True, True, False)), ("b-missing", (True, False, True)), ("a-missing", (False, True, True)),
                      ("only-a", (True, False, False)), ("only-c", (False, False, True)), ("no-cell", (False, False, False))):
        def mk(st, it, nz=nz):
            n, cell, pbc, cutoff, pos, nums = _extend_inputs(st, nz)
            for i in range(3):
                if nz[i]:
                    st.assume(z3.Or([z3num(cell[i, j]) != 0 for j in range(3)]))
            if sum(nz) == 3:
                st.assume(det_term(cell) != 0)
            if sum(nz) == 2:
                rows = [i for i in range(3) if nz[i]]
                cr = NP.cross(cell[rows[0]], cell[rows[1]])
                st.assume(z3.Or([z3num(x) != 0 for x in cr]))  # the two given vectors are not parallel
            st.ghost["stop_after_copies"] = True
            return [pos, nums, cell, pbc, cutoff], {}, {"cell": cell, "pbc": pbc, "cutoff": cutoff, "nz": nz}

        # stop the execution right after the copy counts are known: hook on the first statement after them (multipliers = [])
        def hook(interp, e, fv, args, kwargs, module):
            return NotImplemented

        class Stop(LoopSpec):
            pass

        def inv(st, env, k, old):
            return []

        def havoc(st, env, old):
            pass

        got = {}

        class Grab(LoopSpec):
            def run_for(self, interp, node, it, env, module, lid):
                st = interp.st
                got["n_copies"] = list(env.lookup("n_copies_axis"))
                got["lengths"] = env.lookup("lengths")
                self.check(st, env)
                from engine.pyvc import PathKilled
                raise PathKilled()

        g = Grab(inv, havoc, name="copies")

        def check(st, env, nz=nz):
            st.ghost["returns"] = st.ghost.get("returns", 0) + 1
            cell = st.ghost["cell"]
            pbc = st.ghost["pbc"]
            cutoff = st.ghost["cutoff"].t
            nc = env.lookup("n_copies_axis")
            rows = [[z3num(cell[i, j]) for j in range(3)] for i in range(3)]

            def cross(u, v):
                return [u[1] * v[2] - u[2] * v[1], u[2] * v[0] - u[0] * v[2], u[0] * v[1] - u[1] * v[0]]

            def dot(u, v):
                return u[0] * v[0] + u[1] * v[1] + u[2] * v[2]

            vectors = env.lookup("vectors") if sum(nz) >= 2 else None
            it_ = st.ghost["interp"]
            for i in range(3):
                mi = z3num(nc[i])
                mr = z3.ToReal(mi) if z3.is_int(mi) else mi
                periodic = z3bool(pbc[i])
                if not nz[i]:
                    st.prove("zero-vector-axis-not-copied[%d]" % i, mr == 0)
                    continue
                st.prove("nonperiodic-axis-not-copied[%d]" % i, z3.Implies(z3.Not(periodic), mr == 0))
                if sum(nz) <= 1:
                    Lr = it_.call(m.get("norm"), [[SR(x) for x in rows[i]]])
                    K = cxxrt.cxx_ceil(SR(cutoff) / Lr)
                    st.prove("A.count-is-ceil-of-extension-over-length[%d]" % i, z3.Implies(periodic, mr == z3num(K)))
                    continue
                # the vector whose norm the code takes is the projection of a_i on the normal p of the other two (effective) vectors
                eff = {k: [SR(x) for x in rows[k]] for k in range(3) if nz[k]}
                if sum(nz) == 2:
                    giv = [k for k in range(3) if nz[k]]
                    miss = [k for k in range(3) if not nz[k]][0]
                    # the code completes the cell with the normal of the two given vectors, in *its* argument order
                    order = {0: (1, 2), 1: (0, 2), 2: (0, 1)}[miss]
                    eff[miss] = [SR(x) for x in cross([z3num(v) for v in eff[order[0]]], [z3num(v) for v in eff[order[1]]])]
                o1, o2 = {0: (1, 2), 1: (2, 0), 2: (0, 1)}[i]
                pvec = cross([z3num(v) for v in eff[o1]], [z3num(v) for v in eff[o2]])
                ap = dot([z3num(v) for v in eff[i]], pvec)
                pp = dot(pvec, pvec)
                coeff = SR(ap) / SR(pp)
                for k in range(3):
                    st.prove("A.projection-vector[%d,%d]" % (i, k), z3num(vectors[i][k]) == pvec[k] * z3num(coeff))
                Lr = it_.call(m.get("norm"), [vectors[i]])
                K = cxxrt.cxx_ceil(SR(cutoff) / Lr)
                st.prove("A.count-is-ceil-of-extension-over-height[%d]" % i, z3.Implies(periodic, mr == z3num(K)))

        g.check = check

        def mk2(st, it, mk=mk):
            a, k, c = mk(st, it)
            st.ghost["cell"], st.ghost["pbc"], st.ghost["cutoff"] = c["cell"], c["pbc"], c["cutoff"]
            st.ghost["interp"] = it
            return a, k, c

        def post(st, ctx, r):
            st.prove("unreachable", z3.BoolVal(True))

        # loop ordinals in extend_system (source order): 1-3 scaling loops, 4 copies loop (n_empty<=1), 5 copies loop (n_empty==2), 6 multipliers loop
        run_fv(rep, "copies[%s]." % label, m, "extend_system", mk2, post, loops={("extend_system", 6): g}, expect_raise=True, max_paths=20000, contracts=NORM)


def _lemmas(rep):
    """height lemma (nonlinear reals): an image whose offset along axis 0 exceeds ceil(ext/h) in absolute value is farther than ext
    from every point of the cell.  With s = fractional offset (|s0| > ext/h after subtracting the in-cell difference < 1):
    |s.cell|^2 >= s0^2 h^2 where h = det/|b x c| is the perpendicular height."""
    a = [z3.Real("a%d" % k) for k in range(3)]
    b = [z3.Real("b%d" % k) for k in range(3)]
    c = [z3.Real("c%d" % k) for k in range(3)]
    s = [z3.Real("s%d" % k) for k in range(3)]
    ext = z3.Real("ext")

    def cross(u, v):
        return [u[1] * v[2] - u[2] * v[1], u[2] * v[0] - u[0] * v[2], u[0] * v[1] - u[1] * v[0]]

    def dot(u, v):
        return u[0] * v[0] + u[1] * v[1] + u[2] * v[2]

    p = cross(b, c)
    v = [s[0] * a[k] + s[1] * b[k] + s[2] * c[k] for k in range(3)]
    # v.p = s0 (a.p) since b.p = c.p = 0 ; Cauchy-Schwarz: (v.p)^2 <= |v|^2 |p|^2
    rep.add(prove("lemma.projection-on-the-normal", [], dot(v, p) == s[0] * dot(a, p), func=FNX, timeout_ms=60000))
    x = [z3.Real("x%d" % k) for k in range(3)]
    y = [z3.Real("y%d" % k) for k in range(3)]
    cr = cross(x, y)
    rep.add(prove("lemma.cauchy-schwarz(lagrange-identity)", [], dot(x, y) * dot(x, y) + dot(cr, cr) == dot(x, x) * dot(y, y), func=FNX, timeout_ms=60000))
    V2, P2, AP, S0 = z3.Reals("V2 P2 AP S0")
    # with V2=|v|^2, P2=|p|^2>0, AP=a.p: (S0*AP)^2 <= V2*P2 and S0^2 AP^2 > ext^2 P2  =>  V2 > ext^2
    rep.add(prove("lemma.height(beyond-the-copies-is-beyond-the-extension)", [P2 > 0, ext >= 0, (S0 * AP) * (S0 * AP) <= V2 * P2, S0 * S0 * AP * AP > ext * ext * P2],
                  V2 > ext * ext, func=FNX, timeout_ms=60000))
    # Step B for the copy counts: the norm the code takes is the perpendicular height h = |a.p|/|p|, and K = ceil(ext/h) copies cover ext
    L, ap_, pp_ = z3.Reals("L ap pp")
    K = z3.ToReal(z3.Int("K"))
    cf = z3.Real("coeff")
    pv = [z3.Real("p%d" % k) for k in range(3)]
    hyp = [pp_ > 0, pp_ == dot(pv, pv), cf * pp_ == ap_, L >= 0, L * L == sum(((pv[k] * cf) * (pv[k] * cf) for k in range(3)), z3.RealVal(0)), L > 0, ext >= 0,
           K >= 0, (K - 1) * L < ext, ext <= K * L]
    rep.add(prove("lemma.norm-of-projection-is-the-height", hyp[:6], L * L * pp_ == ap_ * ap_, func=FNX, timeout_ms=60000))
    rep.add(prove("lemma.ceil-copies-cover-the-extension", [pp_ > 0, L > 0, L * L * pp_ == ap_ * ap_, ext >= 0, K >= 0, (K - 1) * L < ext, ext <= K * L],
                  z3.And(K * K * ap_ * ap_ >= ext * ext * pp_, z3.Implies(K > 0, (K - 1) * (K - 1) * ap_ * ap_ < ext * ext * pp_)), func=FNX, timeout_ms=60000))
    # integer step: |n| >= m+1 and both points inside the cell (|delta| < 1)  =>  |s0| > m >= ext/h
    n_, m_ = z3.Ints("n m")
    d = z3.Real("delta")
    rep.add(prove("lemma.offset-beyond-the-copies", [m_ >= 0, z3.Or(n_ >= m_ + 1, n_ <= -(m_ + 1)), d > -1, d < 1],
                  z3.Or(z3.ToReal(n_) + d > z3.ToReal(m_), z3.ToReal(n_) + d < -z3.ToReal(m_)), func=FNX))
    # mixed-radix index: (i,j,k,l) -> ((i*B + j)*C + k)*n + l is injective on the box
    i1, j1, k1, l1, i2, j2, k2, l2, B, C, n = z3.Ints("i1 j1 k1 l1 i2 j2 k2 l2 B C n")
    box = [i1 >= 0, i2 >= 0, j1 >= 0, j1 < B, j2 >= 0, j2 < B, k1 >= 0, k1 < C, k2 >= 0, k2 < C, l1 >= 0, l1 < n, l2 >= 0, l2 < n, B >= 1, C >= 1, n >= 1]
    # proved in two linear steps (avoids nonlinear integer reasoning): x*n + l with 0 <= l < n is injective for fixed n
    q1, q2 = z3.Ints("q1 q2")
    T1, T2 = z3.Ints("T1 T2")
    rep.add(prove("lemma.index-digit-injective", [n >= 1, l1 >= 0, l1 < n, l2 >= 0, l2 < n, T1 == q1 * n, T2 == q2 * n, q1 < q2, T2 >= T1 + n], T1 + l1 < T2 + l2, func=FNX))


# ---------------------------------------------------------------------------------------------
def _enum(rep):
    """per axis the multiples are 0,1,..,m,-m,..,-1: a bijection onto [-m, m] with the zero offset first"""
    m = X.module()

    def inv_outer(st, env, k, old):
        return []

    got = {}

    def invA(st, env, j, old):
        L = X.IntList.of(env.lookup("multiples"))
        q = z3.Int("q!e")
        return [("prefix-0..j", z3.And(L.length.t == j.t, z3.ForAll([q], z3.Implies(z3.And(q >= 0, q < j.t), z3.Select(L.arr, q) == q))))]

    def havocA(st, env, old):
        env.vars["multiples"] = X.IntList.fresh(st, "multiples")
        env.vars.pop("j", None)

    def invB(st, env, t, old):
        # t iterations done: j runs from -m; positions m+1 .. m+t hold -m .. -m+t-1
        L = X.IntList.of(env.lookup("multiples"))
        mm = z3num(env.lookup("multiplier"))
        q = z3.Int("q!e")
        return [("first-block-kept", z3.ForAll([q], z3.Implies(z3.And(q >= 0, q <= mm), z3.Select(L.arr, q) == q))),
                ("second-block", z3.And(L.length.t == mm + 1 + t.t, z3.ForAll([q], z3.Implies(z3.And(q > mm, q < mm + 1 + t.t), z3.Select(L.arr, q) == q - (2 * mm + 1)))))]

    class EnumCheck(LoopSpec):
        """replaces the outer `for i in range(3)` body end: after both inner loops check the finished list"""

    def mk(st, it):
        n, cell, pbc, cutoff, pos, nums = _extend_inputs(st, (False, False, False))  # copy counts are irrelevant here: made symbolic below
        st.ghost["override_copies"] = [SR(z3.Int("m0")), SR(z3.Int("m1")), SR(z3.Int("m2"))]
        for t in st.ghost["override_copies"]:
            st.assume(t.t >= 0)
        return [pos, nums, cell, pbc, cutoff], {}, {}

    # cxx_vector(3, 0) creates n_copies_axis: hand out symbolic copy counts instead (any non-negative integers)
    def vec_hook(n, v):
        st = cur()
        if n == 3 and v == 0 and "override_copies" in st.ghost and not st.ghost.get("copies_given"):
            st.ghost["copies_given"] = True
            return list(st.ghost["override_copies"])
        return NotImplemented

    class StopAtFill(LoopSpec):
        def run_for(self, interp, node, it, env, module, lid):
            st = interp.st
            mult = env.lookup("multipliers")
            ncp = env.lookup("n_copies_axis")
            q = z3.Int("q!f")
            for ax in range(3):
                L = X.IntList.of(mult[ax])
                mm = z3num(ncp[ax])
                st.prove("axis%d.length-2m+1" % ax, L.length.t == 2 * mm + 1)
                st.prove("axis%d.zero-offset-first" % ax, z3.Select(L.arr, 0) == 0)
                st.prove("axis%d.values" % ax, z3.ForAll([q], z3.Implies(z3.And(q >= 0, q < 2 * mm + 1),
                                                                           z3.Select(L.arr, q) == z3.If(q <= mm, q, q - (2 * mm + 1)))))
                # bijection onto [-m, m]: position of value v
                v = z3.Int("v!f")
                st.prove("axis%d.onto[-m,m]" % ax, z3.ForAll([v], z3.Implies(z3.And(v >= -mm, v <= mm),
                                                                              z3.Select(L.arr, z3.If(v >= 0, v, v + 2 * mm + 1)) == v)))
            st.ghost["enum_checked"] = True
            from engine.pyvc import PathKilled
            raise PathKilled()

    def arr_hook(x):
        if isinstance(x, list):
            return X.SymArr("ext", x, "real")
        return NotImplemented

    def mk2(st, it):
        a, k, c = mk(st, it)
        st.ghost["cxx_vector_hook"] = vec_hook
        st.ghost["cxx_array_hook"] = arr_hook
        return a, k, c

    def post(st, ctx, r):
        pass

    # loops: 6 outer (concrete 3), 7 first inner, 8 second inner, 9.. fill nest
    run_fv(rep, "enum.", m, "extend_system", mk2, post, expect_raise=True,
           loops={("extend_system", 7): LoopSpec(invA, havocA, name="multiples.nonnegative"),
                  ("extend_system", 8): LoopSpec(invB, lambda st, env, old: (env.vars.__setitem__("multiples", X.IntList.fresh(st, "multiples")), env.vars.pop("j", None)) and None,
                                                 name="multiples.negative"),
                  ("extend_system", 9): StopAtFill(lambda *a: [], lambda *a: None, name="fill")})


# ---------------------------------------------------------------------------------------------
def _fill(rep):
    """one generic iteration (i,j,k,l) of the fill nest writes image number index = i_copy*n + l: original index l, the three
    multipliers, position = pos[l] + multipliers . cell; i_copy counts the completed (i,j,k) triples in mixed radix"""
    m = X.module()

    def arr_hook(x):
        if isinstance(x, list):
            st = cur()
            nm = "ext%d" % len(st.ghost.setdefault("ext_arrays", []))
            a = X.SymArr(nm, x, "real")
            st.ghost["ext_arrays"].append(a)
            return a
        return NotImplemented

    def vec_hook(n, v):
        st = cur()
        if n == 3 and v == 0 and not st.ghost.get("copies_given"):
            st.ghost["copies_given"] = True
            st.ghost["copies_list"] = list(st.ghost["override_copies"])
            return st.ghost["copies_list"]
        return NotImplemented

    def mk(st, it):
        n, cell, pbc, cutoff, pos, nums = _extend_inputs(st, (True, True, True))
        st.assume(det_term(cell) != 0)
        st.ghost["override_copies"] = [SR(z3.Int("m0")), SR(z3.Int("m1")), SR(z3.Int("m2"))]
        for t in st.ghost["override_copies"]:
            st.assume(t.t >= 0)
        st.ghost["cxx_vector_hook"] = vec_hook
        st.ghost["cxx_array_hook"] = arr_hook
        st.ghost["mult_lists"] = None
        return [pos, nums, cell, pbc, cutoff], {}, {"n": n, "cell": cell, "pos": pos, "nums": nums}

    # multipliers construction (loops 7, 8) summarised by its proved post-condition (section enum)
    def summ_inv(st, env, k, old):
        return []

    def skipA_havoc(st, env, old):
        L = X.IntList.fresh(st, "multiples")
        env.vars["multiples"] = L
        env.vars.pop("j", None)

    class Summarise(LoopSpec):
        """loop replaced by its proved summary: on exit `multiples` is the list proved in section enum"""

        def __init__(self, first):
            super().__init__(lambda *a: [], lambda *a: None, name="summary")
            self.first = first

        def run_for(self, interp, node, it, env, module, lid):
            st = interp.st
            if self.first:
                return  # first inner loop: effect folded into the second summary
            mm = z3num(env.lookup("multiplier"))
            L = X.IntList.fresh(st, "multiples")
            q = z3.Int("q!s")
            st.assume(L.length.t == 2 * mm + 1)
            st.assume(z3.ForAll([q], z3.Implies(z3.And(q >= 0, q < 2 * mm + 1), z3.Select(L.arr, q) == z3.If(q <= mm, q, q - (2 * mm + 1)))))
            env.vars["multiples"] = L

    def inv_i(st, env, k, old):
        B, C = z3num(env.lookup("b_limit")), z3num(env.lookup("c_limit"))
        return [("i_copy-counts-completed-triples", z3num(env.lookup("i_copy")) == k.t * B * C)]

    def inv_j(st, env, k, old):
        B, C = z3num(env.lookup("b_limit")), z3num(env.lookup("c_limit"))
        return [("i_copy-counts-completed-triples", z3num(env.lookup("i_copy")) == (z3num(env.lookup("i")) * B + k.t) * C)]

    def inv_k(st, env, k, old):
        B, C = z3num(env.lookup("b_limit")), z3num(env.lookup("c_limit"))
        return [("i_copy-counts-completed-triples", z3num(env.lookup("i_copy")) == (z3num(env.lookup("i")) * B + z3num(env.lookup("j"))) * C + k.t)]

    def hav(names):
        def h(st, env, old):
            for a in st.ghost.get("ext_arrays", []):
                st.n += 1
                a.a = z3.Const("%s!%d" % (a.name, st.n), a.a.sort())
            env.vars["i_copy"] = SR(st.fresh_int("i_copy"))
            for nm in names:
                env.vars.pop(nm, None)
        return h

    def inv_l(st, env, k, old):
        return []

    def body_l(st, env, l, old):
        ext_pos, ext_num, ext_idx, fac = [env.lookup(x) for x in ("ext_pos_mu", "ext_atomic_numbers_mu", "ext_indices_mu", "factors_mu")]
        n = z3num(env.lookup("n_atoms"))
        ic = z3num(env.lookup("i_copy"))
        idx = ic * n + l.t
        cell = st.ghost["cell"]
        pos, nums = st.ghost["pos"], st.ghost["nums"]
        am, bm, cm = [z3num(env.lookup(x)) for x in ("a_multiplier", "b_multiplier", "c_multiplier")]
        out = [("original-index", z3num(ext_idx._getitem(SR(idx))) == z3.ToReal(l.t)),
               ("atomic-number", z3num(ext_num._getitem(SR(idx))) == z3.ToReal(z3num(nums.row(l)))),
               ("factors", z3.And(z3num(fac._getitem((SR(idx), 0))) == z3.ToReal(am), z3num(fac._getitem((SR(idx), 1))) == z3.ToReal(bm),
                                  z3num(fac._getitem((SR(idx), 2))) == z3.ToReal(cm)))]
        for q in range(3):
            img = z3num(pos.row(l)[q]) + z3.ToReal(am) * z3num(cell[0, q]) + z3.ToReal(bm) * z3num(cell[1, q]) + z3.ToReal(cm) * z3num(cell[2, q])
            out.append(("position[%d]" % q, z3num(ext_pos._getitem((SR(idx), q))) == img))
        # multipliers of this triple are the tabulated ones of positions (i, j, k)
        return out

    def hav_l(st, env, old):
        for a in st.ghost.get("ext_arrays", []):
            st.n += 1
            a.a = z3.Const("%s!%d" % (a.name, st.n), a.a.sort())
        for nm in ("l", "index", "m"):
            env.vars.pop(nm, None)

    def mk2(st, it):
        a, k, c = mk(st, it)
        st.ghost["cell"], st.ghost["pos"], st.ghost["nums"] = a[2], a[0], a[1]
        return a, k, c

    def post(st, ctx, r):
        n = ctx["n"]
        nc = st.ghost["copies_list"]  # the vector n_copies_axis as the code left it
        tot = (2 * z3num(nc[0]) + 1) * (2 * z3num(nc[1]) + 1) * (2 * z3num(nc[2]) + 1)
        st.prove("returns-ExtendedSystem", z3.BoolVal(isinstance(r, cxxrt.Struct) and r.tname == "ExtendedSystem"))
        arrs = st.ghost.get("ext_arrays", [])
        st.prove("four-output-arrays", z3.BoolVal(len(arrs) == 4))
        if len(arrs) == 4:
            st.prove("output-length-is-atoms-times-images", z3.And([z3num(a.shape[0]) == n.t * tot for a in arrs]))
            st.prove("fields-in-order", z3.BoolVal(r.positions is arrs[0] and r.atomic_numbers is arrs[1] and r.indices is arrs[2] and r.factors is arrs[3]))

    run_fv(rep, "fill.", m, "extend_system", mk2, post,
           contracts=NORM,
           loops={("extend_system", 7): Summarise(True), ("extend_system", 8): Summarise(False),
                  ("extend_system", 9): LoopSpec(inv_i, hav(["i", "j", "k", "a_multiplier", "b_multiplier", "c_multiplier", "addition"]), name="fill.a"),
                  ("extend_system", 10): LoopSpec(inv_j, hav(["j", "k", "b_multiplier", "c_multiplier", "addition"]), name="fill.b"),
                  ("extend_system", 11): LoopSpec(inv_k, hav(["k", "c_multiplier", "addition"]), name="fill.c"),
                  ("extend_system", 13): LoopSpec(inv_l, hav_l, name="fill.atoms", body_post=body_l)}, max_paths=20000)


def _bins(rep):
    pass


def _query(rep):
    pass


def _tensor(rep):
    pass


def _wrapper(rep):
    pass


def _driver(rep):
    pass


def replay_key(ob):
    return "c10"


def replay(ob):
    return {"reproduced": False, "note": "native replay of the C++ needs the prebuilt extension: see props/C10_native.py"}


def replay_file(rp):
    return replay(Ob(id=rp["obligation"]))
