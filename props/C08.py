"""C08 — reported free Wyckoff parameters regenerate the atoms of their set."""
from __future__ import annotations

import ast

import numpy as np
import z3

from engine import contexts, tabvc
from engine.common import Report, Ob, pool_map, func_source_info
from engine.errors import Unsupported
from engine.npshim import NP, obj
from engine.pyvc import Explorer, Interp, Env, SR, SB, sreal, z3num, z3bool, State
from props._util import run_fv, section, sections_parallel

REL = "matid/symmetry/symmetryanalyzer.py"
FN = REL + ":SymmetryAnalyzer._get_wyckoff_sets"


def _blocks():
    """mechanical extraction (every run) of two statement blocks of the real _get_wyckoff_sets:
    (a) the loop that solves the parameters from the representative position, (b) the statements that build test_positions.
    Dropped by the extraction: everything around them (the blocks are executed with the variables they read bound by the harness)."""
    m = contexts.symmetry_ctx()
    f = m.get("SymmetryAnalyzer._get_wyckoff_sets")
    solve = None
    tests = []
    for n in ast.walk(f.node):
        if (isinstance(n, ast.For) and isinstance(n.target, ast.Tuple) and [getattr(e, "id", None) for e in n.target.elts] == ["idx", "var"]
                and any(isinstance(x, ast.Assign) and isinstance(x.targets[0], ast.Subscript) and getattr(x.targets[0].value, "id", "") == "W"
                        for x in ast.walk(n))):
            solve = n
    # block (b): consecutive statements starting with `test_positions = ...` up to and including the `for trans in translations` loop
    for parent in ast.walk(f.node):
        body = getattr(parent, "body", None)
        if not isinstance(body, list):
            continue
        for i, s in enumerate(body):
            if isinstance(s, ast.Assign) and getattr(s.targets[0], "id", None) == "test_positions":
                j = i
                while j < len(body) and not (isinstance(body[j], ast.For) and getattr(body[j].iter, "id", None) == "translations"):
                    j += 1
                if j < len(body):
                    tests = body[i: j + 1]
    if solve is None or not tests:
        raise Unsupported("solve loop / test_positions block of _get_wyckoff_sets not found (shape changed)")
    return m, f, solve, tests


def _position_obligations(sg):
    INFO, WY, NZ = tabvc.load_tables()
    m, f, solve, tests = _blocks()
    out = []
    w = WY[sg]
    trans = [tabvc.ratv(t) for t in w["translations"]]
    letters = sorted(k for k in w if k != "translations")
    for L in letters:
        e = w[L]
        p = "%d,%s" % (sg, L)
        wit = {"sg": sg, "letter": L}
        if not e["variables"]:
            continue
        Ms, Cs = e["matrices"], e["constants"]  # the arrays the code reads
        ex = Explorer(FN)

        def thunk(st, e=e, Ms=Ms, Cs=Cs):
            it = Interp(st)
            it.func_stack.append(("_get_wyckoff_sets", [0], f, Env()))
            Wt = [sreal("w%d" % k) if v in e["variables"] else 0.0 for k, v in enumerate("xyz")]
            M, C = Ms[0], Cs[0]
            R = NP.dot(np.array(Wt, dtype=object), M) + C
            variable_map = {}
            for ivar, variable in enumerate(["x", "y", "z"]):
                if variable in e["variables"]:
                    variable_map[ivar] = variable
            env = Env()
            env.vars.update({"variable_map": variable_map, "M": M, "C": C, "R": R, "W": NP.zeros(3)})
            it.exec(solve, env, m)
            W2 = env.vars["W"]
            # (1) the solved parameters regenerate the representative position modulo lattice translations
            back = NP.dot(W2, M) + C
            for k in range(3):
                st.prove("c08.solve[%s]" % p, z3.IsInt(z3num(back[k]) - z3num(R[k])) if not isinstance(back[k] - R[k], (int, float)) else
                         z3.BoolVal(float(back[k] - R[k]).is_integer()))
            # (2) test positions = all expressions x all centring translations, evaluated at the solved parameters
            env2 = Env()
            n_expr = Cs.shape[0]
            n_trans = len(w["translations"])
            env2.vars.update({"n_trans": n_trans, "n_expr": n_expr, "W": W2, "Ms": Ms, "Cs": Cs, "translations": w["translations"]})
            for s_ in tests:
                it.exec(s_, env2, m)
            tp = env2.vars["test_positions"]
            ok_shape = tp.shape == ((n_trans + 1) * n_expr, 3)
            st.prove("c08.tests-shape[%s]" % p, z3.BoolVal(ok_shape))
            if ok_shape:
                allt = [np.zeros(3)] + [np.array(t) for t in w["translations"]]
                conj = []
                for j, t in enumerate(allt):
                    for i in range(n_expr):
                        want = NP.dot(W2, Ms[i]) + Cs[i] + t
                        for k in range(3):
                            a, b = tp[j * n_expr + i, k], want[k]
                            conj.append(z3num(a) == z3num(b) if isinstance(a, SR) or isinstance(b, SR) else z3.BoolVal(abs(float(a) - float(b)) < 1e-12))
                st.prove("c08.tests=orbit[%s]" % p, z3.And(conj))
            return None

        ex.explore(thunk)
        for ob in ex.results():
            ob.func = FN
            ob.witness = wit
            out.append(ob)
        for oc in ex.outcomes:
            if oc[0] == "raise":
                out.append(Ob(id="c08.solve[%s]" % p, status="refuted", backend="pyvc", func=FN, witness=wit,
                              detail="solve block raised %s: %s" % (type(oc[1]).__name__, oc[1])))
    return out


def run():
    rep = Report("C08")
    rep.trusted_base = ["z3 (LRA/LIA)", "pyvc symbolic executor on statement blocks extracted mechanically from the real source on every run", "spglib Hall database (table part)"]
    rep.assumptions = [
        "float tolerance comparisons are treated in real arithmetic (L-FLOAT)",
        "contract of _search_periodic_positions (assumed for the guard obligations): returns an index only if the periodic cartesian distance is within the accuracy, else None",
        "A-SPG: letters and orbits of the conventional atoms (C07)",
        "table lemmas wy.expr=matrix / wy.integer / wy.variables / wy.orbit are discharged under C14 and re-used here",
    ]
    rep.functions.append(func_source_info(REL, "SymmetryAnalyzer._get_wyckoff_sets"))
    # per table entry: solve block + test positions (1731 positions, those with free variables)
    try:
        _blocks()
        obs = tabvc.run_family(_position_obligations, list(range(1, 231)))
        rep.obligations.extend(obs)
    except Unsupported as e:
        rep.add(Ob(id="c08.blocks", status="unknown", backend="engine", detail=str(e)))
    # table lemmas needed by the argument (same obligations as in C14, restricted to what C08 uses)
    wyobs = tabvc.run_family(tabvc.wyckoff_obligations, list(range(1, 231)))
    rep.obligations.extend(o for o in wyobs if o.id.split("[")[0] in ("wy.expr=matrix", "wy.integer", "wy.variables", "wy.orbit", "wy.shape"))
    sections_parallel(rep, [("flag", _flag), ("wrapvalues", _wrapvalues), ("guard", _guard), ("maps", _maps), ("twod", _twod)])
    rep.extra["exhaustive"] = True
    rep.extra["explanation"] = ("for every tabulated position with free parameters the real solve loop and the real test-position construction are "
                                "executed with symbolic parameters (all x,y,z); the guard of the enclosing function carries the post-condition")
    # spglib is asked about the analysed structure with the analyzer's tolerance; the simple getters are dataset look-ups (shared section)
    from props import _sym as _symmod
    from props._util import section as _section
    _section(rep, "dataset", lambda: _symmod.dataset_section(rep))
    _section(rep, "getters", lambda: _symmod.public_getters_section(rep))
    return rep


def _flag(rep):
    """get_has_free_wyckoff_parameters: true iff some occupied letter has a non-empty variable set (all 230 groups; every single letter, every pair of letters, all letters)"""
    m = contexts.symmetry_ctx()
    INFO, WY, NZ = tabvc.load_tables()
    f = m.get("SymmetryAnalyzer.get_has_free_wyckoff_parameters")
    bad = []
    n = 0
    for sg in range(1, 231):
        letters = sorted(k for k in WY[sg] if k != "translations")
        import itertools as _it
        # every single letter, every pair (a letter without and a letter with a free parameter in either alphabetical order), all letters
        combos = [[L] for L in letters] + [list(c) for c in _it.combinations(letters, 2)] + [letters]
        for occ in combos:
            ex = Explorer("flag")

            def thunk(st, sg=sg, occ=occ):
                it = Interp(st, contracts={REL + ":SymmetryAnalyzer.get_space_group_number": lambda *a: sg,
                                           REL + ":SymmetryAnalyzer.get_wyckoff_letters_original": lambda *a: np.array(occ)})
                return it.run_func(f, [contexts.make_self(m, "SymmetryAnalyzer")], {})

            oc = ex.explore(thunk)
            n += 1
            want = any(len(WY[sg][L]["variables"]) > 0 for L in occ)
            if len(oc) != 1 or oc[0][0] != "return" or bool(oc[0][1]) != want:
                bad.append((sg, occ, str(oc[0][1])[:50]))
    rep.add(Ob(id="flag.iff-some-occupied-letter-has-a-variable", status="proved" if not bad else "refuted", backend="exact-evaluation", kind="exact",
               func=REL + ":SymmetryAnalyzer.get_has_free_wyckoff_parameters", detail="%d (group, occupied letters) cases; failures: %s" % (n, bad[:3]),
               witness={"sg": bad[0][0], "letter": bad[0][1][0]} if bad else None))
    rep.functions.append(func_source_info(REL, "SymmetryAnalyzer.get_has_free_wyckoff_parameters"))


def _wrapvalues(rep):
    """reported values: get_wrapped_positions(W_final) lies in [0,1) and differs from W by an integer (or snaps within 1e-5):
    with integer matrices (wy.integer) a shift of a parameter by an integer moves the regenerated position by a lattice vector."""
    m = contexts.geometry_ctx()

    def mk(st, it):
        W = np.array([sreal("w%d" % k) for k in range(3)], dtype=object)
        return [W.copy()], {}, {"W": W}

    def post(st, ctx, r):
        prec = z3.RealVal("1/100000")
        for k in range(3):
            v = z3num(r[k])
            w = z3num(ctx["W"][k] % 1)
            st.prove("range[%d]" % k, z3.And(v >= 0, v < 1))
            st.prove("integer-shift-or-snapped[%d]" % k, z3.Or(z3.IsInt(v - z3num(ctx["W"][k])), z3.And(v == 0, z3.Or(w < prec, 1 - w < prec))))

    run_fv(rep, "reported-values.", m, "get_wrapped_positions", mk, post, max_paths=5000)
    # integer shift of a parameter => lattice shift of the position, for integer M (lemma used with wy.integer)
    from engine.common import prove
    x, k = z3.Real("x"), z3.Int("k")
    mm = z3.Int("m")
    rep.add(prove("reported-values.lemma.integer-parameter-shift-is-a-lattice-shift", [], z3.IsInt((x + z3.ToReal(k)) * z3.ToReal(mm) - x * z3.ToReal(mm)),
                  func=FN))


def _guard(rep):
    """_get_wyckoff_sets executed whole for one set of two atoms at a one-parameter position (sg 99 'c'-like shape taken from the table),
    with _search_periodic_positions under contract: parameters are reported only on the path where every test position matched;
    otherwise ValueError; attributes are set exactly for the free variables."""
    m = contexts.symmetry_ctx()
    INFO, WY, NZ = tabvc.load_tables()
    from engine.aseshim import SymAtoms, sym_cell
    import numpy as _np

    cases = [(75, "c"), (99, "a"), (1, "a"), (47, "A")]
    for sg, L in cases:
        e = WY[sg][L]
        n_at = e["constants"].shape[0] * (len(WY[sg]["translations"]) + 1)
        if n_at > 4:
            continue
        matched = {}

        class Sys:
            def __init__(self, st):
                self.pos = _np.empty((n_at, 3), dtype=object)
                for i in range(n_at):
                    for k in range(3):
                        self.pos[i, k] = sreal("p%d%d" % (i, k))
                self.cell = sym_cell("c")

            def get_cell(self):
                return self.cell

            def get_chemical_symbols(self):
                return ["Si"] * n_at

            def get_atomic_numbers(self):
                return _np.array([14] * n_at)

            def get_scaled_positions(self):
                return self.pos.copy()

        def search_contract(it, st, bound, site):
            # returns an index (match within accuracy) or None; which one is not constrained (covers every geometry)
            b = st.fresh("match", "bool")
            st.ghost.setdefault("search_calls", []).append((bound["target_pos"], bound["accuracy"], b))
            if st.fork(b):
                return 0
            return None

        def mk(st, it, sg=sg, L=L):
            s = Sys(st)
            self_ = contexts.make_self(m, "SymmetryAnalyzer")
            return [self_, s, sg, _np.array([L] * n_at), _np.array([0] * n_at)], {"precision": sreal("tol"), "return_parameters": True}, {"sys": s}

        def raises(st, ctx, exc):
            calls = st.ghost.get("search_calls", [])
            import os, traceback
            if os.environ.get("VERIF_DEBUG"):
                traceback.print_exception(exc)
            st.prove("failure-is-ValueError", z3.BoolVal(isinstance(exc, ValueError)))
            # ValueError only if for every tried atom some search failed
            st.prove("ValueError-only-when-some-position-unmatched", z3.Or([z3.Not(b) for _, _, b in calls]) if calls else z3.BoolVal(False))

        def post(st, ctx, r, sg=sg, L=L):
            e = WY[sg][L]
            st.prove("one-set", z3.BoolVal(len(r) == 1))
            ws = r[0]
            free = set(e["variables"])
            for v in "xyz":
                val = getattr(ws, v)
                st.prove("attribute-%s-set-iff-free" % v, z3.BoolVal((val is not None) == (v in free)))
                if val is not None and isinstance(val, SR):
                    st.prove("value-%s-in-unit-interval" % v, z3.And(val.t >= 0, val.t < 1))
            calls = st.ghost.get("search_calls", [])
            n_tests = n_at
            if free:
                # the last n_tests + 1 searches (consistency check + every test position) all matched
                st.prove("reported-only-when-every-test-position-matched", z3.And([b for _, _, b in calls[-(n_tests + 1):]]) if len(calls) >= n_tests + 1 else z3.BoolVal(False))
            st.prove("multiplicity-is-size", z3.BoolVal(ws.multiplicity == len(ws.indices) == n_at))
            st.prove("letter-and-element", z3.BoolVal(ws.wyckoff_letter == L and ws.element == "Si" and ws.atomic_number == 14))

        run_fv(rep, "guard[%d,%s]." % (sg, L), m, "SymmetryAnalyzer._get_wyckoff_sets", mk, post, raises=raises,
               contracts={REL + ":SymmetryAnalyzer._search_periodic_positions": search_contract}, max_paths=3000)



def _twod(rep):
    """two-dimensional inputs: the sets are formed from the conventional system that get_conventional_system hands out and the letters it
    stored; the letters must describe those positions. (Refuted on the unchanged tree for every 2D input: known finding, DESIGN.md I.6b.)"""
    from props import C11
    from engine.common import Report as _R
    tmp = _R("tmp")
    C11.LETTERS_VS_POSITIONS["on"] = True
    try:
        C11._conventional(tmp)
    finally:
        C11.LETTERS_VS_POSITIONS["on"] = False
    n = 0
    for ob in tmp.obligations:
        if ob.id.endswith("letters-refer-to-the-positions-handed-out"):
            ob.id = "twod." + ob.id
            ob.witness = {"twod": True}
            rep.add(ob)
            n += 1
    if n == 0:
        raise Unsupported("the 2D branch of get_conventional_system produced no letters-vs-positions obligation")


def _maps(rep):
    """the letters and orbit labels of the conventional atoms are those of their crystallographic orbit - not the equivalences of the cell in
    which the crystal was given (which split orbits in supercells and make the parameter search fail); shared with C12/C07"""
    from props import C12
    C12._maps(rep)

def replay_key(ob):
    w = ob.witness or {}
    return "%s-%s" % (w.get("sg"), w.get("letter"))


def replay_twod():
    """native: Wyckoff sets of 2D materials; the representative with the reported parameters must be the position of an atom of the set
    in the conventional system the analyzer hands out"""
    from ase.build import graphene, mx2
    from matid.symmetry.symmetryanalyzer import SymmetryAnalyzer
    fails = []
    for name, lay in (("MoS2 monolayer (ase.build.mx2, a=3.18, thickness=3.19, vacuum=8)", mx2("MoS2", a=3.18, thickness=3.19, vacuum=8)), ("graphene (ase.build.graphene, vacuum=8)", graphene(vacuum=8))):
        lay.set_pbc([True, True, False])
        a = SymmetryAnalyzer(lay)
        conv = a.get_conventional_system()
        sp = conv.get_scaled_positions(wrap=False)
        for ws in a.get_wyckoff_sets_conventional(return_parameters=True):
            vals = {"x": ws.x or 0.0, "y": ws.y or 0.0, "z": ws.z or 0.0}
            p = []
            for comp in ws.representative:
                coef, const = tabvc.parse_expr(comp)
                p.append(float(const) + sum(float(coef[v]) * vals[v] for v in "xyz"))
            d = sp[ws.indices] - np.array(p)
            d[:, :2] = (d[:, :2] + 0.5) % 1.0 - 0.5  # lattice translations exist along the two periodic directions only
            dist = np.linalg.norm(d @ np.array(conv.get_cell()), axis=1).min()
            if dist > 0.1:
                fails.append({"structure": name, "set": "%s %s" % (ws.wyckoff_letter, ws.element), "representative": list(ws.representative), "parameters": (ws.x, ws.y, ws.z),
                              "observed": "nearest atom of the set in the conventional system is %.3f A away (scaled positions of the set: %s)" % (dist, np.round(sp[ws.indices], 4).tolist())})
                break
    return {"reproduced": bool(fails), "failing_inputs": fails[:3]}


def replay(ob):
    from props import table_replay as tr
    w = ob.witness or {}
    if ob.id.startswith("twod."):
        return replay_twod()
    if "sg" in w and "letter" in w:
        r = tr.replay_wyckoff_params(w["sg"], w["letter"])
        if r.get("reproduced"):
            return r
    # generic: a few groups with special positions, and positions whose representative carries a constant offset
    for sg, L in ((98, "e"), (178, "b"), (75, "c"), (221, "e"), (194, "f")) + tuple(tr.offset_positions()):
        r = tr.replay_wyckoff_params(sg, L)
        if r.get("reproduced"):
            return r
    r = tr.replay_wyckoff_supercells()
    if r.get("reproduced"):
        return r
    r = tr.replay_near_one()
    if r.get("reproduced"):
        return r
    r = tr.replay_flag(([w["sg"]] if "sg" in w else []) + [194, 139, 166, 47, 225, 62, 221])
    if r.get("reproduced"):
        return r
    return {"reproduced": False}


def replay_file(rp):
    return replay(Ob(id=rp["obligation"], witness=rp.get("witness")))
