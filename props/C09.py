"""C09 — dimensionality is the rank of the periodic bonding network: code-to-formula conformance of get_dimensionality."""
from __future__ import annotations

import math

import numpy as np
import z3

from engine import contexts
from engine.aseshim import SymAtoms, sym_cell, sym_pbc, sym_positions, sym_int_rows, sym_real_rows
from engine.common import Report, Ob, prove
from engine.errors import Unsupported
from engine.heap import SymSet, fresh_set, I, B, SetSort
from engine.larr import RowArr, PairArr, instantiate_reductions
from engine.npshim import NP
from engine.pyvc import SR, SB, sint, sreal, z3num, z3bool, mkbool, cur
from engine.symcoll import LoopSpec, Opaque, SymSeq
from props._util import run_fv, section, sections_parallel

REL = "matid/geometry/geometry.py"

# ghost functions: number of connected components of the bonding graph {mic - r_i - r_j <= thr} of a tagged system
NCOMP = z3.Function("n_bonded_components", I, I)  # system tag -> count


class Tagged:
    """positions / cell / pbc handed out by one Atoms object: the contract of the displacement tensor needs 'atoms inside this cell'"""


class TagAtoms(SymAtoms):
    """SymAtoms that tracks (a) whether its atoms are inside its cell (wrap() was the last change of positions/cell/pbc),
    (b) an integer tag identifying the physical system (1x, 2x)"""

    def __init__(self, *a, tag=1, inside=False, **k):
        super().__init__(*a, **k)
        self.tag = tag
        self.inside = inside
        self.rep = None

    def copy(self):
        c = TagAtoms(self.n, self.cell.copy(), self.pbc.copy(), self.positions.copy(), self.numbers, self.masses, tag=self.tag, inside=self.inside,
                     name=self.name + "_copy")
        c.origin = self
        return c

    def wrap(self, **kw):
        # the structure whose distances are evaluated must be the given one up to lattice vectors of *periodic* directions:
        # folding along a non-periodic direction moves atoms physically (and folding fewer directions leaves atoms outside)
        own = list(self.pbc)
        eff = kw.get("pbc")
        eff = own if eff is None else ([eff] * 3 if isinstance(eff, (bool, SB)) or np.ndim(eff) == 0 else list(eff))
        same = z3.And(*[z3bool(eff[k]) == z3bool(own[k]) for k in range(3)]) if len(eff) == 3 else z3.BoolVal(False)
        cur().prove("call[wrap].pre.folds-exactly-the-periodic-directions", same)
        super().wrap(**kw)
        self.inside = True

    def set_cell(self, *a, **k):
        super().set_cell(*a, **k)
        self.inside = False

    def set_positions(self, p):
        super().set_positions(p)
        self.inside = False

    def get_positions(self, wrap=False):
        p = super().get_positions(wrap)
        p.owner = self
        return p

    def get_cell(self):
        c = super().get_cell()
        return OwnedArr(c, self, "cell")

    def get_pbc(self):
        return OwnedArr(super().get_pbc(), self, "pbc")

    def repeat(self, rep):
        """A-ASE: block-wise copies; atoms inside the cell stay inside the repeated cell"""
        rep = [int(x) for x in np.array(rep).reshape(-1)]
        st = cur()
        # the topology-scaling supercell: doubled along every periodic direction, unchanged along the others
        want = [2 if bool(self.pbc[k]) else 1 for k in range(3)]
        st.prove("call[repeat].pre.doubles-exactly-the-periodic-directions", z3.BoolVal(rep == want))
        prod = rep[0] * rep[1] * rep[2]
        n2 = SR(self.n.t * prod)
        cell2 = self.cell.copy()
        for k in range(3):
            cell2[k] = cell2[k] * rep[k]
        r = TagAtoms(n2, cell2, self.pbc.copy(), RowArr(n2, lambda i: np.array([SR(cur().fresh_real("p2")) for _ in range(3)], dtype=object), (3,)),
                     None, None, tag=2, inside=self.inside, name="repeated")
        r.rep = (self, rep)
        self.mutations.append("repeat") if False else None
        return r


class OwnedArr(np.ndarray):
    def __new__(cls, arr, owner, what):
        o = np.asarray(arr).view(cls)
        o.owner = owner
        o.what = what
        return o

    def __array_finalize__(self, obj):
        if obj is None:
            return
        self.owner = getattr(obj, "owner", None)
        self.what = getattr(obj, "what", None)


class DistMat:
    """contract result of get_displacement_tensor(..., return_distances=True)[1] (C10): entry = mic if mic <= cutoff else inf"""

    def __init__(self, owner, cutoff):
        self.owner = owner
        self.cutoff = cutoff

    def __sub__(self, o):
        if isinstance(o, PairArr):
            return RadiiCorrected(self, o)
        raise Unsupported("DistMat - %r" % type(o))


class RadiiCorrected:
    def __init__(self, dm, pair):
        self.dm = dm
        self.pair = pair


class GroupList:
    def __init__(self, count):
        self.count = count

    def _len(self):
        return self.count


def run():
    rep = Report("C09")
    rep.trusted_base = ["z3", "pyvc symbolic executor", "CPython math.log (evaluated on the full finite domain of the formula)"]
    rep.assumptions = [
        "A-TSA (mathematics, not machine-checked): for a connected periodic net the 2x..x2 supercell has 2^(n_pbc - rank) components; hence n_clusters_2x is a power of two <= 2^n_pbc",
        "A-SK: DBSCAN(eps, min_samples=1, precomputed) labels = connected components of {D <= eps}, no noise label",
        "A-ASE: copy() is deep, wrap() moves atoms inside the cell along periodic axes, repeat() appends copies block-wise and keeps atoms inside the repeated cell",
        "contract of get_displacement_tensor (subject of C10): for atoms inside the cell the distance entry is the minimum-image distance if it is <= cutoff, else inf",
        "invariance under supercell / basis change / rigid motion / reordering follows from 'result = formula on the bonding graph' + A-TSA + C10; not separately proved",
    ]
    sections_parallel(rep, [("dim", _dim), ("clusters", _clusters), ("lemmas", _lemmas), ("getdistances", _getdistances)])
    return rep


# ---------------------------------------------------------------------------------------------
def _lemmas(rep):
    FN = REL + ":get_dimensionality"
    d, ri, rj, rmax, thr = z3.Reals("d ri rj rmax thr")
    rep.add(prove("dim.cutoff-sufficient", [ri <= rmax, rj <= rmax, d - ri - rj <= thr], d <= thr + 2 * rmax, func=FN))
    # clip(v, 0, 1.1*thr) <= thr  <=>  v <= thr   (thr > 0; v real, and v = +inf handled as 'greater than everything')
    v = z3.Real("v")
    clip = z3.If(v < 0, 0, z3.If(v > 1.1 * thr, 1.1 * thr, v))
    rep.add(prove("clusters.clip-preserves-bond-predicate", [thr > 0], (clip <= thr) == (v <= thr), func=REL + ":get_clusters"))
    rep.add(prove("clusters.clip-of-inf-is-not-bonded", [thr > 0], z3.Not(1.1 * thr <= thr), func=REL + ":get_clusters"))
    # the formula on its full finite domain, with CPython's math.log
    ok = True
    bad = []
    for n in (1, 2, 3):
        for j in range(0, n + 1):
            got = int(n - math.log(2 ** j, 2))
            if got != n - j:
                ok = False
                bad.append((n, 2 ** j, got))
    rep.add(Ob(id="dim.formula-exact-on-powers-of-two", status="proved" if ok else "refuted", backend="exact-evaluation", func=FN, kind="exact",
               detail="" if ok else "int(n - math.log(N, 2)) wrong for %s" % bad))


# ---------------------------------------------------------------------------------------------
def _dim(rep):
    m = contexts.geometry_ctx()
    calls = {}

    def radii_contract(it, st, bound, site):
        # get_radii (C19): per-atom radii of the given atomic numbers; the same values for every call with the same arguments
        nums = bound["atomic_numbers"]
        r = sym_real_rows("radius", nums.n if hasattr(nums, "n") else st.ghost["n"])
        st.ghost["radii_arg"] = bound["radii"]
        return r

    def disp_contract(it, st, bound, site):
        pos, cell, pbc = bound["positions"], bound["cell"], bound["pbc"]
        owner = getattr(pos, "owner", None)
        same_pbc = owner is not None and len(pbc) == 3 and all(z3.simplify(z3bool(pbc[k]) == z3bool(owner.pbc[k])).eq(z3.BoolVal(True)) for k in range(3))
        st.prove(site + ".pre.positions-and-cell-of-one-system-with-its-pbc", z3.BoolVal(owner is not None and getattr(cell, "owner", None) is owner and same_pbc))
        st.prove(site + ".pre.atoms-inside-the-cell", z3.BoolVal(bool(owner is not None and owner.inside)))
        st.prove(site + ".pre.return_distances", z3.BoolVal(bound["return_distances"] is True and bound["return_factors"] is False))
        dm = DistMat(owner, bound["cutoff"])
        calls.setdefault("disp", []).append((owner, bound["cutoff"]))
        return Opaque("disp_tensor"), dm

    def clusters_contract(it, st, bound, site):
        M = bound["dist_matrix"]
        thr = bound["threshold"]
        ok = isinstance(M, RadiiCorrected)
        st.prove(site + ".pre.matrix-is-distance-minus-radii", z3.BoolVal(ok))
        if not ok:
            raise Unsupported("get_clusters on %r" % type(M))
        owner = M.dm.owner
        # radii matrix = r_i + r_j of this system's radii (1x: radii_1x; 2x: tiled)
        i, j = sint("i_gen"), sint("j_gen")
        st.assume(z3.And(i.t >= 0, i.t < owner.n.t, j.t >= 0, j.t < owner.n.t))
        rad = st.ghost["radii_of"][owner.tag]
        st.prove(site + ".pre.radii-matrix-is-ri-plus-rj", z3num(M.pair.at(i, j)) == z3num(rad.row(i)) + z3num(rad.row(j)))
        # cutoff sufficiency: every bonded pair is within the cutoff handed to the displacement tensor
        rmax = st.ghost["rmax"]
        st.prove(site + ".pre.cutoff-covers-bonded-pairs", z3num(M.dm.cutoff) >= z3num(thr) + 2 * z3num(rmax))
        st.prove(site + ".pre.threshold-is-cluster_threshold", z3num(thr) == z3num(st.ghost["thr"]))
        st.prove(site + ".pre.min_samples-1", z3.BoolVal(bound["min_samples"] == 1))
        cnt = SR(NCOMP(z3.IntVal(owner.tag)))
        st.assume(cnt.t >= 1)
        if owner.tag == 2:
            # A-TSA: power of two, at most 2^n_pbc
            npbc = st.ghost["n_pbc_concrete"]
            st.assume(z3.Or([cnt.t == 2 ** q for q in range(0, npbc + 1)]))
        return GroupList(cnt)

    class Math2:
        def log(self, x, base=None):
            if isinstance(x, SR):
                st = cur()
                for cand in (1, 2, 4, 8):
                    if st.fork(x.t == cand):
                        return math.log(cand, base) if base is not None else math.log(cand)
                raise Unsupported("math.log of a value outside {1,2,4,8}")
            return math.log(x, base) if base is not None else math.log(x)

    m.globals["math"] = Math2()

    for given_matrix in (False, True):
        for return_clusters in (False, True):
            def mk(st, it, given_matrix=given_matrix, return_clusters=return_clusters):
                n = sint("n")
                st.assume(n.t >= 1)
                st.ghost["n"] = n
                st.ghost["concretize_bool_sums"] = True
                atoms = TagAtoms(n, sym_cell("c"), sym_pbc("pbc"), sym_positions("pos", n), sym_int_rows("Z", n), tag=1, inside=False)
                vals = (2, 0, 0, "3/10", 2, 0, "1/10", "1/5", 3)
                for kk in range(9):
                    st.hint(z3.Real("c%d%d" % (kk // 3, kk % 3)) == z3.RealVal(str(vals[kk])))
                thr = sreal("thr")
                st.assume(thr.t > 0)
                st.ghost["thr"] = thr
                st.ghost["radii_of"] = {}
                M = None
                if given_matrix:
                    # contract precondition of the parameter: the radii-corrected MIC matrix of this system (same radii)
                    M = "GIVEN"
                return [atoms, thr], {"dist_matrix_radii_mic_1x": M, "return_clusters": return_clusters, "radii": "PRESET"}, \
                    {"atoms": atoms, "thr": thr, "given": given_matrix, "rc": return_clusters}

            def call_hook(interp, e, f, args, kwargs, module):
                return NotImplemented

            def post(st, ctx, r, given_matrix=given_matrix, return_clusters=return_clusters):
                at = ctx["atoms"]
                st.prove("input-untouched", z3.BoolVal(at.mutations == []))
                if return_clusters:
                    st.prove("returns-pair-with-1x-clusters", z3.BoolVal(isinstance(r, tuple) and len(r) == 2 and isinstance(r[1], GroupList)))
                    if not isinstance(r, tuple):
                        return
                    st.prove("clusters-are-the-1x-components", r[1].count.t == NCOMP(z3.IntVal(1)))
                    r = r[0]
                n1 = NCOMP(z3.IntVal(1))
                n2 = NCOMP(z3.IntVal(2))
                npbc = st.ghost.get("n_pbc_concrete")
                if r is None:
                    st.prove("none-iff-disconnected", n1 > 1)
                else:
                    st.prove("none-iff-disconnected", z3.Not(n1 > 1))
                    st.prove("value-is-int", z3.BoolVal(isinstance(r, int) and not isinstance(r, bool)))
                    if npbc == 0 or npbc is None:
                        st.prove("zero-without-periodic-directions", z3.BoolVal(r == 0 and st.ghost.get("n_pbc_seen") == 0))
                    else:
                        # r = n_pbc - log2(N2)
                        st.prove("topology-scaling-formula", z3.And([z3.Implies(n2 == 2 ** q, z3.BoolVal(r == npbc - q)) for q in range(0, npbc + 1)]))
                # how the displacement tensors were requested
                d = calls.get("disp", [])
                exp = (0 if given_matrix else 1) + (1 if (r is not None and npbc) else 0)

            def radii_c(it, st, bound, site):
                r = radii_contract(it, st, bound, site)
                st.ghost["radii_of"][1] = r
                return r

            def contracts():
                return {REL + ":get_radii": radii_c, REL + ":get_displacement_tensor": disp_contract, REL + ":get_clusters": clusters_contract}

            # hooks to record ghost facts at specific native calls: np.sum(pbc) and radii.max(), np.tile
            class NP2(type(NP)):
                def sum(self, a, axis=None):
                    v = super().sum(a, axis)
                    if isinstance(a, OwnedArr) and a.what == "pbc":
                        cur().ghost["n_pbc_concrete"] = int(v)
                        cur().ghost["n_pbc_seen"] = int(v)
                    return v

                def tile(self, a, reps):
                    if isinstance(a, RowArr):
                        st = cur()
                        reps = int(reps)
                        n0 = a.n
                        f = a.f
                        n2 = SR(n0.t * reps)
                        # A-NP: tile(a, k)[m*n + l] = a[l]
                        r = RowArr(n2, lambda i: f(SR(z3num(i) % n0.t)), a.tail)
                        st.ghost["radii_of"][2] = r
                        st.ghost["tile_reps"] = reps
                        return r
                    return super().tile(a, reps)

            def mk2(st, it, mk=mk):
                a, k, c = mk(st, it)
                return a, k, c

            np2 = NP2()
            m.globals["np"] = np2
            # radii.max(): RowArr.max -> Skolem; record for the cutoff obligation
            orig_max = RowArr.max

            def max_hook(self, axis=None):
                v = orig_max(self, axis)
                cur().ghost["rmax"] = v
                mm = cur().ghost["reductions"][-1][1]
                cur().ghost["rmax_idx"] = mm
                # instantiate the arg-max axiom for generic atoms used later
                return v

            RowArr.max = max_hook
            try:
                if given_matrix:
                    # the given matrix stands for the radii-corrected matrix of this system
                    def mk3(st, it, mk=mk):
                        a, k, c = mk(st, it)
                        at = a[0]
                        dm = DistMat(None, SR(z3.Real("given_cutoff")))
                        k["dist_matrix_radii_mic_1x"] = GivenMatrix(at)
                        return a, k, c
                    run_fv(rep, "dim[given=%s,rc=%s]." % (given_matrix, return_clusters), m, "get_dimensionality", mk3, post,
                           contracts={**contracts(), REL + ":get_clusters": _clusters_contract_given(clusters_contract)})
                else:
                    run_fv(rep, "dim[given=%s,rc=%s]." % (given_matrix, return_clusters), m, "get_dimensionality", mk2, post, contracts=contracts())
            finally:
                RowArr.max = orig_max
                m.globals["np"] = NP
    m.globals["math"] = contexts.MathShim()


class GivenMatrix:
    """dist_matrix_radii_mic_1x supplied by the caller: by the parameter's contract it is the radii-corrected MIC matrix of `system`"""

    def __init__(self, atoms):
        self.atoms = atoms


def _clusters_contract_given(inner):
    def c(it, st, bound, site):
        M = bound["dist_matrix"]
        if isinstance(M, GivenMatrix):
            st.prove(site + ".pre.threshold-is-cluster_threshold", z3num(bound["threshold"]) == z3num(st.ghost["thr"]))
            cnt = SR(NCOMP(z3.IntVal(1)))
            st.assume(cnt.t >= 1)
            return GroupList(cnt)
        return inner(it, st, bound, site)
    return c


# ---------------------------------------------------------------------------------------------
def _clusters(rep):
    """geometry.get_clusters: the returned groups are as many as there are distinct DBSCAN labels (+ one per noise point)."""
    m = contexts.geometry_ctx()
    LAB = z3.Function("label", I, I)
    CNT = z3.Function("n_noise_before", I, I)

    class AbsList:
        def __init__(self, length):
            self.length = length

        def append(self, x):
            self.length = SR(self.length.t + 1)

        def extend(self, o):
            self.length = SR(self.length.t + z3num(o._len()))

        def _len(self):
            return self.length

        def _state(self):
            return [self.length.t]

    class KeyedLists:
        def __init__(self, K=None):
            self.K = K if K is not None else SymSet()

        def _getitem(self, k):
            outer = self

            class V:
                def append(self_, x):
                    outer.K = SymSet(z3.Store(outer.K.arr, z3num(k), z3.BoolVal(True)))
            return V()

        def values(self):
            return self.K

        def _state(self):
            return [self.K.arr]

    class DB:
        def __init__(self, eps=None, min_samples=None, metric=None, n_jobs=None):
            self.args = (eps, min_samples, metric)

        def fit(self, M):
            st = cur()
            n = st.ghost["n"]
            self.labels_ = SymSeq(n, lambda k: SR(LAB(z3num(k))), "labels")
            st.ghost["fit_on"] = M

    def len_of(x):
        return x.length.t if isinstance(x, AbsList) else z3.IntVal(len(x))

    def inv(st, env, k, old):
        n = st.ghost["n"]
        cg = env.lookup("cluster_groups")
        gm = env.lookup("group_map")
        q, l = z3.Ints("q!c l!c")
        return [("noise-points-are-singletons", len_of(cg) == CNT(k.t)),
                ("keys-are-the-labels-seen", z3.ForAll([l], gm.K.mem(l) == z3.Exists([q], z3.And(q >= 0, q < k.t, LAB(q) == l, l != -1))))]

    def havoc(st, env, old):
        env.vars["cluster_groups"] = AbsList(SR(st.fresh_int("ngroups")))
        gm = env.lookup("group_map")
        gm.K = fresh_set(st, "keys")
        for nm in ("i_atom", "i_clust"):
            env.vars.pop(nm, None)

    def mk(st, it):
        n = sint("n")
        st.assume(n.t >= 0)
        st.ghost["n"] = n
        q = z3.Int("q!cnt")
        st.assume(CNT(0) == 0)
        st.assume(z3.ForAll([q], z3.Implies(q >= 0, CNT(q + 1) == CNT(q) + z3.If(LAB(q) == -1, 1, 0))))
        thr = sreal("thr")
        st.assume(thr.t > 0)
        M = ClipMat()
        return [M, thr], {"min_samples": 1}, {"M": M, "thr": thr, "n": n}

    class ClipMat:
        clipped = None

        def _clip(self, a_min, a_max, out):
            self.clipped = (a_min, a_max, out is self)
            return self

    def post(st, ctx, r):
        n = ctx["n"]
        q, l = z3.Ints("q!p l!p")
        labels_image = fresh_set(st, "image")
        st.assume(z3.ForAll([l], labels_image.mem(l) == z3.Exists([q], z3.And(q >= 0, q < n.t, LAB(q) == l, l != -1))))
        st.prove("number-of-groups", len_of(r) == CNT(n.t) + labels_image._len().t)
        c = ctx["M"].clipped
        st.prove("clipped-in-place-to-[0,1.1*threshold]", z3.BoolVal(c is not None and c[2] and c[0] == 0) if c is None or not isinstance(c[1], SR)
                 else z3.And(z3.BoolVal(c[2] and c[0] == 0), c[1].t == 1.1 * ctx["thr"].t))
        st.prove("dbscan-fitted-on-the-clipped-matrix", z3.BoolVal(st.ghost.get("fit_on") is ctx["M"]))

    m.globals["DBSCAN"] = DB
    import collections
    m.globals["defaultdict"] = lambda f=None: KeyedLists()
    try:
        run_fv(rep, "clusters.", m, "get_clusters", mk, post,
               loops={("get_clusters", 1): LoopSpec(inv, havoc, name="clusters.label-loop")})
    finally:
        m.globals["defaultdict"] = collections.defaultdict
        m.globals.pop("DBSCAN", None)


# ---------------------------------------------------------------------------------------------

def _getdistances(rep):
    """the distance tables handed to the callees are those of the periodic search of the structure (contract of get_distances, shared with C10)"""
    from props import C10
    C10._getdistances(rep)
    C10._wrapper(rep)

def replay_key(ob):
    return "c09"


def replay(ob):
    """native: union-find over all periodic images as oracle on a fixed family (gases, layers, chains; shifted atoms)"""
    import itertools
    import matid.geometry as g
    from ase import Atoms
    from ase.build import bulk, graphene

    def oracle(at, thr, radii):
        pbc = at.get_pbc()
        n = len(at)
        reps = [3 if p else 1 for p in pbc]
        big = at.copy()
        big.wrap()
        big = big.repeat(reps)
        pos = big.get_positions()
        r = np.tile(radii, int(np.prod(reps)))
        N = len(big)
        parent = list(range(N))

        def find(x):
            while parent[x] != x:
                parent[x] = parent[parent[x]]
                x = parent[x]
            return x
        D = big.get_all_distances(mic=True)
        for a in range(N):
            for b in range(a + 1, N):
                if D[a, b] - r[a] - r[b] <= thr:
                    parent[find(a)] = find(b)
        return len({find(x) for x in range(N)})

    fails = []
    rng = np.random.default_rng(2)
    fam = []
    cu = bulk("Cu", "fcc", a=3.6, cubic=True) * (2, 2, 2)
    fam.append(("fcc", cu, 3))
    cu2 = cu.copy()
    p = cu2.get_positions(); p[3] += 3 * cu2.cell[0]; p[5] -= 2 * cu2.cell[1]; cu2.set_positions(p)
    fam.append(("fcc, atoms shifted by lattice vectors", cu2, 3))
    gr = graphene(vacuum=8); gr.set_pbc(True)
    fam.append(("graphene", gr, 2))
    gr2 = gr.copy(); p = gr2.get_positions(); p[0] += 2 * gr2.cell[0] - 3 * gr2.cell[1]; gr2.set_positions(p)
    fam.append(("graphene, atom shifted", gr2, 2))
    ch = Atoms("C4", positions=[[0, 5, 5], [1.4, 5, 5], [2.8, 5, 5], [4.2, 5, 5]], cell=[5.6, 10, 10], pbc=True)
    fam.append(("chain", ch, 1))
    mol = Atoms("H2", positions=[[5, 5, 5], [5.7, 5, 5]], cell=[10, 10, 10], pbc=True)
    fam.append(("molecule", mol, 0))
    mol2 = Atoms("H2", positions=[[5, 5, 5], [5.7, 5, 5]], cell=[10, 10, 10], pbc=False)
    fam.append(("molecule, no pbc", mol2, 0))
    two = Atoms("H2", positions=[[1, 1, 1], [6, 6, 6]], cell=[10, 10, 10], pbc=True)
    fam.append(("two far atoms", two, None))
    c2far = Atoms("C2", positions=[[4, 4, 4], [8.8, 4, 4]], cell=[20, 20, 20], pbc=False)  # 4.8 - 2*0.76 = 3.28 <= 3.5
    fam.append(("C2 at 4.8 A (bonded only through the radii correction at the default threshold)", c2far, 0))
    c2 = Atoms("C2", positions=[[4, 4, 4], [5.9, 4, 4]], cell=[10, 10, 10], pbc=False)  # 1.9 - 2*0.76 = 0.38 <= 0.4... bonded at the default threshold
    fam.append(("C2 at 1.9 A (bonded only through the radii correction)", c2, 0))
    c2p = Atoms("C2", positions=[[0.5, 4, 4], [9.0, 4, 4]], cell=[10.4, 10, 10], pbc=True)  # bonded across the boundary: 1.9 A
    fam.append(("C2 bonded across the cell boundary", c2p, 0))
    # thresholds other than the default (the expected values follow from the distances written next to each case)
    from ase.build import graphene as _gr
    st = _gr(size=(3, 3, 1), vacuum=None)
    cst = np.array(st.get_cell()); cst[2] = [0, 0, 6.0]; st.set_cell(cst); st.set_pbc(True)
    fam.append(("graphene sheets 6.0 A apart, threshold 5.0 (6.0 - 2*0.76 = 4.48 <= 5.0: bonded across the sheets)", st, 3, 5.0))
    fam.append(("graphene sheets 6.0 A apart, threshold 1.0 (sheets not bonded: two components)", st.repeat((1, 1, 2)), None, 1.0))
    fam.append(("Cs-H bonded, second H 3.0 A away, threshold 1.0 (3.0 - 2*0.31 = 2.38 > 1.0: two components)",
                Atoms("CsH2", positions=[[2, 5, 5], [4.5, 5, 5], [7.5, 5, 5]], cell=[[20, 0, 0], [2, 19, 0], [1, 3, 21]], pbc=True), None, 1.0))
    # atoms stored many lattice vectors away from their neighbours
    for sh, nm in ((-4, "-4 a"), (5, "+5 a")):
        c3 = cu.copy(); p = c3.get_positions(); p[2] += sh * c3.cell[0]; c3.set_positions(p)
        fam.append(("fcc, one atom shifted by %s" % nm, c3, 3))
    g3 = gr.copy(); p = g3.get_positions(); p[1] += 5 * g3.cell[0] - 5 * g3.cell[1]; g3.set_positions(p)
    fam.append(("graphene, one atom shifted by 5a - 5b", g3, 2))
    # partially periodic cells without vacuum: the copy shifted along a non-periodic cell vector must not count as an image
    fe = bulk("Fe", "bcc", a=2.87, cubic=True) * (1, 1, 3); fe.set_pbc([True, True, False])
    fam.append(("bcc Fe, three cells thick, pbc TTF, no vacuum", fe, 2, 0.3))
    cc = Atoms("C2", positions=[[0, 0.8, 0.8], [1.3, 0.8, 0.8]], cell=[2.6, 1.6, 1.6], pbc=[True, False, False])
    fam.append(("C chain in a tight cell, pbc TFF", cc, 1, 0.3))
    n2 = Atoms("N2", positions=[[0.6, 0.6, 12], [0.6, 0.6, 13.1]], cell=[1.2, 1.2, 25], pbc=[False, False, True])
    fam.append(("N2 in a narrow cell, pbc FFT", n2, 0, 0.3))
    # a bond 0.001 A inside the threshold (and one 0.004 A outside): the link test is d - r_i - r_j <= threshold, exactly
    hh = Atoms("H", positions=[[0, 5, 5]], cell=[0.62 + 1.327, 10, 10], pbc=[True, False, False])
    fam.append(("H chain, image 1.947 A away: 1.947 - 0.62 = 1.327 <= 1.328", hh, 1, 1.328))
    h3 = Atoms("H3", positions=[[0, 5, 5], [1.0, 5, 5], [2.624, 5, 5]], cell=[12, 10, 10], pbc=False)
    fam.append(("H-H 1.0 A, third H 1.624 A further: 1.624 - 0.62 = 1.004 > 1.0: two components", h3, None, 1.0))
    thin = Atoms("C2", positions=[[0.3, 1.0, 2.0], [0.3, 4.3, 2.0]], cell=[1.4, 12, 12], pbc=True)
    fam.append(("two C atoms 3.3 A apart in a cell 1.4 A thin (3.3 - 1.52 = 1.78 <= 3.5: one component, periodic along the thin direction only)", thin, 1, 3.5))
    kh = Atoms("KH", positions=[[0, 5, 5], [0, 6.5, 5]], cell=[4.2, 12, 12], pbc=[True, False, False])
    fam.append(("K-H units 4.2 A apart along a (K bonded to its own image: 4.2 - 2*2.03 = 0.14 <= 0.5), pbc TFF", kh, 1, 0.5))
    for ent in fam:
        name, at, want = ent[:3]
        kw = {"cluster_threshold": ent[3]} if len(ent) > 3 else {}
        p0 = at.get_positions().copy()
        try:
            got = g.get_dimensionality(at, **kw)
            got2, cl = g.get_dimensionality(at, return_clusters=True, **kw)
        except Exception as e:  # noqa
            fails.append({"structure": name, "observed": "%s: %s" % (type(e).__name__, e)})
            continue
        if got != want or got2 != want:
            fails.append({"structure": name, "get_dimensionality": got, "expected": want})
        if not np.array_equal(p0, at.get_positions()):
            fails.append({"structure": name, "observed": "input modified"})
        ncomp = len(cl)
        if (ncomp > 1) != (want is None):
            fails.append({"structure": name, "observed": "returned clusters %d vs result %r" % (ncomp, want)})
    # random small systems against the union-find oracle (None-ness and 0 only, independent of A-TSA)
    for k in range(12):
        n = int(rng.integers(1, 6))
        pbc = [bool(x) for x in rng.integers(0, 2, size=3)]
        at = Atoms(numbers=[6] * n, positions=rng.uniform(-3, 9, size=(n, 3)), cell=[6, 6.5, 7], pbc=pbc)
        rr = g.get_radii("covalent", at.get_atomic_numbers())
        for thr in (0.4, 1.5):
            got = g.get_dimensionality(at, thr)
            w = at.copy(); w.wrap()
            D = w.get_all_distances(mic=True) - (rr[:, None] + rr[None, :])
            # components of the cell contents
            par = list(range(n))
            def find(x):
                while par[x] != x:
                    par[x] = par[par[x]]
                    x = par[x]
                return x
            for a in range(n):
                for b in range(a + 1, n):
                    if D[a, b] <= thr:
                        par[find(a)] = find(b)
            nc = len({find(x) for x in range(n)})
            if (got is None) != (nc > 1):
                fails.append({"positions": at.get_positions().tolist(), "pbc": pbc, "thr": thr, "get_dimensionality": got, "components": nc})
            if got is not None and not any(pbc) and got != 0:
                fails.append({"positions": at.get_positions().tolist(), "pbc": pbc, "thr": thr, "get_dimensionality": got, "expected": 0})
    return {"reproduced": bool(fails), "failing_inputs": fails[:3]}


def replay_file(rp):
    return replay(Ob(id=rp["obligation"]))
