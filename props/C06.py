"""C06 — symmetry results are a normal form (MatID's own part: ranking is canonical, id depends on the multiset only)."""
from __future__ import annotations

import collections
import itertools

import numpy as np
import z3

from engine import contexts, tabvc
from engine.common import Report, Ob, func_source_info
from engine.pyvc import Explorer, Interp
from engine.symcoll import Opaque
from props import _sym
from props._util import section, sections_parallel

REL = _sym.REL
FN = REL + ":SymmetryAnalyzer._find_wyckoff_ground_state"


def _occ_family(sg):
    L = _sym.letters_of(sg)
    occ = [[(l, 14)] for l in L]
    for a, b in list(itertools.combinations(L, 2))[:4]:
        occ += [[(a, 14), (b, 8)], [(a, 14), (b, 14)], [(a, 14), (b, 8), (a, 8)]]
        # one species on several orbits of the same letter: the ranking has to count the atoms per (letter, species), not just see them
        occ += [[(a, 14), (a, 14), (b, 14)], [(a, 14), (b, 14), (b, 14)]]
    return occ


def _result_multiset(sg, occ):
    res, oc, ex = _sym.run_ground_state(sg, occ)
    if len(oc) != 1 or oc[0][0] != "return":
        return None, "raises %s" % ([(o[0], repr(o[1])[:100]) for o in oc],)
    new_sys, new_letters = res["result"]
    return collections.Counter(zip([str(x) for x in new_letters], [z for l, z in occ])), None


def _group(sg):
    INFO, WY, NZ = tabvc.load_tables()
    out = []
    entries = NZ.get(sg, [])
    bad_canon, bad_err, bad_order = None, None, None
    n = 0
    for occ in _occ_family(sg):
        base, err = _result_multiset(sg, occ)
        n += 1
        if base is None:
            bad_err = bad_err or "occupancy %s: %s" % (occ, err)
            continue
        # the same crystal presented with the origin moved / equivalent sites permuted: letters relabelled by a tabulated normalizer
        for k, nz in enumerate(entries):
            perm = nz["permutations"]
            occ2 = [(perm[l], z) for l, z in occ]
            r2, err = _result_multiset(sg, occ2)
            n += 1
            if r2 is None:
                bad_err = bad_err or "occupancy %s: %s" % (occ2, err)
            elif r2 != base:
                bad_canon = bad_canon or "occupancy %s gives %s, relabelled by normalizer #%d (%s) gives %s" % (occ, dict(base), k, occ2, dict(r2))
        # atoms listed in another order
        if len(occ) > 1:
            r3, err = _result_multiset(sg, list(reversed(occ)))
            n += 1
            if r3 is not None and r3 != base:
                bad_order = bad_order or "occupancy %s vs reversed: %s / %s" % (occ, dict(base), dict(r3))
    for name, bad in (("rank.canonical", bad_canon), ("rank.no-error", bad_err), ("rank.atom-order", bad_order)):
        out.append(Ob(id="%s[%d]" % (name, sg), status="proved" if bad is None else "refuted", backend="pyvc", func=FN, kind="vc",
                      detail=bad or "%d executions of the real selection code" % n, witness={"sg": sg}))
    return out


def run():
    rep = Report("C06")
    rep.trusted_base = ["pyvc executor", "z3", "spglib Hall database (table lemmas)"]
    rep.assumptions = [
        "A-SPG: space group number, Hall number, species per orbit and letters up to a tabulated relabelling are invariant under rigid motion / basis change / supercell / atom order of the input",
        "A-HASH: the 28-character prefix of the SHA-512 digest is injective on the id strings",
        "occupancy patterns are a bounded family (every single letter; letter pairs with one, two species and a shared letter); the last clause of the statement (identical conventional cell) is not covered",
    ]
    rep.functions.append(func_source_info(REL, "SymmetryAnalyzer._find_wyckoff_ground_state"))
    rep.obligations.extend(tabvc.run_family(_group, list(range(1, 231))))
    nz = tabvc.run_family(tabvc.normalizer_obligations, list(range(1, 231)))
    # closed, well formed, and every tabulated permutation is the action of its own normalizer on the Wyckoff positions (otherwise the
    # relabelled descriptions compared below would not be descriptions of the same crystal)
    rep.obligations.extend(o for o in nz if o.id.split("[")[0] in ("nz.closed", "nz.perm-wf", "nz.perm", "nz.normalises"))
    # the table represents the whole Euclidean normalizer (proper part for Sohncke groups): otherwise two descriptions of one crystal that
    # differ by an unlisted normalizer are ranked over different candidate sets
    rep.obligations.extend(tabvc.run_family(tabvc.normalizer_complete_obligation, list(range(1, 231))))
    # the atoms are moved by the same table entry whose letter permutation is applied (positions = A.x + t of that entry): without it the
    # conventional cell of a parameter-free structure would depend on the origin spglib happened to pick
    from props import C05 as _C05
    c5 = tabvc.run_family(_C05._group_obligations, list(range(1, 231)))
    rep.obligations.extend(o for o in c5 if o.id.split("[")[0] in ("apply.affine", "apply.letters", "apply.member"))
    sections_parallel(rep, [("id", _id), ("getters", _getters), ("maps", _maps)])
    rep.unproved_conjuncts.append("C06 last clause (identical conventional cell for parameter-free structures) depends on which of several equally ranked transformations is first: not covered")
    # spglib is asked about the analysed structure with the analyzer's tolerance; the simple getters are dataset look-ups (shared section)
    from props import _sym as _symmod
    from props._util import section as _section
    _section(rep, "dataset", lambda: _symmod.dataset_section(rep))
    _section(rep, "getters", lambda: _symmod.public_getters_section(rep))
    return rep


def _maps(rep):
    """multiplicities come from the orbit ids of the conventional atoms: they must be the crystallographic orbits (class labels that do not
    depend on the cell in which the crystal is presented), not the equivalences of the given cell (proved for all sizes, shared with C12)"""
    from props import C12
    C12._maps(rep)


class _WS:
    def __init__(self, element, letter, n):
        self.element, self.wyckoff_letter, self.indices = element, letter, list(range(n))


def _id(rep):
    """get_material_id: a function of (2D flag, space group number, multiset of (element, letter, size))"""
    m = contexts.symmetry_ctx()
    f = m.get("SymmetryAnalyzer.get_material_id")
    FNI = REL + ":SymmetryAnalyzer.get_material_id"

    def mid(sets, number, n_pbc):
        ex = Explorer(FNI)

        def thunk(st):
            it = Interp(st, contracts={REL + ":SymmetryAnalyzer.get_space_group_number": lambda *a: number,
                                       REL + ":SymmetryAnalyzer.get_wyckoff_sets_conventional": lambda *a: list(sets)})
            return it.run_func(f, [contexts.make_self(m, "SymmetryAnalyzer", {"n_pbc": n_pbc})], {})

        oc = ex.explore(thunk)
        assert len(oc) == 1 and oc[0][0] == "return", oc
        return oc[0][1]

    base = [_WS("Si", "a", 4), _WS("O", "c", 8), _WS("Si", "c", 8), _WS("Fe", "b", 4)]
    ref = mid(base, 62, 3)
    perm_ok = all(mid(p, 62, 3) == ref for p in itertools.permutations(base))
    rep.add(Ob(id="id.order-independent", status="proved" if perm_ok else "refuted", backend="exact-evaluation", kind="exact", func=FNI,
               detail="all 24 orders of 4 Wyckoff sets (bounded: 4 sets)"))
    diffs = [mid(base, 61, 3), mid(base[:3], 62, 3), mid(base[:3] + [_WS("Fe", "b", 8)], 62, 3), mid(base[:3] + [_WS("Fe", "a", 4)], 62, 3),
             mid(base[:3] + [_WS("Co", "b", 4)], 62, 3), mid(base, 62, 2)]
    rep.add(Ob(id="id.depends-on-number-letters-elements-sizes-and-2d-flag", status="proved" if len(set(diffs + [ref])) == len(diffs) + 1 else "refuted",
               backend="exact-evaluation", kind="exact", func=FNI))
    rep.add(Ob(id="id.is-28-websafe-characters", status="proved" if (isinstance(ref, str) and len(ref) == 28 and all(c.isalnum() or c in "-_" for c in ref)) else "refuted",
               backend="exact-evaluation", kind="exact", func=FNI))
    # syntactic: the strings are sorted before they are joined
    import ast
    src = ast.unparse(f.node)
    rep.add(Ob(id="id.strings-sorted-before-join", status="proved" if "join(sorted(wyckoff_strings))" in src.replace(" ", "").replace("', '.", "").replace('", ".', "") or "sorted(wyckoff_strings)" in src else "refuted",
               backend="ast", kind="exact", func=FNI))
    rep.functions.append(func_source_info(REL, "SymmetryAnalyzer.get_material_id"))


def _getters(rep):
    """label getters are pure look-ups in the dataset / in SPACE_GROUP_INFO"""
    m = contexts.symmetry_ctx()
    INFO, WY, NZ = tabvc.load_tables()
    toks = {k: Opaque(k) for k in ("number", "hall_number", "pointgroup", "international", "hall", "choice")}

    class DS:
        pass

    for k, v in toks.items():
        setattr(DS, k, v)
    pairs = [("get_space_group_number", "number"), ("get_hall_number", "hall_number"), ("get_point_group", "pointgroup"),
             ("get_space_group_international_short", "international"), ("get_hall_symbol", "hall")]
    for g, field in pairs:
        f = m.get("SymmetryAnalyzer." + g)
        ex = Explorer(g)

        def thunk(st, f=f):
            it = Interp(st, contracts={REL + ":SymmetryAnalyzer.get_symmetry_dataset": lambda *a: DS})
            return it.run_func(f, [contexts.make_self(m, "SymmetryAnalyzer")], {})

        oc = ex.explore(thunk)
        ok = len(oc) == 1 and oc[0][0] == "return" and oc[0][1] is toks[field]
        rep.add(Ob(id="getter.%s-is-dataset.%s" % (g, field), status="proved" if ok else "refuted", backend="pyvc", kind="vc",
                   func=REL + ":SymmetryAnalyzer." + g))
        rep.functions.append(func_source_info(REL, "SymmetryAnalyzer." + g))
    f = m.get("SymmetryAnalyzer.get_crystal_system")
    bad = []
    for sg in range(1, 231):
        ex = Explorer("cs")

        def thunk(st, sg=sg):
            it = Interp(st, contracts={REL + ":SymmetryAnalyzer.get_space_group_number": lambda *a: sg})
            return it.run_func(f, [contexts.make_self(m, "SymmetryAnalyzer")], {})

        oc = ex.explore(thunk)
        if not (len(oc) == 1 and oc[0][0] == "return" and oc[0][1] == INFO[sg]["crystal_system"]):
            bad.append(sg)
    rep.add(Ob(id="getter.get_crystal_system-is-table-lookup", status="proved" if not bad else "refuted", backend="pyvc", kind="vc",
               func=REL + ":SymmetryAnalyzer.get_crystal_system", detail="groups %s" % bad[:5] if bad else "230 groups"))


def replay_key(ob):
    return str((ob.witness or {}).get("sg"))


def replay(ob):
    """native: the same probe crystal presented in several ways must give identical id / number / letter multiset"""
    from props import table_replay as tr
    from ase import Atoms

    w = ob.witness or {}
    groups = ([w["sg"]] if "sg" in w else []) + [225, 221, 62, 194, 14, 2, 227, 136]
    rng = np.random.default_rng(5)
    fails = []
    if w.get("missing") and "sg" in w:
        # a normalizer that the table does not represent: the crystal and its image under it are the same crystal described twice
        from fractions import Fraction
        sg = w["sg"]
        L = _sym.letters_of(sg)[:8]
        for Li, Lj in itertools.combinations(L, 2):
            try:
                at = tr.pinned_probe(sg, [(Li, 29, None), (Lj, 47, None)], npin=1)
                if len(at) > 240:
                    continue
                a0 = tr.analyze(at)
                if int(a0.get_space_group_number()) != sg:
                    continue
                ref = (a0.get_material_id(), sorted((s.wyckoff_letter, s.element, len(s.indices)) for s in a0.get_wyckoff_sets_conventional(False)))
                for W, wv, _cnt in w["missing"]:
                    W = np.array(W, dtype=float)
                    t = np.array([float(Fraction(x)) for x in wv])
                    sp = (at.get_scaled_positions() @ W.T + t) % 1.0
                    v = Atoms(numbers=at.get_atomic_numbers(), scaled_positions=sp, cell=at.get_cell(), pbc=True)
                    a = tr.analyze(v)
                    got = (a.get_material_id(), sorted((s.wyckoff_letter, s.element, len(s.indices)) for s in a.get_wyckoff_sets_conventional(False)))
                    if got != ref:
                        fails.append({"sg": sg, "occupied": [Li, Lj], "presentation": "image under x -> W x + w, W=%s w=%s (maps the space group onto itself)" % (W.astype(int).tolist(), wv),
                                      "reference": str(ref)[:300], "got": str(got)[:300]})
                        return {"reproduced": True, "failing_inputs": fails}
            except Exception as e:  # noqa
                fails.append({"sg": sg, "observed": "%s: %s" % (type(e).__name__, str(e)[:200])})
    # parameter-free structures: the conventional cell itself (species and scaled positions) is the same for every presentation
    try:
        from ase.build import make_supercell
        INFOp, WYp, NZp = tabvc.load_tables()

        def cellkey(a):
            conv = a.get_conventional_system()
            return sorted((int(z),) + tuple(np.round(np.round(p % 1.0, 4) % 1.0, 4)) for z, p in zip(conv.get_atomic_numbers(), conv.get_scaled_positions()))

        rng2 = np.random.default_rng(7)
        for sgp in (225, 221, 229, 227, 216, 194, 139, 62):
            Lp = _sym.letters_of(sgp)
            fixed = [l for l in Lp if not WYp[sgp][l]["variables"]][:2]
            if not fixed:
                continue
            occp = [(fixed[0], 29, None)] + ([(fixed[1], 8, None)] if len(fixed) > 1 else [])
            at = tr.probe(sgp, occp)
            a0 = tr.analyze(at)
            if a0.get_has_free_wyckoff_parameters():
                continue
            ref = cellkey(a0)
            for trial in range(4):
                v = at.copy()
                if trial % 2 == 1:
                    v = make_supercell(v, [[0, 1, 0], [0, 0, 1], [2, 0, 0]])
                v.translate(rng2.uniform(-3, 3, 3))
                v.wrap()
                v = v[list(rng2.permutation(len(v)))]
                if trial >= 2:
                    v.rotate(37.0, (1, 2, 3), rotate_cell=True)
                a = tr.analyze(v)
                if int(a.get_space_group_number()) == int(a0.get_space_group_number()) and cellkey(a) != ref:
                    fails.append({"sg": sgp, "occupied": [o[0] for o in occp], "presentation": "translated%s%s, atoms permuted" % (", supercell [[0,1,0],[0,0,1],[2,0,0]]" if trial % 2 else "", ", rotated" if trial >= 2 else ""),
                                  "observed": "conventional cell of a parameter-free structure differs: %s vs %s" % (str(cellkey(a))[:160], str(ref)[:160])})
                    return {"reproduced": True, "failing_inputs": fails}
    except Exception as e:  # noqa
        fails.append({"observed": "parameter-free family: %s: %s" % (type(e).__name__, str(e)[:200])})
    # crystals with a single atom per cell, origin moved by half a lattice vector in one, two and three directions
    for sg1 in (221, 123, 47, 191):
        try:
            L1 = _sym.letters_of(sg1)
            at = tr.probe(sg1, [(L1[0], 84, None)])
            a0 = tr.analyze(at)
            ref = (a0.get_material_id(), int(a0.get_space_group_number()), sorted((s.wyckoff_letter, s.element, len(s.indices)) for s in a0.get_wyckoff_sets_conventional(False)))
            for sh in ((0.5, 0.5, 0.5), (0.5, 0, 0), (0, 0.5, 0.5)):
                v = at.copy()
                v.set_scaled_positions((at.get_scaled_positions() + np.array(sh)) % 1.0)
                a = tr.analyze(v)
                got = (a.get_material_id(), int(a.get_space_group_number()), sorted((s.wyckoff_letter, s.element, len(s.indices)) for s in a.get_wyckoff_sets_conventional(False)))
                if got != ref:
                    fails.append({"sg": sg1, "occupied": [L1[0]], "presentation": "origin moved by %s (one atom per cell)" % (sh,), "reference": str(ref)[:200], "got": str(got)[:200]})
                    return {"reproduced": True, "failing_inputs": fails}
        except Exception as e:  # noqa
            fails.append({"sg": sg1, "observed": "%s: %s" % (type(e).__name__, str(e)[:200])})
    for sg in groups[:6]:
        L = _sym.letters_of(sg)
        P1, P2, P3 = {"x": 0.2113, "y": 0.0687, "z": 0.3391}, {"x": 0.0641, "y": 0.3727, "z": 0.1583}, {"x": 0.3019, "y": 0.1291, "z": 0.0877}
        INFO0, WY0, NZ0 = tabvc.load_tables()
        free = [l for l in L[:-1] if WY0[sg][l].get("variables")]
        # one species on two orbits of one letter and one orbit of another (the ranking has to count atoms per letter and species)
        twice = [[(a, 29, P1), (a, 29, P2), (b, 29, P3)] for a, b in itertools.permutations(free[:4], 2)][:6]
        for extra in [[(L[0], 29, None)], [(L[0], 29, None), (L[min(1, len(L) - 1)], 47, None)]] + twice:
            try:
                at = tr.pinned_probe(sg, extra, npin=1)
                if len(at) > 200:
                    at = tr.probe(sg, extra)  # high-multiplicity positions: without the pinning general position
                if len(at) > 330:
                    continue
                a0 = tr.analyze(at)
                ref = (a0.get_material_id(), int(a0.get_space_group_number()), sorted((s.wyckoff_letter, s.element, len(s.indices)) for s in a0.get_wyckoff_sets_conventional(False)),
                       bool(a0.get_has_free_wyckoff_parameters()))
                variants = []
                # reordered atoms
                p = rng.permutation(len(at))
                variants.append(("permuted", at[p]))
                # translated
                t = at.copy(); t.translate(rng.uniform(-5, 5, 3)); variants.append(("translated", t))
                # anisotropic supercells (the lattice of such a cell has lost point operations)
                if len(at) <= 110:
                    variants.append(("2x1x1 supercell", at.repeat((2, 1, 1))))
                if len(at) <= 40:
                    variants.append(("1x2x3 supercell, atoms permuted", at.repeat((1, 2, 3))[rng.permutation(6 * len(at))]))
                # origin moved by each tabulated normalizer's translation part (a symmetry-equivalent description)
                INFO, WY, NZ = tabvc.load_tables()
                for k, nz in enumerate(NZ.get(sg, [])[:4]):
                    T = np.array(nz["transformation"])
                    sp = (at.get_scaled_positions() @ T[:3, :3].T + T[:3, 3]) % 1.0
                    variants.append(("normalizer #%d applied" % k, Atoms(numbers=at.get_atomic_numbers(), scaled_positions=sp, cell=at.get_cell(), pbc=True)))
                for name, v in variants:
                    a = tr.analyze(v)
                    got = (a.get_material_id(), int(a.get_space_group_number()), sorted((s.wyckoff_letter, s.element, len(s.indices)) for s in a.get_wyckoff_sets_conventional(False)),
                           bool(a.get_has_free_wyckoff_parameters()))
                    if got != ref:
                        fails.append({"sg": sg, "occupied": [e[0] for e in extra], "presentation": name, "reference": str(ref)[:300], "got": str(got)[:300]})
            except Exception as e:  # noqa
                fails.append({"sg": sg, "observed": "%s: %s" % (type(e).__name__, str(e)[:200])})
            if len(fails) >= 3:
                return {"reproduced": True, "failing_inputs": fails}
    return {"reproduced": bool(fails), "failing_inputs": fails}


def replay_file(rp):
    return replay(Ob(id=rp["obligation"], witness=rp.get("witness")))
