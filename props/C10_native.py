"""Native replay for C10/C16: brute-force lattice sums against the real matid.geometry / matid.ext of the tree under verification.
Note: the extension module is prebuilt (pybind11 headers are not installed here), so edits of the .cpp sources are NOT reflected in a
native run; C++ refutations are therefore reported with 'no-failing-input-found' unless the Python wrapper is affected."""
import itertools

import numpy as np


def _cells():
    return [np.diag([3.0, 3.5, 4.0]), np.array([[3.1, 0.2, -0.4], [0.7, 2.9, 0.5], [-0.3, 0.6, 4.2]]), np.array([[2.0, 0, 0], [4.0, 2.0, 0], [2.0, 6.0, 2.5]]),
            np.array([[1.0, 0, 0], [0, 1.0, 0], [0, 0, 12.0]]),
            # left-handed cell; cell whose third vector leans far over the other two
            np.array([[0, 3.5, 0], [3.0, 0, 0], [0, 0, 4.0]]), np.array([[3.0, 0, 0], [0, 3.0, 0], [4.0, 1.0, 3.0]]),
            # obtuse cell: |a+b+c| is shorter than distances inside the cell
            np.array([[4.0, 0, 0], [0, 6.0, 0], [0, -5.0, 3.0]])]


def brute_mic(pos, cell, pbc, R=6):
    rng = [range(-R, R + 1) if p else [0] for p in pbc]
    n = len(pos)
    D = np.full((n, n), np.inf)
    for i in range(n):
        for j in range(n):
            best = np.inf
            for a in rng[0]:
                for b in rng[1]:
                    for c in rng[2]:
                        d = np.linalg.norm(pos[i] - pos[j] - (a * cell[0] + b * cell[1] + c * cell[2]))
                        best = min(best, d)
            D[i, j] = best
    return D


def replay_c10():
    import matid.geometry as g
    rng = np.random.default_rng(4)
    fails = []
    for cell in _cells():
        for pbc in itertools.product([True, False], repeat=3):
            n = 3
            sp = rng.uniform(0, 1, size=(n, 3))
            pos = sp @ cell
            ref = brute_mic(pos, cell, pbc, R=7 if abs(cell[2, 2]) < 10 else 3)
            Lmax = max([np.linalg.norm(cell[k]) for k in range(3) if pbc[k]] + [0.0])
            for cutoff in (None, float("inf"), 0.8, 2.5):
                try:
                    disp, fac, dist = g.get_displacement_tensor(pos, cell, np.array(pbc), cutoff=cutoff, return_factors=True, return_distances=True)
                except Exception as e:  # noqa
                    fails.append({"observed": "%s: %s" % (type(e).__name__, e)})
                    continue
                bad = []
                co = np.inf if cutoff is None else cutoff
                for i in range(n):
                    if dist[i, i] != 0:
                        bad.append("diagonal not zero")
                    for j in range(n):
                        if i == j:
                            continue
                        if np.isfinite(dist[i, j]):
                            v = pos[i] - pos[j] - fac[i, j] @ cell
                            if np.abs(v - disp[i, j]).max() > 1e-8 or abs(np.linalg.norm(v) - dist[i, j]) > 1e-8:
                                bad.append("entry (%d,%d) is not a genuine image vector" % (i, j))
                            if any(fac[i, j][k] != 0 for k in range(3) if not pbc[k]) or np.abs(fac[i, j] - np.rint(fac[i, j])).max() > 0:
                                bad.append("factors not integer / non-zero along a non-periodic axis")
                            if dist[i, j] < ref[i, j] - 1e-8:
                                bad.append("shorter than the minimum image distance")
                            if np.abs(disp[i, j] + disp[j, i]).max() > 1e-12 or dist[i, j] != dist[j, i]:
                                bad.append("not antisymmetric")
                        lim = co if np.isfinite(co) else Lmax
                        if ref[i, j] <= lim - 1e-9 and abs(dist[i, j] - ref[i, j]) > 1e-8:
                            bad.append("pair (%d,%d) within range: reported %r, minimum image %r" % (i, j, dist[i, j], ref[i, j]))
                        if np.isfinite(co) and ref[i, j] > co + 1e-9 and np.isfinite(dist[i, j]):
                            bad.append("pair beyond the cutoff reported finite")
                        if not np.isfinite(co) and not np.isfinite(dist[i, j]):
                            bad.append("infinite entry with unbounded cutoff")
                if bad:
                    fails.append({"cell": cell.tolist(), "pbc": pbc, "cutoff": cutoff, "positions": pos.tolist(), "observed": bad[:3]})
                if len(fails) >= 3:
                    return {"reproduced": True, "failing_inputs": fails}
            # the same tables through get_distances (atoms spread over the cell, and atoms bunched in one corner of it)
            from ase import Atoms
            edge = np.array([[0.05, 0.03, 0.05], [0.05, 0.97, 0.05], [0.5, 0.5, 0.5]])
            for sp2 in (sp, 0.08 + 0.4 * sp, 0.55 + 0.4 * sp, edge):
                pos2 = sp2 @ cell
                ref2 = brute_mic(pos2, cell, pbc, R=7 if cell[2, 2] < 10 else 3)
                try:
                    at = Atoms(numbers=[1, 6, 8], positions=pos2, cell=cell, pbc=pbc)
                    D = g.get_distances(at, radii="covalent")
                    rad = g.get_radii("covalent", at.get_atomic_numbers())
                except Exception as e:  # noqa
                    fails.append({"function": "get_distances", "observed": "%s: %s" % (type(e).__name__, e)})
                    continue
                bad = []
                for i in range(n):
                    for j in range(n):
                        if i != j and ref2[i, j] <= Lmax - 1e-9 and abs(D.dist_matrix_mic[i, j] - ref2[i, j]) > 1e-8:
                            bad.append("get_distances: pair (%d,%d) reported %r, minimum image %r" % (i, j, float(D.dist_matrix_mic[i, j]), float(ref2[i, j])))
                        if not np.isfinite(D.dist_matrix_mic[i, j]):
                            bad.append("get_distances: infinite entry")
                        elif abs(D.dist_matrix_radii_mic[i, j] - (D.dist_matrix_mic[i, j] - rad[i] - rad[j])) > 1e-9:
                            bad.append("get_distances: radii-corrected entry is not dist - r_i - r_j")
                        if i != j and np.isfinite(D.dist_matrix_mic[i, j]):
                            v = pos2[i] - pos2[j] - D.disp_factors[i, j] @ cell
                            if np.abs(v - D.disp_tensor_mic[i, j]).max() > 1e-8:
                                bad.append("get_distances: displacement is not r_i - r_j - factor.cell")
                if bad:
                    fails.append({"function": "get_distances", "cell": cell.tolist(), "pbc": pbc, "positions": pos2.tolist(), "observed": bad[:3]})
                if len(fails) >= 3:
                    return {"reproduced": True, "failing_inputs": fails}
    return {"reproduced": bool(fails), "failing_inputs": fails}


def replay_c16():
    import matid.geometry as g
    import matid.ext
    from ase import Atoms
    rng = np.random.default_rng(6)
    fails = []
    for cell in [_cells()[k] for k in (0, 1, 2, 5)]:
        for pbc in itertools.product([True, False], repeat=3):
            n = 3
            sp = rng.uniform(0, 1, size=(n, 3))
            pos = sp @ cell
            nums = np.array([1, 6, 8])
            for ext_d, cutoff in ((1.5, 1.0), (0.8, 2.0), (2.3, 1.0)):
                # through the Python entry point (the observation point of the property)
                es = g.get_extended_system(Atoms(numbers=nums, positions=pos, cell=cell, pbc=pbc), ext_d)
                epos, eidx, efac = np.array(es.positions), np.array(es.indices), np.array(es.factors)
                bad = []
                if not (np.allclose(epos[:n], pos) and (eidx[:n] == np.arange(n)).all() and (efac[:n] == 0).all()):
                    bad.append("original atoms not first")
                if np.abs(epos - (pos[eidx] + efac @ cell)).max() > 1e-9:
                    bad.append("image position != original + offset.cell")
                if any((efac[:, k] != 0).any() for k in range(3) if not pbc[k]):
                    bad.append("offset along a non-periodic axis")
                if len({(int(i),) + tuple(f) for i, f in zip(eidx, efac)}) != len(eidx):
                    bad.append("image listed twice")
                # completeness within the extension distance of the cell (brute force)
                have = {(int(i),) + tuple(int(x) for x in f) for i, f in zip(eidx, efac)}
                inv = np.linalg.inv(cell)
                for i in range(n):
                    for f in itertools.product(*[range(-4, 5) if p else [0] for p in pbc]):
                        p_img = pos[i] + np.array(f) @ cell
                        s = p_img @ inv
                        # distance to the cell (parallelepiped): sample its surface coarsely
                        inside = np.clip(s, 0, 1) @ cell
                        # (the clipped point lies in the cell, so this distance is an upper bound of the distance to the cell)
                        if np.linalg.norm(p_img - inside) < ext_d * 0.999 and ((i,) + tuple(f)) not in have:
                            bad.append("image %s of atom %d within the extension distance is missing" % (f, i))
                cl = g.get_cell_list(pos, cell, np.array(pbc), ext_d, cutoff)
                qs = rng.uniform(0, 1, size=(2, 3)) @ cell
                for q in qs:
                    res = cl.get_neighbours_for_position(q[0], q[1], q[2])
                    d = np.linalg.norm(epos - q, axis=1)
                    want = set(np.where(d <= cutoff)[0])
                    got = set(res.indices)
                    if got != want:
                        bad.append("neighbour query differs from brute force")
                at = Atoms(numbers=nums, positions=pos, cell=cell, pbc=pbc)
                tol = min(ext_d, cutoff) * 0.6
                targets = np.array([pos[0] + 0.01, pos[1] + np.array([0.02, 0, 0]), pos[2] + 5.0])
                tn = np.array([1, 8, 8])
                mt, sb, vac, ci = g.get_matches(at, cl, targets, tn, tol)
                if mt[0] != 0 or sb[0] is not None:
                    bad.append("match not found")
                if mt[1] is not None or sb[1] is None or sb[1].index != 1:
                    bad.append("substitution not reported")
                if bad:
                    fails.append({"cell": cell.tolist(), "pbc": pbc, "extension": ext_d, "cutoff": cutoff, "observed": bad[:3]})
                if len(fails) >= 3:
                    return {"reproduced": True, "failing_inputs": fails}
    # the nearest image decides: two species close together, queries between them (nearest image within the tolerance for both)
    for pbc in ((True, True, True), (True, False, True), (False, False, False)):
        cell = np.diag([4.0, 4.0, 4.0])
        at = Atoms(numbers=[1, 2], positions=[[1.0, 1.0, 1.0], [1.6, 1.0, 1.0]], cell=cell, pbc=pbc)
        tol = 0.5
        cl = g.get_cell_list(at.get_positions(), cell, np.array(pbc), tol, tol)
        shift = cell[0] if pbc[0] else np.zeros(3)
        queries = np.array([[1.35, 1.0, 1.0], [1.1, 1.0, 1.0], [1.35, 1.0, 1.0] + shift, [3.0, 3.0, 3.0], [1.5, 1.0, 1.0]])
        qn = np.array([1, 1, 1, 1, 2])
        # nearest image: He (0.25), H (0.1), He (0.25, through the boundary), nothing, He (0.1)
        want_simple = [None, 0, None, None, 1]
        bad = []
        try:
            ms, ds = g.get_matches_simple(at, cl, queries, qn, tol)
            if list(ms) != want_simple:
                bad.append("get_matches_simple returns %s, nearest-image rule gives %s" % (list(ms), want_simple))
            mt, sb, vac, ci = g.get_matches(at, cl, queries, qn, tol)
            want_m = [None, 0, None, None, 1]
            if list(mt) != want_m:
                bad.append("get_matches matches %s, nearest-image rule gives %s" % (list(mt), want_m))
            if sb[0] is None or sb[0].index != 1 or sb[2] is None or sb[2].index != 1 or sb[1] is not None or sb[3] is not None or sb[4] is not None:
                bad.append("get_matches substitutions %s: expected the He atom for queries 0 and 2 only" % [None if x is None else x.index for x in sb])
            if len(vac) != 1:
                bad.append("get_matches reports %d vacancies, expected 1 (query 3)" % len(vac))
            if pbc[0]:
                at2 = Atoms(numbers=[1, 2], positions=[[2.0, 1.0, 1.0], [0.1, 1.0, 1.0]], cell=cell, pbc=pbc)
                cl2 = g.get_cell_list(at2.get_positions(), cell, np.array(pbc), tol, tol)
                m2, s2, v2, c2 = g.get_matches(at2, cl2, np.array([[3.9, 1.0, 1.0]]), np.array([1]), tol)
                if s2[0] is None or s2[0].index != 1:
                    bad.append("substitution through the cell boundary not reported")
                elif tuple(int(v) for v in np.rint(c2[0])) != (1, 0, 0):
                    bad.append("substitution found in the neighbouring cell (He at 0.1 + a) reports the cell offset %s instead of (1, 0, 0)" % (tuple(int(v) for v in np.rint(c2[0])),))
            if pbc[0] and tuple(int(v) for v in np.rint(ci[2])) == tuple(int(v) for v in np.rint(ci[0])):
                bad.append("cell offset of the query shifted by a lattice vector equals the unshifted one")
        except Exception as e:  # noqa
            bad.append("%s: %s" % (type(e).__name__, e))
        if bad:
            fails.append({"cell": cell.tolist(), "pbc": pbc, "atoms": "H (1,1,1), He (1.6,1,1)", "queries": queries.tolist(), "species": qn.tolist(), "tolerance": tol, "observed": bad[:3]})
    return {"reproduced": bool(fails), "failing_inputs": fails[:3]}


# ---------------------------------------------------------------------------------------------
# native replay of the C++ itself: the real geometry.cpp / celllist.cpp of the tree under verification are compiled with g++ against
# a functional stand-in of pybind11's array_t (engine/cxxharness) into a standalone driver; cases are fed on stdin.
def _build_harness():
    import os
    import subprocess
    import tempfile
    from engine.common import REPO, VERIF

    d = tempfile.mkdtemp(prefix="verif-cxxbuild-", dir="/dev/shm")
    exe = os.path.join(d, "harness")
    ext = os.path.join(REPO, "matid", "ext")
    r = subprocess.run(["g++", "-std=c++11", "-O1", "-I", os.path.join(VERIF, "engine", "cxxharness"), "-I", ext,
                        os.path.join(VERIF, "engine", "cxxharness", "harness.cpp"), os.path.join(ext, "geometry.cpp"), os.path.join(ext, "celllist.cpp"), "-o", exe],
                       capture_output=True, text=True, timeout=300)
    if r.returncode != 0:
        import shutil
        shutil.rmtree(d, ignore_errors=True)
        return None, None, r.stderr[-1500:]
    return d, exe, ""


def _run(exe, line):
    import subprocess
    r = subprocess.run([exe], input=line + "\n", capture_output=True, text=True, timeout=120)
    out = r.stdout.strip().splitlines()
    if r.returncode != 0:
        return "CRASH rc=%d" % r.returncode, []
    if not out:
        return "NO OUTPUT", []
    head = out[0].split()
    rows = [[float(x) for x in l.split()] for l in out[1:]]
    return head, rows


def _fmt(a):
    return " ".join(repr(float(x)) for x in np.asarray(a, dtype=float).reshape(-1))


def cxx_replay(limit=3):
    """C10/C16 statement on the compiled real C++ for a fixed family (cells x pbc x cutoffs; grid and random positions)"""
    import shutil
    d, exe, err = _build_harness()
    if exe is None:
        return {"reproduced": False, "note": "the C++ sources do not compile against the harness stub: %s" % err}
    fails = []
    try:
        rng = np.random.default_rng(9)
        for cell in _cells():
            for pbc in itertools.product([True, False], repeat=3):
                n = 3
                sp = rng.uniform(0, 1, size=(n, 3))
                sp[0] = [0.02, 0.5, 0.97]
                pos = sp @ cell
                pb = " ".join("1" if p else "0" for p in pbc)
                ref = brute_mic(pos, cell, pbc, R=7 if cell[2, 2] < 10 else 3)
                Lmax = max([np.linalg.norm(cell[k]) for k in range(3) if pbc[k]] + [0.0])
                for cutoff in ("inf", 0.8, 2.5):
                    head, rows = _run(exe, "T %d %s %s %s %s" % (n, _fmt(pos), _fmt(cell), pb, cutoff))
                    bad = []
                    if head[0] != "OK":
                        bad.append("driver: %s" % (head,))
                    else:
                        co = np.inf if cutoff == "inf" else float(cutoff)
                        M = np.array(rows).reshape(n, n, 7)
                        dist, disp, fac = M[:, :, 0], M[:, :, 1:4], M[:, :, 4:7]
                        for i in range(n):
                            if dist[i, i] != 0 or np.abs(disp[i, i]).max() != 0:
                                bad.append("diagonal not zero")
                            for j in range(n):
                                if i == j:
                                    continue
                                if np.isfinite(dist[i, j]):
                                    v = pos[i] - pos[j] - fac[i, j] @ cell
                                    if np.abs(v - disp[i, j]).max() > 1e-8 or abs(np.linalg.norm(v) - dist[i, j]) > 1e-8:
                                        bad.append("entry (%d,%d) is not a genuine image vector" % (i, j))
                                    if any(fac[i, j][k] != 0 for k in range(3) if not pbc[k]):
                                        bad.append("offset along a non-periodic axis")
                                    if dist[i, j] < ref[i, j] - 1e-8:
                                        bad.append("shorter than the minimum image distance")
                                    if np.abs(disp[i, j] + disp[j, i]).max() > 1e-12 or dist[i, j] != dist[j, i] or np.abs(fac[i, j] + fac[j, i]).max() > 0:
                                        bad.append("tables not antisymmetric/symmetric")
                                lim = co if np.isfinite(co) else Lmax
                                if ref[i, j] <= lim - 1e-9 and abs(dist[i, j] - ref[i, j]) > 1e-8:
                                    bad.append("pair (%d,%d) within range: reported %r, minimum image %r" % (i, j, dist[i, j], ref[i, j]))
                                if np.isfinite(co) and ref[i, j] > co + 1e-9 and np.isfinite(dist[i, j]):
                                    bad.append("pair beyond the cutoff reported finite")
                                if not np.isfinite(co) and not np.isfinite(dist[i, j]):
                                    bad.append("infinite entry with unbounded cutoff")
                    if bad:
                        fails.append({"what": "get_displacement_tensor (C++)", "cell": cell.tolist(), "pbc": pbc, "cutoff": cutoff, "positions": pos.tolist(), "observed": bad[:3]})
                for ext_d, cutoff in ((1.5, 1.0), (0.8, 2.0)):
                    head, rows = _run(exe, "E %d %s %s %s %s" % (n, _fmt(pos), _fmt(cell), pb, ext_d))
                    bad = []
                    if head[0] != "OK":
                        bad.append("driver: %s" % (head,))
                    else:
                        E = np.array(rows).reshape(-1, 7)
                        eidx, efac, epos = E[:, 0].astype(int), E[:, 1:4], E[:, 4:7]
                        if not (np.allclose(epos[:n], pos) and (eidx[:n] == np.arange(n)).all() and (efac[:n] == 0).all()):
                            bad.append("original atoms not first")
                        if np.abs(epos - (pos[eidx] + efac @ cell)).max() > 1e-9:
                            bad.append("image position != original + offset.cell")
                        if any((efac[:, k] != 0).any() for k in range(3) if not pbc[k]):
                            bad.append("offset along a non-periodic axis")
                        keys = {(int(i),) + tuple(int(x) for x in f) for i, f in zip(eidx, efac)}
                        if len(keys) != len(eidx):
                            bad.append("image listed twice")
                        inv = np.linalg.inv(cell)
                        for i in range(n):
                            for f in itertools.product(*[range(-5, 6) if p else [0] for p in pbc]):
                                p_img = pos[i] + np.array(f) @ cell
                                s = p_img @ inv
                                near = np.clip(s, 0, 1) @ cell  # a point of the cell (not necessarily the nearest: conservative)
                                if np.linalg.norm(p_img - near) < ext_d * 0.45 and ((i,) + tuple(f)) not in keys:
                                    bad.append("image %s of atom %d close to the cell is missing" % (f, i))
                        q = np.array([0.31, 0.77, 0.52]) @ cell
                        head2, rows2 = _run(exe, "Q %d %s %s %s %s %s %s" % (n, _fmt(pos), _fmt(cell), pb, ext_d, cutoff, _fmt(q)))
                        if head2[0] != "OK":
                            bad.append("query driver: %s" % (head2,))
                        else:
                            Q = np.array(rows2).reshape(-1, 9) if rows2 else np.zeros((0, 9))
                            dd = np.linalg.norm(epos - q, axis=1)
                            want = set(np.where(dd <= cutoff)[0])
                            got = set(Q[:, 0].astype(int))
                            if got != want:
                                bad.append("query returns %s, brute force %s" % (sorted(got), sorted(want)))
                            for row in Q:
                                k = int(row[0])
                                if abs(row[1] - dd[k]) > 1e-9 or np.abs(row[2:5] - (q - epos[k])).max() > 1e-9 or int(row[5]) != eidx[k] or np.abs(row[6:9] - efac[k]).max() > 0:
                                    bad.append("query record of image %d wrong" % k)
                    if bad:
                        fails.append({"what": "extend_system / CellList (C++)", "cell": cell.tolist(), "pbc": pbc, "extension": ext_d, "cutoff": cutoff,
                                      "positions": pos.tolist(), "observed": bad[:3]})
                if len(fails) >= limit:
                    return {"reproduced": True, "failing_inputs": fails, "via": "compiled harness of the real C++"}
    finally:
        shutil.rmtree(d, ignore_errors=True)
    return {"reproduced": bool(fails), "failing_inputs": fails, "via": "compiled harness of the real C++"}
