"""Native replay for C10/C16: brute-force lattice sums against the real matid.geometry / matid.ext of the tree under verification.
Note: the extension module is prebuilt (pybind11 headers are not installed here), so edits of the .cpp sources are NOT reflected in a
native run; C++ refutations are therefore reported with 'no-failing-input-found' unless the Python wrapper is affected."""
import itertools

import numpy as np


def _cells():
    return [np.diag([3.0, 3.5, 4.0]), np.array([[3.1, 0.2, -0.4], [0.7, 2.9, 0.5], [-0.3, 0.6, 4.2]]), np.array([[2.0, 0, 0], [4.0, 2.0, 0], [2.0, 6.0, 2.5]]),
            np.array([[1.0, 0, 0], [0, 1.0, 0], [0, 0, 12.0]])]


def brute_mic(pos, cell, pbc, R=6):
    rng = [range(-R, R + 1) if p else [0] for p in pbc]
    n = len(pos)
    D = np.full((n, n), np.inf)
    for i in range(n):
        for j in range(n):
            best = np.inf
            for a in rng[0]:
                for b in rng[1]:
                    for c in rng[2]:
                        d = np.linalg.norm(pos[i] - pos[j] - (a * cell[0] + b * cell[1] + c * cell[2]))
                        best = min(best, d)
            D[i, j] = best
    return D


def replay_c10():
    import matid.geometry as g
    rng = np.random.default_rng(4)
    fails = []
    for cell in _cells():
        for pbc in itertools.product([True, False], repeat=3):
            n = 3
            sp = rng.uniform(0, 1, size=(n, 3))
            pos = sp @ cell
            ref = brute_mic(pos, cell, pbc, R=7 if cell[2, 2] < 10 else 3)
            Lmax = max([np.linalg.norm(cell[k]) for k in range(3) if pbc[k]] + [0.0])
            for cutoff in (None, float("inf"), 0.8, 2.5):
                try:
                    disp, fac, dist = g.get_displacement_tensor(pos, cell, np.array(pbc), cutoff=cutoff, return_factors=True, return_distances=True)
                except Exception as e:  # noqa
                    fails.append({"observed": "%s: %s" % (type(e).__name__, e)})
                    continue
                bad = []
                co = np.inf if cutoff is None else cutoff
                for i in range(n):
                    if dist[i, i] != 0:
                        bad.append("diagonal not zero")
                    for j in range(n):
                        if i == j:
                            continue
                        if np.isfinite(dist[i, j]):
                            v = pos[i] - pos[j] - fac[i, j] @ cell
                            if np.abs(v - disp[i, j]).max() > 1e-8 or abs(np.linalg.norm(v) - dist[i, j]) > 1e-8:
                                bad.append("entry (%d,%d) is not a genuine image vector" % (i, j))
                            if any(fac[i, j][k] != 0 for k in range(3) if not pbc[k]) or np.abs(fac[i, j] - np.rint(fac[i, j])).max() > 0:
                                bad.append("factors not integer / non-zero along a non-periodic axis")
                            if dist[i, j] < ref[i, j] - 1e-8:
                                bad.append("shorter than the minimum image distance")
                            if np.abs(disp[i, j] + disp[j, i]).max() > 1e-12 or dist[i, j] != dist[j, i]:
                                bad.append("not antisymmetric")
                        lim = co if np.isfinite(co) else Lmax
                        if ref[i, j] <= lim - 1e-9 and abs(dist[i, j] - ref[i, j]) > 1e-8:
                            bad.append("pair (%d,%d) within range: reported %r, minimum image %r" % (i, j, dist[i, j], ref[i, j]))
                        if np.isfinite(co) and ref[i, j] > co + 1e-9 and np.isfinite(dist[i, j]):
                            bad.append("pair beyond the cutoff reported finite")
                        if not np.isfinite(co) and not np.isfinite(dist[i, j]):
                            bad.append("infinite entry with unbounded cutoff")
                if bad:
                    fails.append({"cell": cell.tolist(), "pbc": pbc, "cutoff": cutoff, "positions": pos.tolist(), "observed": bad[:3]})
                if len(fails) >= 3:
                    return {"reproduced": True, "failing_inputs": fails}
    return {"reproduced": bool(fails), "failing_inputs": fails}


def replay_c16():
    import matid.geometry as g
    import matid.ext
    from ase import Atoms
    rng = np.random.default_rng(6)
    fails = []
    for cell in _cells()[:3]:
        for pbc in itertools.product([True, False], repeat=3):
            n = 3
            sp = rng.uniform(0, 1, size=(n, 3))
            pos = sp @ cell
            nums = np.array([1, 6, 8])
            for ext_d, cutoff in ((1.5, 1.0), (0.8, 2.0)):
                es = matid.ext.extend_system(pos, nums, cell, np.array(pbc), ext_d)
                epos, eidx, efac = np.array(es.positions), np.array(es.indices), np.array(es.factors)
                bad = []
                if not (np.allclose(epos[:n], pos) and (eidx[:n] == np.arange(n)).all() and (efac[:n] == 0).all()):
                    bad.append("original atoms not first")
                if np.abs(epos - (pos[eidx] + efac @ cell)).max() > 1e-9:
                    bad.append("image position != original + offset.cell")
                if any((efac[:, k] != 0).any() for k in range(3) if not pbc[k]):
                    bad.append("offset along a non-periodic axis")
                if len({(int(i),) + tuple(f) for i, f in zip(eidx, efac)}) != len(eidx):
                    bad.append("image listed twice")
                # completeness within the extension distance of the cell (brute force)
                have = {(int(i),) + tuple(int(x) for x in f) for i, f in zip(eidx, efac)}
                inv = np.linalg.inv(cell)
                for i in range(n):
                    for f in itertools.product(*[range(-4, 5) if p else [0] for p in pbc]):
                        p_img = pos[i] + np.array(f) @ cell
                        s = p_img @ inv
                        # distance to the cell (parallelepiped): sample its surface coarsely
                        inside = np.clip(s, 0, 1) @ cell
                        if np.linalg.norm(p_img - inside) < ext_d * 0.5 and ((i,) + tuple(f)) not in have:
                            bad.append("image %s of atom %d within the extension distance is missing" % (f, i))
                cl = g.get_cell_list(pos, cell, np.array(pbc), ext_d, cutoff)
                qs = rng.uniform(0, 1, size=(2, 3)) @ cell
                for q in qs:
                    res = cl.get_neighbours_for_position(q[0], q[1], q[2])
                    d = np.linalg.norm(epos - q, axis=1)
                    want = set(np.where(d <= cutoff)[0])
                    got = set(res.indices)
                    if got != want:
                        bad.append("neighbour query differs from brute force")
                at = Atoms(numbers=nums, positions=pos, cell=cell, pbc=pbc)
                tol = min(ext_d, cutoff) * 0.6
                targets = np.array([pos[0] + 0.01, pos[1] + np.array([0.02, 0, 0]), pos[2] + 5.0])
                tn = np.array([1, 8, 8])
                mt, sb, vac, ci = g.get_matches(at, cl, targets, tn, tol)
                if mt[0] != 0 or sb[0] is not None:
                    bad.append("match not found")
                if mt[1] is not None or sb[1] is None or sb[1].index != 1:
                    bad.append("substitution not reported")
                if bad:
                    fails.append({"cell": cell.tolist(), "pbc": pbc, "extension": ext_d, "cutoff": cutoff, "observed": bad[:3]})
                if len(fails) >= 3:
                    return {"reproduced": True, "failing_inputs": fails}
    return {"reproduced": bool(fails), "failing_inputs": fails}
