"""shared harness for the symmetry properties: running SymmetryAnalyzer._find_wyckoff_ground_state from its real source"""
from __future__ import annotations

import itertools

import numpy as np
import z3

from engine import contexts, tabvc
from engine.aseshim import SymAtoms, sym_cell
from engine.common import Ob
from engine.pyvc import Explorer, Interp, SR, sreal, z3num

REL = "matid/symmetry/symmetryanalyzer.py"
ALPHABET = "abcdefghijklmnopqrstuvwxyzA"


def letters_of(sg):
    INFO, WY, NZ = tabvc.load_tables()
    return sorted((k for k in WY[sg] if k != "translations"), key=ALPHABET.index)


def occupancies(sg, max_pairs=6):
    """bounded family of occupancy patterns: every single letter; pairs of letters with two species (both assignments)"""
    L = letters_of(sg)
    occ = [[(l, 14)] for l in L]
    pairs = list(itertools.combinations(L, 2))[:max_pairs]
    for a, b in pairs:
        occ.append([(a, 14), (b, 8)])
        occ.append([(a, 8), (b, 14)])
        occ.append([(a, 14), (b, 14)])
    return occ


class CellArr(np.ndarray):
    """ase Cell as far as the analysed code looks at it: a 3x3 array with lengths() (three positive reals)"""

    def __new__(cls, arr):
        return np.asarray(arr).view(cls)

    def lengths(self):
        from engine.pyvc import cur
        st = cur()
        if "cell_lengths" not in st.ghost:
            ls = [sreal("cell_len%d" % k) for k in range(3)]
            for l in ls:
                st.assume(z3num(l) > 0)
            st.ghost["cell_lengths"] = np.array(ls, dtype=object)
        return st.ghost["cell_lengths"]


class StdSystem:
    """spglib's standardised system as seen by _find_wyckoff_ground_state: symbolic scaled positions, fixed species"""

    def __init__(self, numbers, prefix="s"):
        self.numbers = np.array(numbers)
        n = len(numbers)
        self.scaled = np.empty((n, 3), dtype=object)
        for i in range(n):
            for k in range(3):
                self.scaled[i, k] = sreal("%s%d%d" % (prefix, i, k))
        self.cell = CellArr(sym_cell("c"))
        self.set_calls = []
        self.is_copy = False
        self.origin = None

    def get_atomic_numbers(self):
        return self.numbers.copy()

    def get_scaled_positions(self):
        return self.scaled.copy()

    def copy(self):
        c = StdSystem.__new__(StdSystem)
        c.numbers, c.scaled, c.cell, c.set_calls, c.is_copy, c.origin = self.numbers.copy(), self.scaled.copy(), self.cell, [], True, self
        return c

    def set_scaled_positions(self, p):
        self.set_calls.append("set_scaled_positions")
        self.scaled = np.array(p, dtype=object)

    def __len__(self):
        return len(self.numbers)

    def _len(self):
        return len(self.numbers)


def run_ground_state(sg, occ):
    """executes the real _find_wyckoff_ground_state; returns (new_system, new_letters, self_obj, input system, explorer)"""
    m = contexts.symmetry_ctx()
    f = m.get("SymmetryAnalyzer._find_wyckoff_ground_state")
    letters = np.array([l for l, z in occ])
    numbers = [z for l, z in occ]
    ex = Explorer(REL + ":SymmetryAnalyzer._find_wyckoff_ground_state")
    out = {}

    def wrapped_contract(it, st, bound, site):
        """geometry.get_wrapped_positions under its contract (proved in C20/C08): x mod 1, snapped to 0 within the precision"""
        a = np.array(bound["scaled_pos"], dtype=object)
        out = np.empty(a.shape, dtype=object)
        pr = bound["precision"]
        if isinstance(pr, np.ndarray) and pr.shape != ():
            precs = np.broadcast_to(pr, a.shape)
        else:
            precs = np.broadcast_to(np.array(pr, dtype=object), a.shape)
        for idx in np.ndindex(a.shape):
            x = a[idx]
            prec = z3num(precs[idx])
            st.ghost.setdefault("wrap_prec", []).append(prec)
            w = z3num(SR(z3num(x)) % 1)
            v = st.fresh_real("wrapped")
            st.assume(z3.Or(v == w, z3.And(v == 0, z3.Or(w < prec, 1 - w < prec))))
            st.assume(z3.Implies(z3.Or(w < prec, 1 - w < prec), v == 0))
            out[idx] = SR(v)
            st.ghost.setdefault("wrapped_of", {})[str(v)] = z3num(x)
        return out

    def thunk(st):
        it = Interp(st, contracts={"matid/geometry/geometry.py:get_wrapped_positions": wrapped_contract})
        tol = sreal("symmetry_tol")
        st.assume(z3num(tol) > 0)
        self_ = contexts.make_self(m, "SymmetryAnalyzer", {"_best_transform": None, "symmetry_tol": tol})
        system = StdSystem(numbers)
        r = it.run_func(f, [self_, sg, letters, system], {})
        out.update(self=self_, system=system, result=r, st=st)
        return r

    oc = ex.explore(thunk)
    return out, oc, ex


def dataset_section(rep):
    """SymmetryAnalyzer.get_symmetry_dataset and the getters on top of it: spglib is asked about the analysed structure (its cell, scaled
    positions, atomic numbers) with the analyzer's own tolerance, once; None / a crash become CellNormalizationError; the simple getters hand
    out the dataset fields they are named after"""
    from engine.symcoll import Opaque
    m = contexts.symmetry_ctx()
    FNQ = REL + ":SymmetryAnalyzer.get_symmetry_dataset"
    f = m.get("SymmetryAnalyzer.get_symmetry_dataset")
    T = {k: Opaque(k) for k in ("scaled", "numbers", "tol")}
    T["cell"] = sym_cell("c")  # symbolic: any handedness, any shape - the description must not depend on it

    class Sys:
        def get_cell(self):
            return T["cell"]

        def get_scaled_positions(self, wrap=True):
            return T["scaled"]

        def get_atomic_numbers(self):
            return T["numbers"]

    class OtherSys(Sys):
        def get_cell(self):
            return Opaque("cell-of-another-system")

        def get_scaled_positions(self, wrap=True):
            return Opaque("positions-of-another-system")

        def get_atomic_numbers(self):
            return Opaque("numbers-of-another-system")

    class DSobj:
        number = 1

    old = {k: m.globals.get(k) for k in ("segfault_protect", "spglib")}
    try:
        for mode in ("dataset", "none", "crash"):
            calls = []
            SPG = Opaque("spglib.get_symmetry_dataset")

            class SpglibShim:
                get_symmetry_dataset = SPG

            def protect(fn, *a, mode=mode, calls=calls, **k):
                calls.append((fn, a, k))
                if mode == "crash":
                    raise RuntimeError("segfault")
                return None if mode == "none" else DSobj

            m.globals["segfault_protect"] = protect
            m.globals["spglib"] = SpglibShim
            ex = Explorer(FNQ)
            box = {}

            bad = []

            def check_calls():
                if len(calls) != 1:
                    bad.append("spglib asked %d times for two calls of the getter" % len(calls))
                    return
                fn, a, k = calls[0]
                if fn is not SPG:
                    bad.append("not spglib.get_symmetry_dataset")
                if not (len(a) == 2 and not k and isinstance(a[0], tuple) and len(a[0]) == 3 and a[0][0] is T["cell"] and a[0][1] is T["scaled"] and a[0][2] is T["numbers"]):
                    bad.append("the structure described to spglib is not (cell, scaled positions, atomic numbers) of the analysed system as it is")
                elif a[1] is not T["tol"]:
                    bad.append("tolerance passed to spglib is not the analyzer's symmetry_tol")

            def thunk(st):
                calls.clear()
                self_ = contexts.make_self(m, "SymmetryAnalyzer", {"_symmetry_dataset": None, "_analyzed_system": Sys(), "_original_system": OtherSys(),
                                                                    "system": OtherSys(), "symmetry_tol": T["tol"]})
                it = Interp(st)
                try:
                    r = it.run_func(f, [self_], {})
                    r2 = it.run_func(f, [self_], {})
                    box.update(r=r, r2=r2, self=self_)
                finally:
                    check_calls()
                return r

            oc = ex.explore(thunk)
            if len(oc) != 1:
                bad.append("%d paths: the description depends on the shape of the cell" % len(oc))
            if mode == "dataset":
                if not (len(oc) == 1 and oc[0][0] == "return" and box.get("r") is DSobj and box.get("r2") is DSobj):
                    bad.append("does not return (and cache) the dataset")
            else:
                from matid.utils.exceptions import CellNormalizationError
                if not (len(oc) == 1 and oc[0][0] == "raise" and type(oc[0][1]).__name__ == "CellNormalizationError"):
                    bad.append("spglib %s does not become CellNormalizationError: %r" % (mode, oc[0][:2] if oc else None))
            rep.add(Ob(id="dataset.get_symmetry_dataset[%s]" % mode, status="proved" if not bad else "refuted", backend="pyvc", kind="vc", func=FNQ, detail="; ".join(bad)[:500]))
    finally:
        for k, v in old.items():
            m.globals[k] = v
    # memoised values do not survive a change of the analysed structure: reset() clears every attribute that some method memoises, and
    # set_system() resets before anything else is read (the fields are found in the class text on every run)
    import ast as _ast
    from engine.common import REPO as _REPO
    import os as _os
    tree = _ast.parse(open(_os.path.join(_REPO, REL)).read())
    cls = [n for n in tree.body if isinstance(n, _ast.ClassDef) and n.name == "SymmetryAnalyzer"][0]
    memo = set()
    for fn in cls.body:
        if isinstance(fn, _ast.FunctionDef) and fn.name not in ("__init__", "reset", "set_system"):
            for node in _ast.walk(fn):
                if isinstance(node, _ast.Assign):
                    for t in node.targets:
                        if isinstance(t, _ast.Attribute) and isinstance(t.value, _ast.Name) and t.value.id == "self" and t.attr.startswith("_"):
                            memo.add(t.attr)
    fr = m.get("SymmetryAnalyzer.reset")
    ex = Explorer(REL + ":SymmetryAnalyzer.reset")
    box = {}

    def thunk_r(st):
        self_ = contexts.make_self(m, "SymmetryAnalyzer", {k: Opaque("stale " + k) for k in memo})
        box["self"] = self_
        return Interp(st).run_func(fr, [self_], {})

    oc = ex.explore(thunk_r)
    left = sorted(k for k in memo if box["self"]._f.get(k) is not None) if (len(oc) == 1 and oc[0][0] == "return") else ["reset() did not return normally"]
    rep.add(Ob(id="dataset.reset-clears-every-memoised-value", status="proved" if (memo and not left) else "refuted", backend="pyvc", kind="vc",
               func=REL + ":SymmetryAnalyzer.reset", detail=("%d memoised attributes" % len(memo)) if not left else "still set after reset(): %s" % left[:6]))
    fs = m.get("SymmetryAnalyzer.set_system")
    ex = Explorer(REL + ":SymmetryAnalyzer.set_system")
    order = []

    class Sys3:
        def get_pbc(self):
            order.append("read")
            return np.array([True, True, True])

    def reset_contract(it, st, bound, site):
        order.append("reset")

    oc = ex.explore(lambda st: Interp(st, contracts={REL + ":SymmetryAnalyzer.reset": reset_contract}).run_func(fs, [contexts.make_self(m, "SymmetryAnalyzer"), Sys3()], {}))
    ok = len(oc) == 1 and oc[0][0] == "return" and order[:1] == ["reset"] and order.count("reset") == 1
    rep.add(Ob(id="dataset.set_system-resets-first", status="proved" if ok else "refuted", backend="pyvc", kind="vc", func=REL + ":SymmetryAnalyzer.set_system",
               detail="" if ok else "order of events: %s / %s" % (order[:4], [o[:2] for o in oc][:2])))
    rep.functions.append(__import__("engine.common", fromlist=["x"]).func_source_info(REL, "SymmetryAnalyzer.reset"))
    # getters: field of the dataset
    toks = {k: Opaque(k) for k in ("rotations", "translations", "choice", "origin_shift", "transformation_matrix")}

    class DS:
        pass

    for k, v in toks.items():
        setattr(DS, k, v)
    for g, field in (("get_rotations", "rotations"), ("get_translations", "translations"), ("get_choice", "choice"), ("_get_spglib_origin_shift", "origin_shift"),
                     ("_get_spglib_transformation_matrix", "transformation_matrix")):
        fg = m.get("SymmetryAnalyzer." + g)
        ex = Explorer(g)
        oc = ex.explore(lambda st, fg=fg: Interp(st, contracts={REL + ":SymmetryAnalyzer.get_symmetry_dataset": lambda *a: DS}).run_func(fg, [contexts.make_self(m, "SymmetryAnalyzer")], {}))
        ok = len(oc) == 1 and oc[0][0] == "return" and oc[0][1] is toks[field]
        rep.add(Ob(id="dataset.getter.%s-is-dataset.%s" % (g, field), status="proved" if ok else "refuted", backend="pyvc", kind="vc", func=REL + ":SymmetryAnalyzer." + g))
    fg = m.get("SymmetryAnalyzer.get_symmetry_operations")
    ex = Explorer("ops")
    oc = ex.explore(lambda st: Interp(st, contracts={REL + ":SymmetryAnalyzer.get_symmetry_dataset": lambda *a: DS}).run_func(fg, [contexts.make_self(m, "SymmetryAnalyzer")], {}))
    ok = len(oc) == 1 and oc[0][0] == "return" and isinstance(oc[0][1], dict) and oc[0][1].get("rotations") is toks["rotations"] and oc[0][1].get("translations") is toks["translations"]
    rep.add(Ob(id="dataset.getter.get_symmetry_operations-pairs-rotations-and-translations", status="proved" if ok else "refuted", backend="pyvc", kind="vc",
               func=REL + ":SymmetryAnalyzer.get_symmetry_operations"))


def public_getters_section(rep):
    """the public getters hand the right things to the internal steps: the primitive description and the Wyckoff sets are derived from the
    conventional system together with its *normalised* letters and its orbit labels (not spglib's raw ones), under the detected group, with
    the analyzer's tolerance; the per-atom getters return what those steps stored"""
    from engine.symcoll import Opaque
    m = contexts.symmetry_ctx()
    P = REL + ":SymmetryAnalyzer."
    T = {k: Opaque(k) for k in ("conventional system", "normalised conventional letters", "conventional orbit labels", "international short", "space group number", "tolerance",
                                "raw spglib letters", "raw spglib orbit labels", "spglib conventional system", "prim system", "prim letters", "prim orbits", "sets")}
    base = {P + "get_conventional_system": lambda *a: T["conventional system"],
            P + "get_wyckoff_letters_conventional": lambda *a: T["normalised conventional letters"],
            P + "get_equivalent_atoms_conventional": lambda *a: T["conventional orbit labels"],
            P + "get_space_group_international_short": lambda *a: T["international short"],
            P + "get_space_group_number": lambda *a: T["space group number"],
            P + "_get_spglib_wyckoff_letters_conventional": lambda *a: T["raw spglib letters"],
            P + "_get_spglib_equivalent_atoms_conventional": lambda *a: T["raw spglib orbit labels"],
            P + "_get_spglib_conventional_system": lambda *a: T["spglib conventional system"]}

    def run(fname, extra, fields=None, args=()):
        f = m.get("SymmetryAnalyzer." + fname)
        ex = Explorer(P + fname)
        box = {}

        def thunk(st):
            c = dict(base)
            c.pop(P + fname, None)
            c.update(extra)
            self_ = contexts.make_self(m, "SymmetryAnalyzer", dict({"symmetry_tol": T["tolerance"]}, **(fields or {})))
            box["self"] = self_
            return Interp(st, contracts=c).run_func(f, [self_] + list(args), {})

        oc = ex.explore(thunk)
        return oc, box.get("self")

    # get_primitive_system
    calls = []

    def prim_contract(it, st, bound, site):
        calls.append(bound)
        return T["prim system"], T["prim letters"], T["prim orbits"]

    oc, self_ = run("get_primitive_system", {P + "_get_primitive_system": prim_contract}, {"_primitive_system": None, "_primitive_wyckoff_letters": None, "_primitive_equivalent_atoms": None})
    bad = []
    if not (len(oc) == 1 and oc[0][0] == "return" and oc[0][1] is T["prim system"]) or len(calls) != 1:
        bad.append("does not return the system built by _get_primitive_system (%d calls)" % len(calls))
    else:
        got = list(calls[0].values())[1:] if list(calls[0].keys())[0] in ("self",) else list(calls[0].values())
        want = [T["conventional system"], T["normalised conventional letters"], T["conventional orbit labels"], T["international short"]]
        if not (len(got) == 4 and all(x is y for x, y in zip(got, want))):
            bad.append("_get_primitive_system is given %s instead of (conventional system, its normalised letters, its orbit labels, short symbol)" % ([getattr(x, "tag", x) for x in got],))
        f_ = self_._f
        if not (f_.get("_primitive_system") is T["prim system"] and f_.get("_primitive_wyckoff_letters") is T["prim letters"] and f_.get("_primitive_equivalent_atoms") is T["prim orbits"]):
            bad.append("results are not stored for the per-atom getters")
    rep.add(Ob(id="getters.get_primitive_system-uses-the-conventional-system-with-its-normalised-letters", status="proved" if not bad else "refuted", backend="pyvc", kind="vc",
               func=P + "get_primitive_system", detail="; ".join(bad)[:500]))
    # get_wyckoff_sets_conventional
    calls2 = []

    def sets_contract(it, st, bound, site):
        calls2.append(bound)
        return T["sets"]

    for rp in (True, False):
        calls2.clear()
        oc, _ = run("get_wyckoff_sets_conventional", {P + "_get_wyckoff_sets": sets_contract}, args=(rp,))
        bad = []
        if not (len(oc) == 1 and oc[0][0] == "return" and oc[0][1] is T["sets"] and len(calls2) == 1):
            bad.append("does not return the sets built by _get_wyckoff_sets")
        else:
            b = calls2[0]
            want = {"system": T["conventional system"], "space_group": T["space group number"], "wyckoff_letters": T["normalised conventional letters"],
                    "equivalent_atoms": T["conventional orbit labels"], "precision": T["tolerance"]}
            wrong = [k for k, v in want.items() if b.get(k) is not v]
            if wrong or b.get("return_parameters") is not rp:
                bad.append("_get_wyckoff_sets is given wrong %s" % (wrong or ["return_parameters"]))
        rep.add(Ob(id="getters.get_wyckoff_sets_conventional[return_parameters=%s]-uses-conventional-system-normalised-letters-orbits-group-tolerance" % rp,
                   status="proved" if not bad else "refuted", backend="pyvc", kind="vc", func=P + "get_wyckoff_sets_conventional", detail="; ".join(bad)[:500]))
    # per-atom getters: the stored field, computed on demand
    for g, field, trigger in (("get_wyckoff_letters_primitive", "_primitive_wyckoff_letters", "get_primitive_system"), ("get_equivalent_atoms_primitive", "_primitive_equivalent_atoms", "get_primitive_system"),
                              ("get_wyckoff_letters_conventional", "_conventional_wyckoff_letters", "get_conventional_system"),
                              # the orbit labels of the conventional atoms are spglib's: the applied normalizer moves atoms but keeps their order (C05 frame)
                              ("get_equivalent_atoms_conventional", "_spglib_equivalent_atoms_conventional", "_get_spglib_equivalent_atoms_conventional")):
        tok = Opaque("stored " + field)
        fired = []

        def trig(it, st, bound, site, fired=fired, field=field, tok=tok):
            fired.append(1)
            bound[list(bound.keys())[0]]._f[field] = tok

        oc1, _ = run(g, {}, {field: tok})
        oc2, _ = run(g, {P + trigger: trig}, {field: None})
        ok = len(oc1) == 1 and oc1[0][0] == "return" and oc1[0][1] is tok and len(oc2) == 1 and oc2[0][0] == "return" and oc2[0][1] is tok and len(fired) == 1
        rep.add(Ob(id="getters.%s-returns-the-stored-field-computing-it-on-demand" % g, status="proved" if ok else "refuted", backend="pyvc", kind="vc", func=P + g))
