"""shared harness for the symmetry properties: running SymmetryAnalyzer._find_wyckoff_ground_state from its real source"""
from __future__ import annotations

import itertools

import numpy as np
import z3

from engine import contexts, tabvc
from engine.aseshim import SymAtoms, sym_cell
from engine.common import Ob
from engine.pyvc import Explorer, Interp, SR, sreal, z3num

REL = "matid/symmetry/symmetryanalyzer.py"
ALPHABET = "abcdefghijklmnopqrstuvwxyzA"


def letters_of(sg):
    INFO, WY, NZ = tabvc.load_tables()
    return sorted((k for k in WY[sg] if k != "translations"), key=ALPHABET.index)


def occupancies(sg, max_pairs=6):
    """bounded family of occupancy patterns: every single letter; pairs of letters with two species (both assignments)"""
    L = letters_of(sg)
    occ = [[(l, 14)] for l in L]
    pairs = list(itertools.combinations(L, 2))[:max_pairs]
    for a, b in pairs:
        occ.append([(a, 14), (b, 8)])
        occ.append([(a, 8), (b, 14)])
        occ.append([(a, 14), (b, 14)])
    return occ


class CellArr(np.ndarray):
    """ase Cell as far as the analysed code looks at it: a 3x3 array with lengths() (three positive reals)"""

    def __new__(cls, arr):
        return np.asarray(arr).view(cls)

    def lengths(self):
        from engine.pyvc import cur
        st = cur()
        if "cell_lengths" not in st.ghost:
            ls = [sreal("cell_len%d" % k) for k in range(3)]
            for l in ls:
                st.assume(z3num(l) > 0)
            st.ghost["cell_lengths"] = np.array(ls, dtype=object)
        return st.ghost["cell_lengths"]


class StdSystem:
    """spglib's standardised system as seen by _find_wyckoff_ground_state: symbolic scaled positions, fixed species"""

    def __init__(self, numbers, prefix="s"):
        self.numbers = np.array(numbers)
        n = len(numbers)
        self.scaled = np.empty((n, 3), dtype=object)
        for i in range(n):
            for k in range(3):
                self.scaled[i, k] = sreal("%s%d%d" % (prefix, i, k))
        self.cell = CellArr(sym_cell("c"))
        self.set_calls = []
        self.is_copy = False
        self.origin = None

    def get_atomic_numbers(self):
        return self.numbers.copy()

    def get_scaled_positions(self):
        return self.scaled.copy()

    def copy(self):
        c = StdSystem.__new__(StdSystem)
        c.numbers, c.scaled, c.cell, c.set_calls, c.is_copy, c.origin = self.numbers.copy(), self.scaled.copy(), self.cell, [], True, self
        return c

    def set_scaled_positions(self, p):
        self.set_calls.append("set_scaled_positions")
        self.scaled = np.array(p, dtype=object)

    def __len__(self):
        return len(self.numbers)

    def _len(self):
        return len(self.numbers)


def run_ground_state(sg, occ):
    """executes the real _find_wyckoff_ground_state; returns (new_system, new_letters, self_obj, input system, explorer)"""
    m = contexts.symmetry_ctx()
    f = m.get("SymmetryAnalyzer._find_wyckoff_ground_state")
    letters = np.array([l for l, z in occ])
    numbers = [z for l, z in occ]
    ex = Explorer(REL + ":SymmetryAnalyzer._find_wyckoff_ground_state")
    out = {}

    def wrapped_contract(it, st, bound, site):
        """geometry.get_wrapped_positions under its contract (proved in C20/C08): x mod 1, snapped to 0 within the precision"""
        a = np.array(bound["scaled_pos"], dtype=object)
        out = np.empty(a.shape, dtype=object)
        pr = bound["precision"]
        if isinstance(pr, np.ndarray) and pr.shape != ():
            precs = np.broadcast_to(pr, a.shape)
        else:
            precs = np.broadcast_to(np.array(pr, dtype=object), a.shape)
        for idx in np.ndindex(a.shape):
            x = a[idx]
            prec = z3num(precs[idx])
            st.ghost.setdefault("wrap_prec", []).append(prec)
            w = z3num(SR(z3num(x)) % 1)
            v = st.fresh_real("wrapped")
            st.assume(z3.Or(v == w, z3.And(v == 0, z3.Or(w < prec, 1 - w < prec))))
            st.assume(z3.Implies(z3.Or(w < prec, 1 - w < prec), v == 0))
            out[idx] = SR(v)
            st.ghost.setdefault("wrapped_of", {})[str(v)] = z3num(x)
        return out

    def thunk(st):
        it = Interp(st, contracts={"matid/geometry/geometry.py:get_wrapped_positions": wrapped_contract})
        tol = sreal("symmetry_tol")
        st.assume(z3num(tol) > 0)
        self_ = contexts.make_self(m, "SymmetryAnalyzer", {"_best_transform": None, "symmetry_tol": tol})
        system = StdSystem(numbers)
        r = it.run_func(f, [self_, sg, letters, system], {})
        out.update(self=self_, system=system, result=r, st=st)
        return r

    oc = ex.explore(thunk)
    return out, oc, ex
