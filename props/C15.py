"""C15 — the chirality flag is true exactly for the 65 Sohncke groups."""
from __future__ import annotations

import numpy as np
import z3

from engine import contexts, tabvc
from engine.common import Report, Ob, prove
from engine.npshim import NPShim, Linalg, det_term, obj
from engine.pyvc import SR, SB, sint, sreal, z3num, z3bool, cur
from engine.symcoll import SymSeq, LoopSpec
from props._util import run_fv, section

REL = "matid/symmetry/symmetryanalyzer.py"


class FloatDetLinalg(Linalg):
    """A-NP contract for np.linalg.det in floating point: |computed - exact| <= delta with delta < 1/2 (LU error bound for
    the bounded integer matrices spglib returns); NOT exactness."""

    def det(self, A):
        st = cur()
        d = st.fresh_real("fdet")
        delta = st.ghost["delta"]
        ex = det_term(obj(A))
        exr = z3.ToReal(ex) if z3.is_int(ex) else ex
        st.assume(z3.And(d - exr <= delta, exr - d <= delta))
        st.ghost.setdefault("det_calls", []).append((A, d))
        return SR(d)


class NPFloatDet(NPShim):
    linalg = FloatDetLinalg()


def run():
    rep = Report("C15")
    rep.trusted_base = ["z3", "pyvc symbolic executor", "spglib Hall database (table part)"]
    rep.assumptions = [
        "A-SPG: dataset.hall_number identifies the space group type of the input (independent of basis, supercell, orientation, atom order); spglib.get_symmetry_from_database returns all its operations: integer rotations with determinant +1 or -1",
        "A-NP: np.linalg.det returns a float within delta < 1/2 of the exact determinant (standard LU bound for bounded integer matrices); not assumed exact",
        "basis independence: det(P^-1 R P) = det R (proved as a polynomial identity below), so the set of determinants does not depend on basis/supercell/orientation/order given A-SPG",
    ]
    section(rep, "chiral.test", lambda: _test(rep))
    section(rep, "chiral.invariant", lambda: _invariant(rep))
    section(rep, "chiral.table", lambda: rep.obligations.extend(tabvc.run_family(tabvc.chiral_table_obligation, list(range(1, 231)))))
    # spglib is asked about the analysed structure with the analyzer's tolerance; the simple getters are dataset look-ups (shared section)
    from props import _sym as _symmod
    from props._util import section as _section
    _section(rep, "dataset", lambda: _symmod.dataset_section(rep))
    return rep


def _rot_seq(n, prefix="rot"):
    fs = [[z3.Function("%s_%d%d" % (prefix, i, j), z3.IntSort(), z3.IntSort()) for j in range(3)] for i in range(3)]

    def at(k):
        a = np.empty((3, 3), dtype=object)
        for i in range(3):
            for j in range(3):
                a[i, j] = SR(fs[i][j](z3num(k)))
        return a

    return SymSeq(n, at, "rotations"), fs


def _detZ(fs, q):
    g = lambda i, j: fs[i][j](q)  # noqa
    return (g(0, 0) * (g(1, 1) * g(2, 2) - g(1, 2) * g(2, 1)) - g(0, 1) * (g(1, 0) * g(2, 2) - g(1, 2) * g(2, 0))
            + g(0, 2) * (g(1, 0) * g(2, 1) - g(1, 1) * g(2, 0)))


def _test(rep):
    m = contexts.symmetry_ctx(np_shim=NPFloatDet())
    fsbox = {}

    def mk(st, it):
        n = sint("n_ops")
        st.assume(n.t >= 1)
        seq, fs = _rot_seq(n)
        fsbox["fs"] = fs
        q = z3.Int("q")
        # A-SPG: unimodular integer rotations
        st.assume(z3.ForAll([q], z3.Implies(z3.And(q >= 0, q < n.t), z3.Or(_detZ(fs, q) == 1, _detZ(fs, q) == -1))))
        delta = z3.Real("delta")
        st.assume(z3.And(delta >= 0, delta < z3.RealVal("1/2")))
        st.ghost["delta"] = delta
        self_ = contexts.make_self(m, "SymmetryAnalyzer")
        return [self_], {}, {"n": n, "fs": fs, "seq": seq}

    HALL = object()

    def ds_contract(it, st, bound, site):
        # the operations reported for the given cell: some sub-list of the group's operations that depends on the cell in which the crystal
        # is presented (in a supercell whose lattice is not invariant under the whole point group the others are missing) - A-SPG says nothing
        # more about them, so they are an unrelated sequence of unimodular matrices here
        n2 = sint("n_ops_of_the_given_cell")
        st.assume(n2.t >= 1)
        seq2, fs2 = _rot_seq(n2, "cellrot")

        class DS:
            hall_number = HALL
            rotations = seq2
            translations = None

        return DS

    class SpglibShim:
        """A-SPG: get_symmetry_from_database(hall_number) = all operations of that space group type in its standard setting"""

        @staticmethod
        def get_symmetry_from_database(h):
            st = cur()
            st.prove("call[spglib.get_symmetry_from_database].pre.argument-is-the-detected-hall-number", z3.BoolVal(h is HALL))
            return {"rotations": st.ghost["seq"], "translations": None}

    m.globals["spglib"] = SpglibShim

    def mk2(st, it):
        a, k, c = mk(st, it)
        st.ghost["seq"] = c["seq"]
        return a, k, c

    def inv(st, env, k, old):
        q = z3.Int("q")
        fs = fsbox["fs"]
        return [("no-improper-operation-so-far", z3.ForAll([q], z3.Implies(z3.And(q >= 0, q < k.t), _detZ(fs, q) != -1)))]

    def havoc(st, env, old):
        for nm in ("rotation", "determinant"):
            env.vars.pop(nm, None)

    def post(st, ctx, r):
        q = z3.Int("q")
        fs, n = ctx["fs"], ctx["n"]
        allproper = z3.ForAll([q], z3.Implies(z3.And(q >= 0, q < n.t), _detZ(fs, q) != -1))
        st.prove("result-is-bool", z3.BoolVal(isinstance(r, (bool, SB))))
        st.prove("chiral-iff-no-improper-operation", z3bool(r) == allproper)

    run_fv(rep, "chiral.test.", m, "SymmetryAnalyzer.get_is_chiral", mk2, post,
           contracts={REL + ":SymmetryAnalyzer.get_symmetry_dataset": ds_contract},
           loops={("SymmetryAnalyzer.get_is_chiral", 1): LoopSpec(inv, havoc, name="rotations-loop")})


def _invariant(rep):
    A = [[z3.Real("a%d%d" % (i, j)) for j in range(3)] for i in range(3)]
    B = [[z3.Real("b%d%d" % (i, j)) for j in range(3)] for i in range(3)]

    def det(M):
        return (M[0][0] * (M[1][1] * M[2][2] - M[1][2] * M[2][1]) - M[0][1] * (M[1][0] * M[2][2] - M[1][2] * M[2][0])
                + M[0][2] * (M[1][0] * M[2][1] - M[1][1] * M[2][0]))

    AB = [[sum(A[i][k] * B[k][j] for k in range(3)) for j in range(3)] for i in range(3)]
    rep.add(prove("chiral.invariant.det-multiplicative", [], det(AB) == det(A) * det(B), func=REL + ":SymmetryAnalyzer.get_is_chiral", timeout_ms=60000))
    dP, dPi, dR = z3.Reals("dP dPi dR")
    rep.add(prove("chiral.invariant.conjugation", [dP * dPi == 1], dPi * dR * dP == dR, func=REL + ":SymmetryAnalyzer.get_is_chiral"))


def replay(ob):
    """Achiral and chiral crystals from the Hall database in unimodularly sheared bases / supercells through the real analyzer."""
    from props import table_replay as tr
    import itertools

    rng = np.random.default_rng(11)
    bad = []
    # (115-120, 189, 190: achiral groups whose last tabulated operation is proper; 6, 8, 25: whose second one is improper)
    # 222, 224: groups whose first 24 tabulated operations are all proper
    groups = [115, 189, 6, 8, 25, 2, 14, 62, 221, 1, 4, 19, 75, 92, 143, 152, 195, 198, 119, 190, 224, 222]
    w = ob.witness or {}
    if "sg" in w:
        groups = [w["sg"]] + groups
    # every space group type once (general-position probes)
    for sg in range(1, 231):
        try:
            a = tr.analyze(tr.pinned_probe(sg, npin=2))
            if int(a.get_space_group_number()) == sg and bool(a.get_is_chiral()) != tabvc.is_sohncke(sg):
                bad.append({"sg": sg, "get_is_chiral": bool(a.get_is_chiral()), "sohncke": tabvc.is_sohncke(sg)})
        except Exception as e:  # noqa
            bad.append((sg, "%s: %s" % (type(e).__name__, e)))
        if len(bad) >= 3:
            return {"reproduced": True, "failing_inputs": bad[:3]}
    if bad:
        return {"reproduced": True, "failing_inputs": bad[:3]}
    # one analyzer used for several crystals in turn: nothing of the previous crystal may survive set_system
    try:
        a = tr.analyze(tr.pinned_probe(1, npin=2))
        a.get_is_chiral()
        for sg in (2, 14, 62, 4, 19):
            a.set_system(tr.pinned_probe(sg, npin=2))
            if int(a.get_space_group_number()) == sg and bool(a.get_is_chiral()) != tabvc.is_sohncke(sg):
                bad.append({"sg": sg, "presentation": "analysed with an analyzer that had analysed another crystal before (set_system)", "get_is_chiral": bool(a.get_is_chiral()),
                            "sohncke": tabvc.is_sohncke(sg)})
            elif int(a.get_space_group_number()) != sg:
                bad.append({"sg": sg, "presentation": "set_system on a used analyzer", "observed": "space group %d reported" % int(a.get_space_group_number())})
    except Exception as e:  # noqa
        bad.append(("set_system", "%s: %s" % (type(e).__name__, e)))
    if bad:
        return {"reproduced": True, "failing_inputs": bad[:3]}
    # supercells whose lattice is not invariant under the whole point group (the operations spglib lists for such a cell are a sub-list)
    from ase.build import make_supercell
    for sg in ([w["sg"]] if "sg" in w else []) + [81, 6, 111, 156, 174, 75, 143, 25]:
        base = tr.pinned_probe(sg, npin=1)
        want = tabvc.is_sohncke(sg)
        for P in ([[2, 0, 0], [0, 1, 0], [0, 0, 1]], [[1, 0, 0], [0, 2, 0], [0, 0, 1]], [[1, 0, 0], [0, 3, 0], [0, 1, 1]], [[1, 0, 0], [0, 1, 0], [0, 0, 2]], [[2, 1, 0], [0, 1, 0], [0, 0, 1]]):
            try:
                at = make_supercell(base, P)
                if len(at) > 260:
                    continue
                a = tr.analyze(at)
                if int(a.get_space_group_number()) != sg:
                    continue
                got = bool(a.get_is_chiral())
            except Exception as e:  # noqa
                bad.append((sg, P, "%s: %s" % (type(e).__name__, e)))
                continue
            if got != want:
                bad.append({"sg": sg, "supercell": P, "get_is_chiral": got, "sohncke": want})
        if len(bad) >= 3:
            return {"reproduced": True, "failing_inputs": bad[:3]}
    for sg in groups:
        at0 = tr.pinned_probe(sg, npin=2)
        want = tabvc.is_sohncke(sg)
        for trial in range(14):
            U = np.eye(3, dtype=int)
            for _ in range(trial % 7):
                i, j = rng.choice(3, size=2, replace=False)
                E = np.eye(3, dtype=int)
                E[i, j] = rng.choice([-3, -2, -1, 1, 2, 3])
                U = U @ E
            at = at0.copy()
            at.set_cell(U @ at0.get_cell(), scale_atoms=False)
            at.wrap()
            try:
                a = tr.analyze(at)
                if int(a.get_space_group_number()) != sg:
                    continue
                got = bool(a.get_is_chiral())
            except Exception as e:  # noqa
                bad.append((sg, U.tolist(), "%s: %s" % (type(e).__name__, e)))
                continue
            if got != want:
                bad.append({"sg": sg, "basis_change": U.tolist(), "get_is_chiral": got, "sohncke": want})
        if len(bad) >= 3:
            break
    return {"reproduced": bool(bad), "failing_inputs": bad[:3]}


def replay_file(rp):
    return replay(Ob(id=rp["obligation"], witness=rp.get("witness")))
