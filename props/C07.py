"""C07 — Wyckoff sets are exactly the symmetry orbits of the conventional cell (MatID's own part)."""
from __future__ import annotations

import itertools

import numpy as np
import z3

from engine import contexts, tabvc
from engine.common import Report, Ob, func_source_info
from engine.pyvc import Explorer, Interp
from props import _sym
from props._util import section, sections_parallel

REL = _sym.REL
FN = REL + ":SymmetryAnalyzer._get_wyckoff_sets"


def _partitions(n):
    """all labelings of n atoms by equivalence class ids (restricted growth strings), ids then scrambled"""
    def rec(prefix, mx):
        if len(prefix) == n:
            yield list(prefix)
            return
        for v in range(mx + 2):
            yield from rec(prefix + [v], max(mx, v))
    yield from rec([0], 0)


def _sets(rep):
    """_get_wyckoff_sets(return_parameters=False) executed from its real source for every equivalence labeling of up to 5 atoms
    (bounded: n <= 5; labels scrambled so that they are not 0..k-1): partition, multiplicity, letter/element of the members"""
    m = contexts.symmetry_ctx()
    f = m.get("SymmetryAnalyzer._get_wyckoff_sets")
    sg = 47
    letters_pool = ["a", "i", "q", "A", "b"]
    elem_pool = [(14, "Si"), (8, "O"), (26, "Fe"), (1, "H"), (6, "C")]
    bad = []
    count = 0
    for n in range(1, 6):
        for lab in _partitions(n):
            k = max(lab) + 1
            ids = [(7 * c + 3) % 11 + 2 * c for c in range(k)]  # scrambled, distinct class ids
            eq = np.array([ids[c] for c in lab])
            let = np.array([letters_pool[c] for c in lab])
            nums = np.array([elem_pool[c][0] for c in lab])
            syms = [elem_pool[c][1] for c in lab]

            class Sys:
                def get_cell(self):
                    return np.eye(3)

                def get_chemical_symbols(self):
                    return list(syms)

                def get_atomic_numbers(self):
                    return nums.copy()

                def get_scaled_positions(self):
                    return np.zeros((n, 3))

            ex = Explorer(FN)

            def thunk(st):
                it = Interp(st)
                return it.run_func(f, [contexts.make_self(m, "SymmetryAnalyzer"), Sys(), sg, let, eq], {"precision": 0.1, "return_parameters": False})

            oc = ex.explore(thunk)
            count += 1
            if len(oc) != 1 or oc[0][0] != "return":
                bad.append((lab, repr(oc[0][1])[:100]))
                continue
            sets = oc[0][1]
            seen = []
            ok = True
            for ws in sets:
                idx = list(ws.indices)
                seen += idx
                ok &= ws.multiplicity == len(idx) and len(idx) > 0
                ok &= all(str(let[i]) == ws.wyckoff_letter and syms[i] == ws.element and int(nums[i]) == ws.atomic_number for i in idx)
                ok &= len({lab[i] for i in idx}) == 1 and len(idx) == lab.count(lab[idx[0]])
                ok &= ws.space_group == sg and ws.x is None and ws.y is None and ws.z is None
            ok &= sorted(seen) == list(range(n)) and len(sets) == k
            keys = [(s.wyckoff_letter, s.atomic_number) for s in sets]
            ok &= keys == sorted(keys)
            if not ok:
                bad.append((lab, "sets %s" % [(s.wyckoff_letter, s.element, s.indices) for s in sets]))
    rep.add(Ob(id="sets.partition-multiplicity-letter-element", status="proved" if not bad else "refuted", backend="exact-evaluation(bounded n<=5)", kind="bounded",
               func=FN, detail="%d labelings; failures %s" % (count, bad[:2])))
    rep.bounded.append({"function": FN, "bound": "atoms <= 5, every equivalence labeling (%d cases)" % count, "status": "passed" if not bad else "failed"})
    rep.functions.append(func_source_info(REL, "SymmetryAnalyzer._get_wyckoff_sets"))


def _setsproof(rep):
    """set formation proved for every number of atoms and orbits: loop invariants over a heap of WyckoffSet objects"""
    import collections
    from contracts import wyckoff_sets as WSC
    from props._util import run_fv
    m = contexts.symmetry_ctx()
    old = {k: m.globals.get(k) for k in ("WYCKOFF_SETS", "WyckoffSet", "OrderedDict")}
    m.globals["WYCKOFF_SETS"] = WSC.TablesShim()
    m.globals["WyckoffSet"] = WSC.wset_factory
    m.globals["OrderedDict"] = WSC.SetsMap
    try:
        run_fv(rep, "setsproof.", m, "SymmetryAnalyzer._get_wyckoff_sets", WSC.mk, WSC.post, loops=WSC.LOOPS,
               builtins_={"str": lambda x: x, "attrgetter": lambda *a: None})
    finally:
        for k, v in old.items():
            m.globals[k] = v


def _maps(rep):
    from props import C12
    C12._maps(rep)


def run():
    rep = Report("C07")
    rep.trusted_base = ["pyvc executor", "z3", "spglib Hall database (table lemmas)"]
    rep.assumptions = [
        "A-SPG: crystallographic_orbits are the orbits of the detected group; wyckoffs are the ITA letters in the Hall setting; mappings are homogeneous",
        "orbit closure under independently obtained operations = A-SPG + table lemma 'normalizer maps the group onto itself' (so orbits are mapped to orbits)",
        "set formation (_get_wyckoff_sets, return_parameters=False) is proved for every number of atoms and orbits under A-NP(np.unique) and A-SPG(letters/elements constant on orbits); the exhaustive execution for up to 5 atoms is kept as a bounded cross-check of the executor against the same contract",
    ]
    sections_parallel(rep, [("sets", _sets), ("maps", _maps), ("setsproof", _setsproof)])
    # letters after the normalizer: tabulated permutation maps Wyckoff positions onto Wyckoff positions (exhaustive) and the code applies that permutation
    nz = tabvc.run_family(tabvc.normalizer_obligations, list(range(1, 231)))
    rep.obligations.extend(o for o in nz if o.id.split("[")[0] in ("nz.perm", "nz.perm-wf", "nz.normalises"))
    from props import C05
    c5 = tabvc.run_family(C05._group_obligations, list(range(1, 231)))
    # letters are permuted by an entry of the group's table AND the atoms are moved by the very same entry (A.x + t): otherwise the letters
    # would belong to other positions than the ones returned
    rep.obligations.extend(o for o in c5 if o.id.split("[")[0] in ("apply.letters", "apply.member", "apply.affine"))
    rep.functions.append(func_source_info(REL, "SymmetryAnalyzer._find_wyckoff_ground_state"))
    # spglib is asked about the analysed structure with the analyzer's tolerance; the simple getters are dataset look-ups (shared section)
    from props import _sym as _symmod
    from props._util import section as _section
    _section(rep, "dataset", lambda: _symmod.dataset_section(rep))
    _section(rep, "getters", lambda: _symmod.public_getters_section(rep))
    return rep


def replay_key(ob):
    return str((ob.witness or {}).get("sg"))


def replay(ob):
    """native: sets of the conventional system vs orbits under spglib's operations and spglib's independent letter assignment"""
    from props import table_replay as tr
    import spglib

    w = ob.witness or {}
    groups = ([w["sg"]] if "sg" in w else []) + [47, 88, 225, 62, 194, 221, 14, 227, 136, 2]
    fails = []
    for sg in groups[:7]:
        L = _sym.letters_of(sg)
        import itertools
        # single letters, and pairs of the first letters with both species assignments (the ranking by species decides which table entry is applied)
        # (free parameters differ from the ones of the pinning general position, so that no two atoms coincide)
        P1, P2 = {"x": 0.2113, "y": 0.0687, "z": 0.3391}, {"x": 0.0641, "y": 0.3727, "z": 0.1583}
        extras = [[(L[0], 29, P1)], [(L[min(1, len(L) - 1)], 29, P1)]]
        for li, lj in itertools.combinations(L[:4], 2):
            extras.append([(li, 29, P1), (lj, 47, P2)])
            extras.append([(li, 47, P1), (lj, 29, P2)])
        INFO0, WY0, NZ0 = tabvc.load_tables()
        if "sg" in w and sg == w["sg"]:
            extras += [[(l, 29, P1)] for l in L[2:-1]]
            # a low letter decides which normalizer is applied, a later letter shows whether its relabelling is right
            for li in L[:4]:
                for lk in L[4:-1][:10]:
                    extras.append([(li, 47, P1), (lk, 29, P2)])
                    extras.append([(li, 29, P1), (lk, 47, P2)])
        for lf in [l for l in L[:-1] if WY0[sg][l].get("variables")][:3]:
            extras.append([(lf, 29, P1), (lf, 29, P2)])
        # every occupancy as given, and the single-letter ones also as an anisotropic supercell (a cell whose lattice has lost point operations)
        freeL = [l for l in L[:-1] if WY0[sg][l].get("variables")][:3]
        cases = [(e, None) for e in extras] + [([(L[0], 11, None), (l, 17, P1)], rp) for l in freeL for rp in ((2, 1, 1), (1, 2, 3))]
        for extra, repeat in cases:
            try:
                at = tr.pinned_probe(sg, extra, npin=1) if repeat is None else tr.probe(sg, extra).repeat(repeat)
                if len(at) > 220:
                    continue
                a = tr.analyze(at)
                conv = a.get_conventional_system()
                if int(a.get_space_group_number()) != sg:
                    continue
                sets = a.get_wyckoff_sets_conventional(False)
                n = len(conv)
                idx_all = sorted(i for s in sets for i in s.indices)
                bad = []
                if idx_all != list(range(n)):
                    bad.append("sets do not partition the atoms")
                sym = conv.get_chemical_symbols()
                ds = spglib.get_symmetry_dataset((conv.get_cell(), conv.get_scaled_positions(), conv.get_atomic_numbers()), 1e-3)
                sp = conv.get_scaled_positions()
                std = np.abs(np.array(ds.transformation_matrix) - np.eye(3)).max() < 1e-6 and np.abs((np.array(ds.origin_shift) + 0.5) % 1.0 - 0.5).max() < 1e-6
                for s in sets:
                    if s.multiplicity != len(s.indices):
                        bad.append("multiplicity != size")
                    if any(sym[i] != s.element for i in s.indices):
                        bad.append("mixed elements in a set")
                    # orbit of the first atom under the independently obtained operations
                    p0 = sp[s.indices[0]]
                    orb = set()
                    for R, t in zip(ds.rotations, ds.translations):
                        q = (R @ p0 + t) % 1.0
                        d = np.abs(((sp - q) + 0.5) % 1.0 - 0.5).max(axis=1)
                        orb.add(int(np.argmin(d)))
                    if orb != set(s.indices):
                        bad.append("set %s %s is not the orbit %s of its first atom" % (s.wyckoff_letter, sorted(s.indices), sorted(orb)))
                    if std and any(ds.wyckoffs[i] != s.wyckoff_letter for i in s.indices):
                        bad.append("letter %s differs from the independent assignment %s" % (s.wyckoff_letter, ds.wyckoffs[s.indices[0]]))
                if bad:
                    fails.append({"sg": sg, "occupied": [e[0] for e in extra], "observed": bad[:4]})
            except Exception as e:  # noqa
                fails.append({"sg": sg, "observed": "%s: %s" % (type(e).__name__, str(e)[:200])})
            if len(fails) >= 3:
                return {"reproduced": True, "failing_inputs": fails}
    return {"reproduced": bool(fails), "failing_inputs": fails}


def replay_file(rp):
    return replay(Ob(id=rp["obligation"], witness=rp.get("witness")))
