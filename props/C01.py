"""C01 — SBC returns a well-formed, disjoint, connected set of clusters (cluster-algebra pipeline)."""
from __future__ import annotations

import z3

from engine.common import Report, Ob
from props._util import run_fv, section, sections_parallel

REL = "matid/clustering/sbc.py"


def run():
    rep = Report("C01")
    rep.trusted_base = ["z3 (quantified arrays/EPR-style formulas)", "pyvc symbolic executor"]
    sections_parallel(rep, [("localize", _localize), ("clean", _clean), ("merge", _merge), ("cluster.init", _init), ("main", _main), ("mergeloop", _mergeloop), ("getdistances", _getdistances)])
    return rep


def _localize(rep):
    from contracts import sbc_localize as L
    from contracts.sbc_model import sbc_ctx

    run_fv(rep, "localize.", sbc_ctx(), "SBC._localize_clusters", L.mk, L.post, loops=L.LOOPS)


def _clean(rep):
    from contracts import sbc_clean as C
    from contracts.sbc_model import sbc_ctx

    run_fv(rep, "clean.", sbc_ctx(), "SBC._clean_clusters", C.mk, C.post, loops=C.LOOPS, contracts=C.CONTRACTS)


def _merge(rep):
    """inner function merge of _merge_clusters: well-formedness of the merged cluster (C03 lemma: only same-species atoms join)"""
    from contracts import cluster_c13 as K
    from contracts.sbc_model import sbc_ctx
    from engine.common import Report as _R

    tmp = _R("tmp")
    run_fv(tmp, "merge.", sbc_ctx(), "SBC._merge_clusters.merge", K.mk_merge, K.post_merge)
    for ob in tmp.obligations:
        if "(C13)" not in ob.id:
            rep.add(ob)
    for f in tmp.functions:
        rep.functions.append(f)


def _init(rep):
    from contracts import cluster_c13 as K
    from contracts.sbc_model import cluster_ctx
    run_fv(rep, "cluster.init.", cluster_ctx(), "Cluster.__init__", K.mk_init, K.post_init)


def _main(rep):
    """get_clusters: set-up on a copy, main loop (invariant: clusters built so far are well-formed; the set of unvisited atoms strictly shrinks),
    then the pipeline merge -> localize -> clean by their contracts; ValueError path; input frame; seeded RNG"""
    from contracts import sbc_main as M
    from contracts.sbc_model import sbc_ctx
    m = sbc_ctx()
    old = {k: m.globals.get(k) for k in ("np", "PeriodicFinder")}
    m.globals["np"] = M.NPs2()
    m.globals["PeriodicFinder"] = M.PF

    def mk(st, it):
        a, k, c = M.mk(st, it)
        st.ghost["ctx"] = c
        return a, k, c

    try:
        M.PHASE["setup"] = True
        run_fv(rep, "main.setup.", m, "SBC.get_clusters", mk, M.post, loops=M.LOOPS, contracts=M.CONTRACTS, raises=M.raises, max_paths=20000, expect_raise=True)
        M.PHASE["setup"] = False
        run_fv(rep, "main.", m, "SBC.get_clusters", mk, M.post, loops=M.LOOPS, contracts=M.CONTRACTS, raises=M.raises, max_paths=20000)
    finally:
        M.PHASE["setup"] = False
        for k, v in old.items():
            if v is None:
                m.globals.pop(k, None)
            else:
                m.globals[k] = v


def _mergeloop(rep):
    """_merge_clusters: the while loop keeps every cluster (isolated or pending) well-formed; merged clusters come from the contract of the inner merge"""
    from contracts import sbc_mergeloop as ML
    from contracts.sbc_model import sbc_ctx
    run_fv(rep, "mergeloop.", sbc_ctx(), "SBC._merge_clusters", ML.mk, ML.post, loops=ML.LOOPS, contracts=ML.CONTRACTS, max_paths=5000)



def _getdistances(rep):
    """the distance tables handed to the callees are those of the periodic search of the structure (contract of get_distances, shared with C10)"""
    from props import C10
    C10._getdistances(rep)
    C10._wrapper(rep)

def replay_key(ob):
    return ob.id.split(".")[0]


def replay(ob):
    from props import C01_native as N

    sec = ob.id.split(".")[0]
    fails = []
    if sec == "audit":
        fails = N.localize() or N.clean()
    if sec == "localize":
        fails = N.localize()
    elif sec in ("clean", "cluster"):
        fails = N.clean()
    if not fails:
        fails = N.end_to_end()
    if not fails and sec in ("main", "audit", "mergeloop", "merge"):
        fails = N.random_gases()
    return {"reproduced": bool(fails), "failing_inputs": fails[:3], "section": sec}


def replay_file(rp):
    return replay(Ob(id=rp["obligation"]))
