"""C01 — SBC returns a well-formed, disjoint, connected set of clusters (cluster-algebra pipeline)."""
from __future__ import annotations

import z3

from engine.common import Report, Ob
from props._util import run_fv, section

REL = "matid/clustering/sbc.py"


def run():
    rep = Report("C01")
    rep.trusted_base = ["z3 (quantified arrays/EPR-style formulas)", "pyvc symbolic executor"]
    section(rep, "localize", lambda: _localize(rep))
    return rep


def _localize(rep):
    from contracts import sbc_localize as L
    from contracts.sbc_model import sbc_ctx

    run_fv(rep, "localize.", sbc_ctx(), "SBC._localize_clusters", L.mk, L.post, loops=L.LOOPS)
