"""C14 — built-in space-group tables agree with the International Tables (exhaustive over the tables)."""
from engine import tabvc
from engine.common import Report, Ob, func_source_info

SGS = list(range(1, 231))


def run():
    rep = Report("C14")
    rep.trusted_base = ["spglib Hall-symbol database (default setting = first Hall number per space group) is the reference for ITA",
                        "rationalisation of 8-decimal table floats to the unique rational with denominator <= 48 within 5e-8",
                        "z3 (LRA/LIA) and Python fractions arithmetic"]
    rep.assumptions = ["A-SPGDB: spglib.get_symmetry_from_database / get_spacegroup_type are the International Tables"]
    rep.functions = [{"name": "matid/data/symmetry_data.py:SPACE_GROUP_INFO", "kind": "table (230 entries)"},
                     {"name": "matid/data/symmetry_data.py:WYCKOFF_SETS", "kind": "table (1731 positions)"},
                     {"name": "matid/data/symmetry_data.py:CHIRALITY_PRESERVING_EUCLIDEAN_NORMALIZERS", "kind": "table (982 entries)"}]
    obs = []
    obs += tabvc.run_family(tabvc.oracle_sanity, SGS)
    obs += tabvc.run_family(tabvc.info_obligations, SGS)
    obs += tabvc.run_family(tabvc.wyckoff_obligations, SGS)
    obs += tabvc.run_family(tabvc.normalizer_obligations, SGS)
    rep.obligations = obs
    rep.extra["exhaustive"] = True
    rep.extra["explanation"] = ("every entry of the three tables is one or more named obligations; ground rational identities are "
                                "decided exactly, quantified ones (all x,y,z / all metric tensors of the crystal system / "
                                "exists real parameters and integer lattice shift) by z3")
    # spglib is asked about the analysed structure with the analyzer's tolerance; the simple getters are dataset look-ups (shared section)
    from props import _sym as _symmod
    from props._util import section as _section
    _section(rep, "dataset", lambda: _symmod.dataset_section(rep))
    return rep


def replay(ob):
    from props import table_replay
    return table_replay.replay(ob)
