"""C12 — original, primitive and conventional descriptions are mutually consistent (MatID's own part)."""
from __future__ import annotations

import numpy as np
import z3

from engine import contexts, tabvc
from engine.aseshim import SymAtoms, sym_cell, sym_pbc, sym_positions, sym_int_rows
from engine.common import Report, Ob, prove, func_source_info
from engine.errors import Unsupported
from engine.larr import RowArr
from engine.npshim import NP, det_term, obj
from engine.pyvc import SR, sint, z3num, z3bool, cur
from engine.symcoll import Opaque, LoopSpec
from props._util import run_fv, section, sections_parallel

REL = "matid/symmetry/symmetryanalyzer.py"
I = z3.IntSort()


class UniqueIdx(RowArr):
    pass


def _unique(self, return_index=False, **k):
    """A-NP: np.unique(mapping, return_index=True) for a mapping onto {0..P-1}: idx[k] = first index with mapping == k"""
    st = cur()
    P = SR(st.fresh_int("n_classes"))
    first = z3.Function("first_index_%d" % st.n, I, I)
    f = self.f
    q, j = z3.Ints("q!u j!u")
    st.assume(z3.And(P.t >= 1, P.t <= z3num(self.n)))
    st.assume(z3.ForAll([q], z3.Implies(z3.And(q >= 0, q < P.t), z3.And(first(q) >= 0, first(q) < z3num(self.n), z3num(f(SR(first(q)))) == q))))
    st.assume(z3.ForAll([q, j], z3.Implies(z3.And(q >= 0, q < P.t, j >= 0, j < first(q)), z3num(f(SR(j))) != q)))
    idx = RowArr(P, lambda k_: SR(first(z3num(k_))), ())
    idx.first = first
    st.ghost["unique"] = (P, first, self)
    vals = Opaque("unique-values")
    return (vals, idx) if return_index else vals


RowArr._unique = _unique


def run():
    rep = Report("C12")
    rep.trusted_base = ["z3", "pyvc symbolic executor", "spglib Hall database (lattice lemma)"]
    rep.assumptions = [
        "A-SPG: std_mapping_to_primitive maps the conventional atoms onto {0..P-1} (surjective), each primitive atom having exactly k pre-images; species/letters/orbits are constant on its classes",
        "A-NP: np.unique(return_index) returns first occurrences; fancy indexing composes",
        "A-ASE: Atoms(scaled_positions, cell) places atoms at scaled.cell; wrap() changes scaled coordinates of periodic directions by integers",
        "'is itself primitive', 'same space group' of the primitive system rest on spglib (not covered beyond the lattice lemma)",
    ]
    obs, mats = tabvc.primitive_obligations()
    rep.obligations.extend(obs)
    rep.obligations.extend(tabvc.run_family(tabvc.primitive_lattice_obligation, [(sg, mats) for sg in range(1, 231)]))
    sections_parallel(rep, [("prim", _prim), ("maps", _maps), ("letters_original", _letters_original)])
    # volume: det(P^T C) = det P * det C
    A = [[z3.Real("p%d%d" % (i, j)) for j in range(3)] for i in range(3)]
    C = [[z3.Real("c%d%d" % (i, j)) for j in range(3)] for i in range(3)]

    def det(M):
        return (M[0][0] * (M[1][1] * M[2][2] - M[1][2] * M[2][1]) - M[0][1] * (M[1][0] * M[2][2] - M[1][2] * M[2][0]) + M[0][2] * (M[1][0] * M[2][1] - M[1][1] * M[2][0]))

    PtC = [[sum(A[k][i] * C[k][j] for k in range(3)) for j in range(3)] for i in range(3)]
    rep.add(prove("prim.volume-ratio", [], det(PtC) == det(A) * det(C), func=REL + ":SymmetryAnalyzer._get_primitive_system", timeout_ms=60000))
    # spglib is asked about the analysed structure with the analyzer's tolerance; the simple getters are dataset look-ups (shared section)
    from props import _sym as _symmod
    from props._util import section as _section
    _section(rep, "dataset", lambda: _symmod.dataset_section(rep))
    _section(rep, "getters", lambda: _symmod.public_getters_section(rep))
    return rep


def _prim(rep):
    m = contexts.symmetry_ctx()
    obs, mats = tabvc.primitive_obligations()
    for cent in ("P", "A", "C", "R", "I", "F"):
        def mk(st, it, cent=cent):
            n = sint("n_conv")
            st.assume(n.t >= 1)
            cell = sym_cell("c")
            st.assume(det_term(cell) != 0)
            vals = (2, 0, 0, "3/10", 2, 0, "1/10", "1/5", 3)
            for kk in range(9):
                st.hint(z3.Real("c%d%d" % (kk // 3, kk % 3)) == z3.RealVal(str(vals[kk])))
            conv = SymAtoms(n, cell, sym_pbc("pbc"), sym_positions("pos", n), sym_int_rows("Z", n))
            wy = sym_int_rows("letter", n)
            eq = sym_int_rows("orbit", n)
            mapping = sym_int_rows("std_map", n)

            class DS:
                std_mapping_to_primitive = mapping

            self_ = contexts.make_self(m, "SymmetryAnalyzer", {"_symmetry_dataset": DS})
            it.exact_rationals = True
            return [self_, conv, wy, eq, cent + "m-3m"], {}, {"conv": conv, "wy": wy, "eq": eq, "n": n, "cell0": cell.copy(), "mapping": mapping}

        def post(st, ctx, r, cent=cent):
            conv, wy, eq = ctx["conv"], ctx["wy"], ctx["eq"]
            st.prove("returns-triple", z3.BoolVal(isinstance(r, tuple) and len(r) == 3))
            ps, pw, pe = r
            st.prove("input-untouched", z3.BoolVal(conv.mutations == []))
            if cent == "P":
                st.prove("P.conventional-is-primitive", z3.BoolVal(ps is conv and pw is wy and pe is eq))
                return
            uq = st.ghost.get("unique")
            st.prove("one-representative-per-primitive-atom", z3.BoolVal(uq is not None and uq[2].f is ctx["mapping"].f))
            if uq is None:
                return
            P, first, _ = uq
            k = sint("k_generic")
            st.assume(z3.And(k.t >= 0, k.t < P.t))
            src = SR(first(k.t))
            # cell = P_c^T . conventional cell
            Pm = mats[cent]
            for i in range(3):
                for j in range(3):
                    want = z3.Sum([z3.RealVal(str(Pm[q][i])) * z3num(ctx["cell0"][q, j]) for q in range(3)])
                    st.prove("cell[%d,%d]" % (i, j), z3num(ps.cell[i, j]) == want)
            st.prove("atom-count-is-number-of-classes", z3num(ps.n) == P.t)
            for kk in range(3):
                st.prove("pbc[%d]" % kk, z3bool(ps.pbc[kk]) == z3bool(conv.pbc[kk]))
            # per-atom arrays: one entry per primitive atom, all taken at the same representative
            for nm, arr, base in (("letters", pw, wy), ("orbits", pe, eq), ("species", ps.numbers, conv.numbers)):
                st.prove("%s.one-entry-per-atom" % nm, z3num(arr.n) == P.t if hasattr(arr, "n") else z3.BoolVal(False))
                if hasattr(arr, "row"):
                    st.prove("%s.of-the-representative" % nm, z3num(arr.row(k)) == z3num(base.row(src)))
            # scaled positions handed to Atoms(...): the representative's position in the primitive basis, conv_pos . inv(prim_cell)
            Y = NP.linalg.inv(ps.cell)  # memoised: the code's own inverse
            sc = getattr(ps, "scaled_input", None)
            st.prove("built-from-scaled-positions", z3.BoolVal(sc is not None))
            if sc is not None:
                oldp = conv.positions.row(src)
                for q in range(3):
                    st.prove("fractional-coordinate[%d]" % q, z3num(sc.row(k)[q]) == z3.Sum([z3num(oldp[i_]) * z3num(Y[i_, q]) for i_ in range(3)]))
            st.prove("wrapped-into-the-primitive-cell", z3.BoolVal("wrap" in ps.mutations))

        run_fv(rep, "prim[%s]." % cent, m, "SymmetryAnalyzer._get_primitive_system", mk, post)


def _maps(rep):
    """index maps: conventional letters/orbits = primitive[std_mapping]; primitive = original[first occurrence of mapping_to_primitive]:
    with A-SPG homogeneity every conventional atom carries the letter/orbit of its class"""
    m = contexts.symmetry_ctx()
    LET = z3.Function("class_letter", I, I)
    for what, getter, orig_field in (("letters", "_get_spglib_wyckoff_letters_conventional", "wyckoffs"), ("orbits", "_get_spglib_equivalent_atoms_conventional", "crystallographic_orbits")):
        def mk(st, it, orig_field=orig_field):
            N, n = sint("n_orig"), sint("n_conv")
            st.assume(z3.And(N.t >= 1, n.t >= 1))
            mp = sym_int_rows("mapping_to_primitive", N)
            sm = sym_int_rows("std_mapping_to_primitive", n)
            orig = RowArr(N, lambda j: SR(LET(z3num(mp.row(j)))), ())  # A-SPG: constant on the classes of mapping_to_primitive

            class DS:
                mapping_to_primitive = mp
                std_mapping_to_primitive = sm
                wyckoffs = orig
                crystallographic_orbits = orig
                # spglib's equivalent_atoms refer to the symmetry of the *given* cell (not class-homogeneous for supercells): unconstrained
                equivalent_atoms = sym_int_rows("equivalent_atoms_of_the_given_cell", N)

            q = z3.Int("q!m")
            st.ghost["DS"] = DS
            self_ = contexts.make_self(m, "SymmetryAnalyzer", {k: None for k in (
                "_spglib_wyckoff_letters_conventional", "_spglib_wyckoff_letters_primitive", "_spglib_primitive_to_original_mapping",
                "_spglib_equivalent_atoms_conventional", "_spglib_equivalent_atoms_primitive", "_symmetry_dataset")})
            return [self_], {}, {"n": n, "sm": sm, "N": N}

        def ds_contract(it, st, bound, site):
            return st.ghost["DS"]

        def post(st, ctx, r):
            n, sm = ctx["n"], ctx["sm"]
            uq = st.ghost.get("unique")
            st.prove("one-entry-per-conventional-atom", z3num(r.n) == n.t if hasattr(r, "n") else z3.BoolVal(False))
            i = sint("i_generic")
            st.assume(z3.And(i.t >= 0, i.t < n.t))
            if uq is not None:
                P = uq[0]
                st.assume(z3.And(z3num(sm.row(i)) >= 0, z3num(sm.row(i)) < P.t))  # A-SPG: both mappings onto the same {0..P-1}
            st.prove("entry-is-the-label-of-the-atoms-class", z3num(r.row(i)) == LET(z3num(sm.row(i))))

        run_fv(rep, "maps.%s." % what, m, "SymmetryAnalyzer." + getter, mk, post,
               contracts={REL + ":SymmetryAnalyzer.get_symmetry_dataset": ds_contract})


def _letters_original(rep):
    """get_wyckoff_letters_original: entry i is the letter spglib gave to original atom i, relabelled by the permutation of the applied
    normalizer - for every number of atoms and every permutation (per-iteration obligation + the array-initialisation schema of I.5)"""
    m = contexts.symmetry_ctx()
    PERM = z3.Function("applied_permutation", I, I)
    FNQ = "SymmetryAnalyzer.get_wyckoff_letters_original"

    class PermMap:
        def _getitem(self, k):
            return SR(PERM(z3num(k)))

    class Letters:
        """list the loop appends to; np.array(list) keeps the entries"""

        def __init__(self):
            self.log = []

        def append(self, v):
            self.log.append(v)

        def _state(self):
            return []

        def _as_array(self):
            return self

    def mk(st, it):
        N = sint("n_orig")
        st.assume(N.t >= 1)
        L = sym_int_rows("spglib_letter", N)
        st.ghost["L"] = L
        self_ = contexts.make_self(m, "SymmetryAnalyzer", {"_best_transform": {"permutations": PermMap()}})
        return [self_], {}, {"L": L}

    def the_list(env):
        """the list the loop fills: whatever the function calls it (the only list / log among its locals)"""
        names = [k for k, v in env.vars.items() if isinstance(v, (list, Letters))]
        if len(names) != 1:
            raise Unsupported("get_wyckoff_letters_original: expected one list among the locals, found %s" % names)
        return names[0]

    def havoc(st, env, old):
        lg = Letters()
        st.ghost["letters_log"] = lg
        env.vars[the_list(env)] = lg

    def body(st, env, k, old):
        lg = env.vars[the_list(env)]
        ok = isinstance(lg, Letters) and len(lg.log) == 1
        out = [("one-entry-appended-per-atom", z3.BoolVal(ok))]
        if ok:
            out.append(("entry-is-the-spglib-letter-relabelled-by-the-applied-permutation", z3num(lg.log[0]) == PERM(z3num(st.ghost["L"].row(k)))))
        return out

    def post(st, ctx, r):
        st.prove("returns-the-list-filled-by-the-loop", z3.BoolVal(r is st.ghost.get("letters_log")))

    run_fv(rep, "letters_original.", m, FNQ, mk, post, loops={(FNQ, 1): LoopSpec(lambda *a: [], havoc, name="atoms", body_post=body)},
           contracts={REL + ":SymmetryAnalyzer._get_spglib_wyckoff_letters_original": lambda it, st, bound, site: st.ghost["L"]})


def replay_key(ob):
    return "c12"


def replay(ob):
    from props import table_replay as tr
    fails = []
    for sg in (225, 229, 166, 167, 65, 38, 5, 139, 221, 62, 146, 216, 155, 161):
        r = tr.replay_primitive(sg)
        if r.get("reproduced"):
            fails.append(r)
        # per-atom arrays
        try:
            at = tr.pinned_probe(sg, npin=2)
            a = tr.analyze(at)
            conv, prim = a.get_conventional_system(), a.get_primitive_system()
            import collections
            for name, sysm, let, eq in (("original", at, a.get_wyckoff_letters_original(), a.get_equivalent_atoms_original()),
                                        ("conventional", conv, a.get_wyckoff_letters_conventional(), a.get_equivalent_atoms_conventional()),
                                        ("primitive", prim, a.get_wyckoff_letters_primitive(), a.get_equivalent_atoms_primitive())):
                if len(let) != len(sysm) or len(eq) != len(sysm):
                    fails.append({"sg": sg, "observed": "%s arrays have %d/%d entries for %d atoms" % (name, len(let), len(eq), len(sysm))})
                    continue
                by = collections.defaultdict(set)
                for l, e, z in zip(let, eq, sysm.get_atomic_numbers()):
                    by[e].add((l, z))
                if any(len(v) > 1 for v in by.values()):
                    fails.append({"sg": sg, "observed": "%s: equivalent atoms differ in letter/element" % name})
            cc = collections.Counter(zip(a.get_wyckoff_letters_conventional(), conv.get_atomic_numbers()))
            cp = collections.Counter(zip(a.get_wyckoff_letters_primitive(), prim.get_atomic_numbers()))
            k = len(conv) // max(1, len(prim))
            if any(cc[key] != k * cp.get(key, 0) for key in cc):
                fails.append({"sg": sg, "observed": "(letter, element) counts not in the ratio of atom counts", "conv": str(dict(cc)), "prim": str(dict(cp))})
        except Exception as e:  # noqa
            fails.append({"sg": sg, "observed": "%s: %s" % (type(e).__name__, str(e)[:200])})
        if len(fails) >= 3:
            break
    # one analyzer used for several crystals in turn gives what a fresh analyzer gives
    try:
        a = tr.analyze(tr.pinned_probe(221, npin=1))
        a.get_wyckoff_letters_original(); a.get_wyckoff_letters_primitive(); a.get_equivalent_atoms_conventional()
        for sg2 in (225, 65, 38):
            b = tr.pinned_probe(sg2, npin=1).repeat((2, 1, 1))
            b = b[list(np.random.default_rng(2).permutation(len(b)))]
            a.set_system(b)
            f = tr.analyze(b)
            got = (list(map(str, a.get_wyckoff_letters_original())), list(map(str, a.get_wyckoff_letters_conventional())), list(map(int, a.get_equivalent_atoms_conventional())),
                   list(map(str, a.get_wyckoff_letters_primitive())))
            want = (list(map(str, f.get_wyckoff_letters_original())), list(map(str, f.get_wyckoff_letters_conventional())), list(map(int, f.get_equivalent_atoms_conventional())),
                    list(map(str, f.get_wyckoff_letters_primitive())))
            if got != want:
                fails.append({"sg": sg2, "observed": "an analyzer that analysed another crystal before (set_system) reports other letters / orbit labels than a fresh analyzer"})
                return {"reproduced": True, "failing_inputs": fails[:3]}
    except Exception as e:  # noqa
        fails.append({"observed": "set_system on a used analyzer: %s: %s" % (type(e).__name__, str(e)[:200])})
        return {"reproduced": True, "failing_inputs": fails[:3]}
    # two species on letters that a normalizer exchanges: the per-atom letters of the three descriptions must stay consistent
    import collections
    import itertools
    from props import _sym
    P1, P2 = {"x": 0.2113, "y": 0.0687, "z": 0.3391}, {"x": 0.0641, "y": 0.3727, "z": 0.1583}
    for sg in (225, 216, 139, 221, 65, 38, 166):
        L = _sym.letters_of(sg)
        for (li, lj), (za, zb) in itertools.product(itertools.combinations(L[:3], 2), ((17, 3), (3, 17))):
            try:
                at = tr.probe(sg, [(li, za, P1), (lj, zb, P2)])
                if len(at) > 120:
                    continue
                for variant in (at, at[list(reversed(range(len(at))))]):
                    a = tr.analyze(variant)
                    conv = a.get_conventional_system()
                    co = collections.Counter(zip([str(x) for x in a.get_wyckoff_letters_original()], variant.get_atomic_numbers().tolist()))
                    cc = collections.Counter(zip([str(x) for x in a.get_wyckoff_letters_conventional()], conv.get_atomic_numbers().tolist()))
                    # counts proportional to the atom counts
                    if set(co) != set(cc) or any(co[k] * len(conv) != cc[k] * len(variant) for k in cc):
                        fails.append({"sg": sg, "occupied": [li, lj], "species": [za, zb], "observed": "(letter, element) counts of the original description %s vs conventional %s are not in the ratio of the atom counts" % (dict(co), dict(cc))})
                        break
                    prim = a.get_primitive_system()
                    cpp = collections.Counter(zip([str(x) for x in a.get_wyckoff_letters_primitive()], prim.get_atomic_numbers().tolist()))
                    if set(cpp) != set(cc) or any(cpp[k] * len(conv) != cc[k] * len(prim) for k in cc):
                        fails.append({"sg": sg, "occupied": [li, lj], "species": [za, zb], "observed": "(letter, element) counts of the primitive description %s vs conventional %s are not in the ratio of the atom counts" % (dict(cpp), dict(cc))})
                        break
            except Exception as e:  # noqa
                fails.append({"sg": sg, "occupied": [li, lj], "observed": "%s: %s" % (type(e).__name__, str(e)[:200])})
            if len(fails) >= 3:
                return {"reproduced": True, "failing_inputs": fails[:3]}
    return {"reproduced": bool(fails), "failing_inputs": fails[:3]}


def replay_file(rp):
    return replay(Ob(id=rp["obligation"], witness=rp.get("witness")))
