"""Native replay for C20: the property clauses evaluated on the real functions of the tree under verification for a
fixed family of inputs (the hint cell used for model search, a triclinic and a sheared cell; 1-5 atoms inside/outside)."""
import itertools
import numpy as np


def _cells():
    return [np.array([[2, 0, 0], [0.3, 2, 0], [0.1, 0.2, 3.0]]), np.array([[3.1, 0.2, -0.4], [0.7, 2.9, 0.5], [-0.3, 0.6, 4.2]]),
            np.array([[2.0, 0, 0], [4.0, 2.0, 0], [2.0, 6.0, 2.5]])]


def _atoms(rng, cell, n, pbc):
    from ase import Atoms
    sp = rng.uniform(-1.5, 2.5, size=(n, 3))
    return Atoms(numbers=rng.choice([1, 6, 14, 29], size=n), scaled_positions=sp, cell=cell, pbc=pbc)


def check(section, tol=1e-7):
    import matid.geometry as g
    rng = np.random.default_rng(5)
    fails = []
    for cell in _cells():
        for pbc in itertools.product([True, False], repeat=3):
            for n in (1, 2, 5):
                at = _atoms(rng, cell, n, pbc)
                pos0 = at.get_positions().copy()
                try:
                    if section == "scaled":
                        s = g.to_scaled(cell, pos0.copy())
                        if np.abs(g.to_cartesian(cell, s.copy()) - pos0).max() > tol:
                            fails.append(("inverse", cell.tolist(), pos0.tolist()))
                        sw = g.to_scaled(cell, pos0.copy(), wrap=True, pbc=pbc)
                        d = sw - s
                        for k in range(3):
                            if pbc[k]:
                                if np.abs(d[:, k] - np.rint(d[:, k])).max() > tol or sw[:, k].min() < 0 or sw[:, k].max() >= 1:
                                    fails.append(("wrap-periodic", cell.tolist(), pos0.tolist(), pbc))
                            elif np.abs(d[:, k]).max() > tol:
                                fails.append(("wrap-nonperiodic", cell.tolist(), pos0.tolist(), pbc))
                        cw = g.to_cartesian(cell, s.copy(), wrap=True, pbc=pbc)
                        if np.abs(cw - sw @ cell).max() > tol:
                            fails.append(("to_cartesian-wrap", cell.tolist(), pos0.tolist(), pbc))
                    elif section == "wrapped":
                        s = g.to_scaled(cell, pos0.copy())
                        w = g.get_wrapped_positions(s.copy())
                        d = w - s
                        if w.min() < 0 or w.max() >= 1 or np.abs(d - np.rint(d)).max() > 2e-5:
                            fails.append(("wrapped", s.tolist()))
                    elif section == "swap":
                        for a, b in itertools.product(range(3), repeat=2):
                            t = at.copy()
                            g.swap_basis(t, a, b)
                            c2, p2 = np.array(at.get_cell()), np.array(at.get_pbc())
                            c2[[a, b]] = c2[[b, a]]
                            p2[[a, b]] = p2[[b, a]]
                            if np.abs(t.get_cell() - c2).max() > tol or (t.get_pbc() != p2).any() or np.abs(t.get_positions() - pos0).max() > tol:
                                fails.append(("swap", a, b, cell.tolist()))
                    elif section == "complete":
                        a_, b_ = cell[0], cell[1]
                        for L in (0.5, 3.0):
                            c = g.complete_cell(a_, b_, L)
                            if c.shape != (1, 3) or abs(c[0] @ a_) > tol or abs(c[0] @ b_) > tol or abs(np.linalg.norm(c) - L) > tol:
                                fails.append(("complete", a_.tolist(), b_.tolist(), L))
                    elif section == "min":
                        for axis in range(3):
                            for ms in (0.1, 1.0, 30.0):
                                r = g.get_minimized_cell(at, axis, ms)
                                s0 = at.get_scaled_positions(wrap=False)[:, axis]
                                ext = (s0.max() - s0.min()) * np.linalg.norm(cell[axis])
                                want = max(ext, ms)
                                bad = []
                                if abs(np.linalg.norm(r.get_cell()[axis]) - want) > 1e-6:
                                    bad.append("length %.6f != max(extent, min_size) %.6f" % (np.linalg.norm(r.get_cell()[axis]), want))
                                others = [k for k in range(3) if k != axis]
                                if np.abs(np.array(r.get_cell())[others] - cell[others]).max() > tol:
                                    bad.append("other cell rows changed")
                                dp = r.get_positions() - pos0
                                if np.abs(dp - dp[0]).max() > 1e-6:
                                    bad.append("mutual displacements changed")
                                s1 = r.get_scaled_positions(wrap=False)[:, axis]
                                if s1.min() < -1e-6 or s1.max() > 1 + 1e-6:
                                    bad.append("atoms outside the cell along the axis")
                                if ext < ms and abs(s1.min() - (1 - s1.max())) > 1e-6:
                                    bad.append("not centred when padded")
                                if (r.get_pbc() != at.get_pbc()).any() or (r.get_atomic_numbers() != at.get_atomic_numbers()).any():
                                    bad.append("pbc/species changed")
                                if np.abs(at.get_positions() - pos0).max() > 0:
                                    bad.append("input modified")
                                if bad:
                                    fails.append(("get_minimized_cell", axis, ms, cell.tolist(), pos0.tolist(), bad))
                    elif section == "inertia":
                        for weight in (True, False):
                            ev, evec = g.get_moments_of_inertia(at, weight=weight)
                            com = g.get_center_of_mass(at)
                            w = at.get_masses() if weight else np.ones(n)
                            d = pos0 - com
                            T = sum(wk * ((dk @ dk) * np.eye(3) - np.outer(dk, dk)) for wk, dk in zip(w, d))
                            ev2 = np.linalg.eigvalsh(T)
                            if np.abs(np.sort(ev) - ev2).max() > 1e-6 * max(1, np.abs(ev2).max()):
                                fails.append(("inertia", weight, cell.tolist(), pos0.tolist(), pbc))
                    elif section == "com":
                        com = g.get_center_of_mass(at)
                        sh = at.copy()
                        p = sh.get_positions()
                        for k in range(3):
                            if pbc[k]:
                                p[0] += 2 * cell[k]
                        sh.set_positions(p)
                        com2 = g.get_center_of_mass(sh)
                        if np.abs(com2 - com).max() > 1e-6 and all(pbc):
                            fails.append(("com-lattice-shift", cell.tolist(), pos0.tolist(), pbc))
                        rel = np.linalg.solve(cell.T, com)
                        s = at.get_scaled_positions(wrap=False)
                        m = at.get_masses()
                        for k in range(3):
                            if not pbc[k] and abs(rel[k] - (s[:, k] * m).sum() / m.sum()) > 1e-6:
                                fails.append(("com-nonperiodic-mean", k, cell.tolist(), pos0.tolist(), pbc))
                            if pbc[k]:
                                th = (s[:, k] % 1.0) * 2 * np.pi
                                want = (np.arctan2(-(np.sin(th) * m).mean(), -(np.cos(th) * m).mean()) + np.pi) / (2 * np.pi)
                                if abs(rel[k] - want) > 1e-6:
                                    fails.append(("com-circular-mean", k, cell.tolist(), pos0.tolist(), pbc))
                except Exception as e:  # noqa
                    fails.append((section, "%s: %s" % (type(e).__name__, str(e)[:200]), cell.tolist(), pos0.tolist(), pbc))
                if fails:
                    return fails[:3]
    return fails
