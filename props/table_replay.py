"""Native replay for refuted table obligations: probe crystals built from spglib's Hall-database operations
(independent of MatID's tables) are pushed through the real SymmetryAnalyzer of the tree under verification."""
from __future__ import annotations

import re
import traceback
from fractions import Fraction as Fr

import numpy as np

from engine import tabvc

CELLPAR = {
    "triclinic": (5.1, 6.3, 7.4, 80, 95, 105),
    "monoclinic": (5.1, 6.3, 7.4, 90, 105, 90),
    "orthorhombic": (5.1, 6.3, 7.4, 90, 90, 90),
    "tetragonal": (5.1, 5.1, 7.4, 90, 90, 90),
    "trigonal": (5.1, 5.1, 7.4, 90, 90, 120),
    "hexagonal": (5.1, 5.1, 7.4, 90, 90, 120),
    "cubic": (6.3, 6.3, 6.3, 90, 90, 90),
}

PARAMS = {"x": 0.1372, "y": 0.2931, "z": 0.4177}


def orbit(sg, point, tol=1e-6):
    pts = []
    for R, t in tabvc.ref_ops(sg):
        p = (np.array([[float(v) for v in r] for r in R]) @ np.array(point) + np.array([float(v) for v in t])) % 1.0
        if not any(np.all(np.abs(((p - q) + 0.5) % 1.0 - 0.5) < tol) for q in pts):
            pts.append(p)
    return pts


def rep_point(sg, letter, params=None):
    INFO, WY, NZ = tabvc.load_tables()
    params = dict(PARAMS, **(params or {}))
    ex = WY[sg][letter]["expressions"][0]
    out = []
    for comp in ex:
        coef, const = tabvc.parse_expr(comp)
        out.append(float(const) + sum(float(coef[v]) * params[v] for v in "xyz"))
    return out


def probe(sg, occupied, scale=1.0):
    """occupied: list of (letter, Z, params|None) using the *reference* orbit of the tabulated representative."""
    from ase import Atoms
    from ase.geometry import cellpar_to_cell

    cs = tabvc.crystal_system_of(sg)
    cell = cellpar_to_cell(CELLPAR[cs]) * scale
    pos, num = [], []
    for letter, Z, params in occupied:
        for p in orbit(sg, rep_point(sg, letter, params)):
            pos.append(p)
            num.append(Z)
    return Atoms(numbers=num, scaled_positions=pos, cell=cell, pbc=True)


PIN = [(14, {"x": 0.1372, "y": 0.2931, "z": 0.4177}), (8, {"x": 0.3519, "y": 0.0814, "z": 0.2266}), (26, {"x": 0.4233, "y": 0.3877, "z": 0.0791})]


def pinned_probe(sg, extra=(), npin=3):
    """general position occupied by three species with unrelated parameters (pins the space group), plus `extra`"""
    g = _chiral_probe(sg)[-1]
    return probe(sg, [(g, Z, p) for Z, p in PIN[:npin]] + list(extra))


def analyze(atoms, tol=1e-3):
    from matid.symmetry.symmetryanalyzer import SymmetryAnalyzer

    return SymmetryAnalyzer(atoms, symmetry_tol=tol)


def replay(ob):
    """Dispatch on the obligation family. Returns dict(reproduced=bool, ...)."""
    m = re.match(r"([a-z0-9.=\-]+)\[(.*)\]$", ob.id)
    fam, idx = (m.group(1), m.group(2)) if m else (ob.id, "")
    w = ob.witness or {}
    if ob.id == "audit":
        out = []
        for sg in (2, 14, 62, 88, 98, 139, 166, 178, 194, 198, 214, 221, 225, 227):
            for r in (replay_info(sg, "info."), replay_primitive(sg), replay_handed(sg) if tabvc.is_sohncke(sg) else {"reproduced": False}):
                if r.get("reproduced"):
                    out.append(r)
            L = _chiral_probe(sg)
            for l in L[:3]:
                r = replay_wyckoff_params(sg, l)
                if r.get("reproduced"):
                    out.append(r)
        return {"reproduced": bool(out), "failing_inputs": out[:3]}
    try:
        if fam in ("wy.expr=matrix", "wy.orbit", "wy.integer", "wy.variables", "c08.solve", "c08.tests=orbit"):
            return replay_wyckoff_params(w["sg"], w["letter"])
        if fam in ("nz.handed", "select.proper"):
            return replay_handed(w["sg"], w.get("index"))
        if fam in ("nz.normalises", "nz.perm", "nz.metric", "nz.perm-wf", "nz.closed"):
            return replay_normalizer(w["sg"], w.get("index"))
        if fam.startswith("info.") or fam.startswith("chiral.table"):
            return replay_info(w["sg"], fam)
        if fam.startswith("prim."):
            return replay_primitive(w.get("sg"))
    except Exception:
        return {"reproduced": False, "error": traceback.format_exc()[-2000:]}
    return {"reproduced": False, "note": "no native replay for this family"}


PARAM_SETS = (None, {"x": 0.06, "y": 0.045, "z": 0.045}, {"x": 0.94, "y": 0.955, "z": 0.93}, {"x": 0.27, "y": 0.61, "z": 0.83})


def replay_near_one():
    """a free parameter a hair below 1 is reported inside [0,1) (general positions of groups without normalizers; only probes that
    are analysed as their own group count)"""
    for sg in (1, 214, 229, 211):
        g = _chiral_probe(sg)[-1]
        try:
            at = probe(sg, [(g, 14, PIN[0][1]), (g, 8, PIN[1][1]), (g, 29, {"x": 0.999997, "y": 0.4, "z": 0.6})])
            if len(at) > 300:
                continue
            r = check_wyckoff_params(at, {"probe": {"sg": sg, "occupied": [g], "parameters": "x = 0.999997"}})
            if r.get("reproduced") and r.get("detected_sg") == sg and isinstance(r.get("observed"), list):
                return r
        except Exception:
            continue
    return {"reproduced": False}


def offset_positions(limit=14):
    """(sg, letter) whose tabulated representative reads a free variable together with a constant offset (x+1/8, z+1/4, ...):
    the positions on which a missing final wrap of the solved parameters shows"""
    INFO, WY, NZ = tabvc.load_tables()
    out = []
    for sg in range(1, 231):
        for L in sorted(k for k in WY[sg] if k != "translations"):
            for comp in WY[sg][L]["expressions"][0]:
                coef, const = tabvc.parse_expr(comp)
                if const != 0 and sum(1 for v in "xyz" if coef[v] != 0) == 1:
                    out.append((sg, L))
                    break
            if out and out[-1][0] == sg:
                break
    step = max(1, len(out) // limit)
    return out[::step][:limit]


def replay_wyckoff_params(sg, letter, param_sets=PARAM_SETS):
    """the parameters near 0, near 1 and generic; the first failing set is reported"""
    last = {"reproduced": False}
    for ps in param_sets:
        last = _replay_wyckoff_params(sg, letter, ps)
        if last.get("reproduced"):
            return last
    return last


def _replay_wyckoff_params(sg, letter, params=None):
    """Occupy the position (and the general position, to pin the group) and ask for the Wyckoff parameters."""
    INFO, WY, NZ = tabvc.load_tables()
    letters = sorted(k for k in WY[sg] if k != "translations")
    alphabet = "abcdefghijklmnopqrstuvwxyzA"
    general = sorted(letters, key=alphabet.index)[-1]
    occ = [(letter, 29, params)]
    atoms = pinned_probe(sg, occ, npin=2)
    res = {"probe": {"sg": sg, "occupied": [o[0] for o in occ], "parameters": params or "default", "natoms": len(atoms)}}
    # the tabulated representative really is a position of that letter: spglib's independent assignment for the probe atoms (standard setting only)
    try:
        import spglib
        ds = spglib.get_symmetry_dataset((atoms.get_cell(), atoms.get_scaled_positions(), atoms.get_atomic_numbers()), 1e-3)
        if ds is not None and ds.number == sg and np.abs(np.array(ds.transformation_matrix) - np.eye(3)).max() < 1e-6 and np.abs((np.array(ds.origin_shift) + 0.5) % 1.0 - 0.5).max() < 1e-6:
            got = sorted({ds.wyckoffs[i] for i in range(len(atoms)) if atoms.get_atomic_numbers()[i] == 29})
            if got != [letter]:
                res.update(reproduced=True, observed="atoms generated from the tabulated representative %s of position %s are on position %s according to spglib" % (
                    tabvc.load_tables()[1][sg][letter]["expressions"][0], letter, got))
                return res
    except Exception:
        pass
    return check_wyckoff_params(atoms, res)


def replay_wyckoff_supercells():
    """the same question for crystals given as supercells whose lattice is not invariant under the whole point group"""
    from ase.build import make_supercell
    for sg in (75, 143, 81, 16):
        L = _chiral_probe(sg)
        base = pinned_probe(sg, [(L[0], 6, None), (L[min(2, len(L) - 1)], 32, None)], npin=1)
        for P in ([[2, 0, 0], [0, 1, 0], [0, 0, 1]], [[1, 0, 0], [0, 2, 0], [0, 0, 1]], [[2, 0, 0], [0, 1, 0], [0, 0, 2]]):
            at = make_supercell(base, P)
            if len(at) > 200:
                continue
            r = check_wyckoff_params(at, {"probe": {"sg": sg, "supercell": P, "natoms": len(at)}})
            if r.get("reproduced") and r.get("detected_sg") == sg:
                return r
    return {"reproduced": False}


def replay_flag(groups=(194, 139, 166, 47, 225, 62, 221)):
    """has-free-parameters flag against the sets actually reported: crystals that occupy a parameter-free letter and a letter with a
    parameter (no pinning general position, which would make the flag trivially true)"""
    import itertools
    INFO, WY, NZ = tabvc.load_tables()
    for sg in groups:
        letters = _chiral_probe(sg)[:-1]
        fixed = [l for l in letters if not WY[sg][l]["variables"]][:3]
        free = [l for l in letters if WY[sg][l]["variables"]][:4]
        for occ in [[(a, 29, None), (b, 47, {"x": 0.2113, "y": 0.0687, "z": 0.3391})] for a, b in itertools.product(fixed, free)] + [[(a, 29, None)] for a in fixed[:2]]:
            try:
                at = probe(sg, occ)
                if len(at) > 200:
                    continue
                a = analyze(at)
                flag = bool(a.get_has_free_wyckoff_parameters())
                sets = a.get_wyckoff_sets_conventional(return_parameters=True)
                has = any(v is not None for ws in sets for v in (ws.x, ws.y, ws.z))
                if flag != has:
                    return {"reproduced": True, "probe": {"sg": sg, "occupied": [o[0] for o in occ], "detected_sg": int(a.get_space_group_number())},
                            "observed": "get_has_free_wyckoff_parameters() = %s but the reported sets %s a parameter (%s)" % (
                                flag, "carry" if has else "carry no", [(ws.wyckoff_letter, ws.x, ws.y, ws.z) for ws in sets][:4])}
            except Exception:
                continue
    return {"reproduced": False}


def check_wyckoff_params(atoms, res):
    INFO, WY, NZ = tabvc.load_tables()
    try:
        a = analyze(atoms)
        res["detected_sg"] = int(a.get_space_group_number())
        sets = a.get_wyckoff_sets_conventional(return_parameters=True)
        conv = a.get_conventional_system()
        sp = conv.get_scaled_positions()
        bad = []
        for ws in sets:
            e = WY[res["detected_sg"]][ws.wyckoff_letter]
            coefs = [tabvc.parse_expr(c) for c in e["expressions"][0]]
            vals = {"x": ws.x, "y": ws.y, "z": ws.z}
            free = set(e["variables"])
            for v in "xyz":
                if (vals[v] is not None) != (v in free):
                    bad.append("set %s: variable %s reported=%s free=%s" % (ws.wyckoff_letter, v, vals[v], v in free))
                if vals[v] is not None and not (0 <= vals[v] < 1):
                    bad.append("set %s: %s=%r outside [0,1)" % (ws.wyckoff_letter, v, vals[v]))
            p = np.array([float(c[1]) + sum(float(c[0][v]) * (vals[v] or 0.0) for v in "xyz") for c in coefs])
            d = sp[ws.indices] - p
            d = (d + 0.5) % 1.0 - 0.5
            dist = np.linalg.norm(d @ conv.get_cell(), axis=1).min()
            if dist > 2e-3:
                bad.append("set %s: representative regenerated from reported parameters is %.4f A from nearest atom of the set" % (ws.wyckoff_letter, dist))
        res["observed"] = bad or "parameters regenerate an atom of each set"
        res["reproduced"] = bool(bad)
    except Exception as ex:
        res["observed"] = "%s: %s" % (type(ex).__name__, str(ex)[:300])
        res["reproduced"] = True
    return res


def _chiral_probe(sg):
    INFO, WY, NZ = tabvc.load_tables()
    letters = sorted(k for k in WY[sg] if k != "translations")
    alphabet = "abcdefghijklmnopqrstuvwxyzA"
    letters = sorted(letters, key=alphabet.index)
    return letters


def handedness_preserved(atoms, tol=1e-3):
    """True iff the conventional system is related to spglib's own standardised cell by a proper motion
    (determinant of the applied normalizer), observed on the real analyzer."""
    a = analyze(atoms, tol)
    a.get_conventional_system()
    T = a._best_transform["transformation"]
    return float(np.linalg.det(np.array(T)[:3, :3])), a


def replay_handed(sg, index=None):
    """Search occupancies of the Sohncke group for which the analyzer applies an improper transformation."""
    import itertools

    letters = _chiral_probe(sg)
    tried = 0
    for r in (1, 2, 3):
        for combo in itertools.combinations(letters, r):
            for Zs in itertools.permutations([14, 8, 26][:r]):
                occ = [(L, Z, {"x": 0.1372 + 0.05 * i, "y": 0.2931 + 0.03 * i, "z": 0.4177 - 0.04 * i})
                       for i, (L, Z) in enumerate(zip(combo, Zs))]
                try:
                    atoms = probe(sg, occ)
                    if len(atoms) > 400:
                        continue
                    d, a = handedness_preserved(atoms)
                    tried += 1
                    if int(a.get_space_group_number()) != sg:
                        continue
                    if d < 0:
                        return {"reproduced": True, "probe": {"sg": sg, "occupied": [(o[0], o[1]) for o in occ]},
                                "observed": "applied normalizer has det %.1f: conventional system is the mirror image" % d}
                except Exception:
                    continue
                if tried > 150:
                    break
    return {"reproduced": False, "note": "no occupancy among %d probes selects the improper entry (dominated by earlier entries)" % tried}


def replay_normalizer(sg, index):
    """Compare MatID letters of the conventional system against an independent spglib assignment."""
    import itertools
    import spglib

    letters = _chiral_probe(sg)
    tried = 0
    PP = ({"x": 0.2113, "y": 0.0687, "z": 0.3391}, {"x": 0.0641, "y": 0.3727, "z": 0.1583})
    cases = [(combo, zs) for r in (1, 2) for combo in itertools.combinations(letters[:-1] or letters, r) for zs in (([29, 47], [47, 29]) if r == 2 else ([29],))]
    for combo, zs in cases:
        if True:
            # the general position of a third species pins the group; the extra orbits have their own free parameters
            occ = [(L, Z, P) for L, Z, P in zip(combo, zs, PP)]
            try:
                atoms = pinned_probe(sg, occ, npin=1)
                if len(atoms) > 300:
                    continue
                a = analyze(atoms)
                conv = a.get_conventional_system()
                tried += 1
                if int(a.get_space_group_number()) != sg:
                    continue
                ds = spglib.get_symmetry_dataset((conv.get_cell(), conv.get_scaled_positions(), conv.get_atomic_numbers()), 1e-3)
                mine = list(a.get_wyckoff_letters_conventional())
                if ds.number != sg:
                    return {"reproduced": True, "probe": {"sg": sg, "occupied": combo}, "observed": "conventional system has space group %d" % ds.number}
                if np.abs(np.array(ds.transformation_matrix) - np.eye(3)).max() < 1e-6 and np.abs(np.array(ds.origin_shift) % 1.0).max() < 1e-6 \
                        and sorted(zip(mine, conv.get_atomic_numbers())) != sorted(zip(ds.wyckoffs, conv.get_atomic_numbers())):
                    return {"reproduced": True, "probe": {"sg": sg, "occupied": combo},
                            "observed": "letters %s differ from independent assignment %s" % (sorted(set(mine)), sorted(set(ds.wyckoffs)))}
            except Exception as ex:
                return {"reproduced": True, "probe": {"sg": sg, "occupied": combo}, "observed": "%s: %s" % (type(ex).__name__, str(ex)[:200])}
            if tried > 90:
                break
    return {"reproduced": False, "note": "entry is never selected / not observable on %d probes" % tried}


def replay_info(sg, fam):
    import spglib

    letters = _chiral_probe(sg)
    # the first probe whose detected group is the wanted one (a single orbit with round parameters can have a supergroup's symmetry)
    for atoms in (probe(sg, [(letters[-1], 14, None)]), pinned_probe(sg, npin=1), pinned_probe(sg, npin=2), pinned_probe(sg, npin=3)):
        a = analyze(atoms)
        if int(a.get_space_group_number()) == sg:
            break
    t = tabvc.ref_type(sg)
    got = {"sg": int(a.get_space_group_number()), "crystal_system": a.get_crystal_system(), "bravais": a.get_bravais_lattice(),
           "point_group_table": __import__("matid.data.symmetry_data", fromlist=["x"]).SPACE_GROUP_INFO[sg]["pointgroup"],
           "chiral": bool(a.get_is_chiral())}
    cs = tabvc.crystal_system_of(sg)
    cent = t.international_short[0]
    want_bl = tabvc.PEARSON_FIRST[cs] + ("S" if cent in "ABC" else cent)
    bad = []
    if got["sg"] == sg:
        if got["crystal_system"] != cs:
            bad.append("crystal system %s, ITA %s" % (got["crystal_system"], cs))
        if got["bravais"] != want_bl:
            bad.append("bravais %s, ITA %s" % (got["bravais"], want_bl))
        if got["point_group_table"] != t.pointgroup_international:
            bad.append("point group %s, ITA %s" % (got["point_group_table"], t.pointgroup_international))
    return {"reproduced": bool(bad), "probe": {"sg": sg, "occupied": letters[-1]}, "observed": bad or got}


def replay_primitive(sg):
    if sg is None:
        return {"reproduced": False, "note": "no group"}
    letters = _chiral_probe(sg)
    # the first probe that is detected as the wanted group (a single orbit with round parameters can have a supergroup's symmetry)
    for atoms in (probe(sg, [(letters[-1], 14, None)]), pinned_probe(sg, npin=1), pinned_probe(sg, npin=2), pinned_probe(sg, npin=3)):
        a = analyze(atoms)
        if int(a.get_space_group_number()) == sg:
            break
    try:
        if int(a.get_space_group_number()) != sg:
            return {"reproduced": False, "note": "no probe of group %d is detected as such" % sg, "probe": {"sg": sg}}
        conv = a.get_conventional_system()
        prim = a.get_primitive_system()
        k = len(tabvc.load_tables()[1][sg]["translations"]) + 1
        bad = []
        if len(prim) * k != len(conv):
            bad.append("atoms %d * %d != %d" % (len(prim), k, len(conv)))
        if abs(prim.get_volume() * k - conv.get_volume()) > 1e-6 * conv.get_volume():
            bad.append("volume %.5f * %d != %.5f" % (prim.get_volume(), k, conv.get_volume()))
        import spglib
        ds = spglib.get_symmetry_dataset((prim.get_cell(), prim.get_scaled_positions(), prim.get_atomic_numbers()), 1e-3)
        if ds.number != sg:
            bad.append("primitive system has space group %d" % ds.number)
        # the primitive description is the same crystal: every conventional atom, folded into the primitive cell, sits on a primitive atom of its species
        pc = np.array(prim.get_cell())
        sp_c = np.linalg.solve(pc.T, conv.get_positions().T).T % 1.0
        sp_p = prim.get_scaled_positions() % 1.0
        zc, zp = conv.get_atomic_numbers(), prim.get_atomic_numbers()
        worst = 0.0
        for s_, z_ in zip(sp_c, zc):
            d = (sp_p[zp == z_] - s_ + 0.5) % 1.0 - 0.5
            worst = max(worst, float(np.linalg.norm(d @ pc, axis=1).min()) if len(d) else 9.9)
        if worst > 1e-2:
            bad.append("a conventional atom folded into the primitive cell is %.3f A away from every primitive atom of its species: the primitive lattice is not a lattice of this crystal" % worst)
        return {"reproduced": bool(bad), "observed": bad or "consistent", "probe": {"sg": sg}}
    except Exception as ex:
        return {"reproduced": True, "observed": "%s: %s" % (type(ex).__name__, str(ex)[:200]), "probe": {"sg": sg}}
