"""C13 — Cluster.get_dimensionality agrees with get_dimensionality of the cluster's atoms."""
from __future__ import annotations

import z3

from engine.common import Report, Ob
from props._util import run_fv, section, sections_parallel


def run():
    rep = Report("C13")
    rep.trusted_base = ["z3", "pyvc symbolic executor", "heap model of Cluster objects (engine/heap.py, contracts/sbc_model.py)"]
    rep.assumptions = [
        "contract of matid.geometry.get_dimensionality: a pre-computed matrix must be the radii-corrected MIC matrix of the same atoms and radii; the result is a function of (atoms, threshold, radii) (its body is the subject of C09)",
        "lemma (not machine-checked): the MIC distance of a pair does not depend on the other atoms, so D[ix_(idx, idx)] of the full system is the matrix of the sub-system in the same cell",
        "A-NP: D[np.ix_(idx, idx)] selects rows/columns idx; np.asarray(radii)[idx] selects the radii of idx",
        "A-SK: DBSCAN groups (see C01)",
    ]
    sections_parallel(rep, [("cluster.init", _init), ("cluster.getdim", _getdim), ("merge", _merge), ("clean", _clean), ("localize", _localize), ("pipeline.main", _pipeline_main), ("pipeline.merge", _pipeline_merge), ("getdistances", _getdistances)])
    return rep


def _init(rep):
    from contracts import cluster_c13 as K
    from contracts.sbc_model import cluster_ctx
    run_fv(rep, "cluster.init.", cluster_ctx(), "Cluster.__init__", K.mk_init, K.post_init)


def _getdim(rep):
    from contracts import cluster_c13 as K
    from contracts.sbc_model import cluster_ctx
    run_fv(rep, "cluster.getdim.", cluster_ctx(), "Cluster.get_dimensionality", K.mk_getdim, K.post_getdim, contracts=K.GETDIM_CONTRACTS)


def _merge(rep):
    from contracts import cluster_c13 as K
    from contracts.sbc_model import sbc_ctx
    run_fv(rep, "merge.", sbc_ctx(), "SBC._merge_clusters.merge", K.mk_merge, K.post_merge)


def _clean(rep):
    from contracts import sbc_clean as C
    from contracts.sbc_model import sbc_ctx
    C.WITH_CACHE["on"] = True
    try:
        run_fv(rep, "clean.", sbc_ctx(), "SBC._clean_clusters", C.mk, C.post, loops=C.LOOPS, contracts=C.CONTRACTS)
    finally:
        C.WITH_CACHE["on"] = False


def _localize(rep):
    """_localize_clusters rewrites indices; the cached matrices must not exist yet or must not be touched: frame obligations of
    its loops (fields that are not havocked must be unchanged) + explicit post-condition."""
    from contracts import sbc_localize as L
    from contracts.sbc_model import sbc_ctx, CACHE_NONE, CACHE_SET
    import z3 as _z3

    c = _z3.Int("c!q")

    def mk(st, it):
        args, kw, ctx = L.mk(st, it)
        cx = ctx["cx"]
        st.assume(_z3.ForAll([c], CACHE_NONE(st, c)))  # clusters come from Cluster.__init__ / merge: cache empty (proved there)
        return args, kw, ctx

    def post(st, ctx, r):
        st.prove("caches-still-empty", _z3.ForAll([c], CACHE_NONE(st, c)))

    run_fv(rep, "localize.", sbc_ctx(), "SBC._localize_clusters", mk, post, loops=L.LOOPS)


def _pipeline_main(rep):
    _pipeline(rep, "_main")


def _pipeline_merge(rep):
    _pipeline(rep, "_mergeloop")


def _pipeline(rep, which):
    """get_clusters end to end (shared with C01): every returned cluster carries the clustering radii and threshold and satisfies the cache invariant;
    _merge_clusters keeps the radii/threshold tokens of its clusters (WF clause 'carry-the-clustering-radii-and-threshold')"""
    from props import C01
    from engine.common import Report as _R
    tmp = _R("tmp")
    getattr(C01, which)(tmp)
    keep = ("cache", "radii", "cover.", "canary", "distances-of-the-wrapped-copy", "with-the-resolved-radii", "threshold-forwarded")
    for ob in tmp.obligations:
        if any(k in ob.id for k in keep):
            ob.id = "pipeline." + ob.id
            rep.add(ob)
    for f in tmp.functions:
        rep.functions.append(f)



def _getdistances(rep):
    """the distance tables handed to the callees are those of the periodic search of the structure (contract of get_distances, shared with C10)"""
    from props import C10
    C10._getdistances(rep)
    C10._wrapper(rep)

def replay_key(ob):
    return "c13"


def replay(ob):
    from props import C01_native as N
    fails = N.clean(c13=True)
    if not fails:
        fails = N.unordered_clusters()
    if not fails:
        fails = N.end_to_end(c13=True)
    return {"reproduced": bool(fails), "failing_inputs": fails[:3]}


def replay_file(rp):
    return replay(Ob(id=rp["obligation"]))
