"""C11 — 2D materials get a vacuum-, orientation- and labelling-independent normal form (structural conjuncts)."""
from __future__ import annotations

import numpy as np
import z3

from engine import contexts
from engine.aseshim import SymAtoms, sym_cell, sym_pbc, sym_positions, sym_int_rows
from engine.common import Report, Ob, prove, func_source_info
from engine.errors import Unsupported
from engine.larr import RowArr, instantiate_reductions
from engine.npshim import NP, det_term, obj
from engine.pyvc import SR, SB, sint, sreal, z3num, z3bool, mkbool, cur
from engine.symcoll import Opaque
from props._util import run_fv, section, sections_parallel

REL = "matid/symmetry/symmetryanalyzer.py"
GEO = "matid/geometry/geometry.py"


def _hint(st):
    vals = (2, 0, 0, "3/10", 2, 0, "1/10", "1/5", 3)
    for kk in range(9):
        st.hint(z3.Real("c%d%d" % (kk // 3, kk % 3)) == z3.RealVal(str(vals[kk])))


def run():
    rep = Report("C11")
    rep.trusted_base = ["z3", "pyvc symbolic executor"]
    rep.assumptions = [
        "A-SPG: invariance of spglib's dataset (number, letters up to tabulated relabelling, in-plane lattice) under vacuum, axis relabelling, supercells, rigid motions, atom order is assumed; only MatID's own structural steps are proved",
        "contracts of get_minimized_cell / swap_basis / get_center_of_mass are the ones proved under C20; _find_wyckoff_ground_state under C05",
        "A-ASE: set_cell keeps cartesian positions; wrap moves periodic scaled components into [0,1); translate adds a vector",
        "A-HASH for 'the id differs from the 3D id'",
    ]
    sections_parallel(rep, [("thickness", _thickness), ("vacuum", _vacuum), ("conventional", _conventional), ("id", _id)])
    # spglib is asked about the analysed structure with the analyzer's tolerance; the simple getters are dataset look-ups (shared section)
    from props import _sym as _symmod
    from props._util import section as _section
    _section(rep, "dataset", lambda: _symmod.dataset_section(rep))
    return rep


def _thickness(rep):
    m = contexts.geometry_ctx()
    for axis in range(3):
        def mk(st, it, axis=axis):
            n = sint("n")
            st.assume(n.t >= 1)
            cell = sym_cell("c")
            st.assume(det_term(cell) != 0)
            _hint(st)
            pbc = np.array([True, True, True], dtype=object)
            at = SymAtoms(n, cell, pbc, sym_positions("pos", n), sym_int_rows("Z", n))
            return [at, axis], {}, {"at": at, "cell": cell, "axis": axis}

        def post(st, ctx, r, axis=axis):
            at = ctx["at"]
            reds = st.ghost.get("reductions", [])
            st.prove("uses-min-and-max-of-the-scaled-coordinate", z3.BoolVal(len(reds) == 2 and {k for k, _, _ in reds} == {"min", "max"}))
            if len(reds) != 2:
                return
            kmin = [mm for kd, mm, _ in reds if kd == "min"][0]
            kmax = [mm for kd, mm, _ in reds if kd == "max"][0]
            i = sint("i_generic")
            st.assume(z3.And(i.t >= 0, i.t < at.n.t))
            instantiate_reductions(st, [i, kmin, kmax])
            vmin, vmax = [a.f(k) for (kd, k, a) in reds if kd == "min"][0], [a.f(k) for (kd, k, a) in reds if kd == "max"][0]
            vi = reds[0][2].f(i)
            st.prove("extent-covers-every-atom", z3.And(z3num(vmin) <= z3num(vi), z3num(vi) <= z3num(vmax)))
            L = NP.linalg.norm(ctx["cell"][axis, :])
            st.prove("thickness-is-extent-times-length", z3num(r) == (z3num(vmax) - z3num(vmin)) * z3num(L))
            st.prove("input-untouched", z3.BoolVal(at.mutations == []))

        run_fv(rep, "thickness[axis=%d]." % axis, m, "get_thickness", mk, post)


def _vacuum(rep):
    """set_system for pbc with one non-periodic axis: the analysed copy keeps the atoms and the two periodic vectors; the third vector keeps its
    direction and gets length max(5, 3*thickness) - a function of the atoms only, not of the vacuum"""
    m = contexts.symmetry_ctx()
    for k in range(3):
        def mk(st, it, k=k):
            n = sint("n")
            st.assume(n.t >= 1)
            cell = sym_cell("c")
            st.assume(det_term(cell) != 0)
            st.assume(z3.Or([z3num(cell[k, j]) != 0 for j in range(3)]))
            _hint(st)
            pbc = np.array([True, True, True])
            pbc[k] = False
            at = SymAtoms(n, cell, pbc, sym_positions("pos", n), sym_int_rows("Z", n))
            self_ = contexts.make_self(m, "SymmetryAnalyzer")
            thick = sreal("thickness")
            st.assume(thick.t >= 0)
            st.ghost["thick"] = thick
            st.ghost["k"] = k
            return [self_, at], {}, {"at": at, "self": self_, "cell0": cell.copy(), "k": k, "thick": thick}

        def thickness_contract(it, st, bound, site):
            ax = bound["axis"]
            axv = int(np.array(ax).reshape(-1)[0])
            st.prove(site + ".pre.axis-is-the-non-periodic-one", z3.BoolVal(axv == st.ghost["k"]))
            st.ghost["thickness_of"] = bound["system"]
            return st.ghost["thick"]

        def post(st, ctx, r, k=k):
            at, self_ = ctx["at"], ctx["self"]
            an = self_._f.get("_analyzed_system")
            st.prove("input-untouched", z3.BoolVal(at.mutations == []))
            st.prove("analysed-system-is-a-copy", z3.BoolVal(isinstance(an, SymAtoms) and an is not at and an.origin is at))
            st.prove("original-kept", z3.BoolVal(self_._f.get("_original_system") is at))
            if not isinstance(an, SymAtoms):
                return
            st.prove("only-the-cell-changed", z3.BoolVal(set(an.mutations) <= {"set_cell"}))
            i = sint("i_generic")
            st.assume(z3.And(i.t >= 0, i.t < at.n.t))
            for q in range(3):
                st.prove("atoms-not-moved[%d]" % q, z3num(an.positions.row(i)[q]) == z3num(at.positions.row(i)[q]))
            c0 = ctx["cell0"]
            for r_ in range(3):
                if r_ != k:
                    for q in range(3):
                        st.prove("periodic-vector-kept[%d,%d]" % (r_, q), z3num(an.cell[r_, q]) == z3num(c0[r_, q]))
            # the non-periodic vector keeps its direction (its new length is MatID's choice of vacuum: not part of the statement)
            u = [z3num(an.cell[k, q]) for q in range(3)]
            v = [z3num(c0[k, q]) for q in range(3)]
            cr = [u[1] * v[2] - u[2] * v[1], u[2] * v[0] - u[0] * v[2], u[0] * v[1] - u[1] * v[0]]
            st.prove("third-vector-parallel-to-the-original", z3.And([x == 0 for x in cr]))
            st.prove("third-vector-same-orientation-and-non-zero", u[0] * v[0] + u[1] * v[1] + u[2] * v[2] > 0)
            # enough vacuum to break the periodicity along the non-periodic direction: the new period exceeds twice the thickness of the sheet
            # (with period == 2*thickness a two-plane layer acquires a spurious c/2 translation / glide). Proved via |lambda*v|^2 = lambda^2 |v|^2.
            lam = z3.Real("lambda_wit")
            st.assume(z3.And([u[q] == lam * v[q] for q in range(3)]))  # witness of the (proved) parallelism: defines lambda
            L0 = z3num(NP.linalg.norm(c0[[k], :]))
            st.prove("new-period-exceeds-twice-the-thickness", lam * L0 > 2 * ctx["thick"].t)
            st.prove("n_pbc-is-2", z3.BoolVal(int(self_._f.get("n_pbc")) == 2))

        run_fv(rep, "vacuum[nonperiodic=%d]." % k, m, "SymmetryAnalyzer.set_system", mk, post,
               contracts={GEO + ":get_thickness": thickness_contract})


# C08 asks for more than C11 does: the letters assigned before the centring shift must still describe the positions that are handed out.
# The clause is only generated when C08 runs this section (it is refuted on the unchanged tree: known finding of C08, see DESIGN.md I.6b).
LETTERS_VS_POSITIONS = {"on": False}


def _conventional(rep):
    """2D branch of get_conventional_system: non-periodic direction detected from the transformation matrix, pbc (T,T,F) after the swap with the
    non-periodic vector last, cell minimised along it with min_2d_thickness"""
    m = contexts.symmetry_ctx()
    for k in range(3):
        def mk(st, it, k=k):
            n = sint("n")
            st.assume(n.t >= 1)
            pbc = np.array([True, True, True])
            pbc[k] = False
            orig = SymAtoms(n, sym_cell("o"), pbc, sym_positions("opos", n), sym_int_rows("Z", n))
            nc = sint("n_conv")
            st.assume(nc.t >= 1)
            cell = sym_cell("c")
            st.assume(det_term(cell) != 0)
            _hint(st)
            ideal = SymAtoms(nc, cell, np.array([True, True, True], dtype=object), sym_positions("pos", nc), sym_int_rows("Zc", nc), name="ideal")
            T = np.empty((3, 3), dtype=object)
            for a in range(3):
                for b in range(3):
                    T[a, b] = sreal("t%d%d" % (a, b))
            mt = sreal("min_2d_thickness")
            st.assume(mt.t > 0)
            self_ = contexts.make_self(m, "SymmetryAnalyzer", {"_conventional_system": None, "_original_system": orig, "min_2d_thickness": mt})
            st.ghost.update({"ideal": ideal, "T": T, "k": k, "cell0": cell.copy()})
            return [self_], {}, {"self": self_, "ideal": ideal, "mt": mt, "k": k, "T": T, "cell0": cell.copy(), "orig": orig}

        class DS:
            pass

        def ds_contract(it, st, bound, site):
            d = DS()
            d.transformation_matrix = st.ghost["T"]
            return d

        def ground_contract(it, st, bound, site):
            st.ghost["ground_args"] = bound
            return st.ghost["ideal"], "LETTERS"

        def com_contract(it, st, bound, site):
            st.prove(site + ".pre.fully-periodic-for-centring", z3.BoolVal(all(bool(x) for x in bound["system"].pbc)))
            cm = np.array([SR(st.fresh_real("cm")) for _ in range(3)], dtype=object)
            st.ghost["cm"] = cm.copy()
            return cm

        def min_contract(it, st, bound, site):
            st.ghost["min_args"] = (bound["system"], bound["axis"], bound["min_size"], bound["system"].cell.copy(), bound["system"].pbc.copy(), list(bound["system"].mutations))
            return Opaque("minimized")

        def raises(st, ctx, e, k=k):
            from matid.utils.exceptions import MatIDError
            # MatIDError only if no row of the transformation matrix is along the non-periodic axis
            T = ctx["T"]
            prec = z3.RealVal("1/100000000")

            def ab(x):
                return z3.If(z3num(x) >= 0, z3num(x), -z3num(x))

            some = z3.Or([z3.And(ab(T[a, k]) > prec, ab(T[a, (k + 1) % 3]) < prec, ab(T[a, (k + 2) % 3]) < prec) for a in range(3)])
            st.prove("error-is-MatIDError", z3.BoolVal(isinstance(e, MatIDError)))
            st.prove("MatIDError-only-without-a-row-along-the-non-periodic-axis", z3.Not(some))

        def post(st, ctx, r, k=k):
            ideal = ctx["ideal"]
            T = ctx["T"]
            ma = st.ghost.get("min_args")
            st.prove("result-is-the-minimised-cell", z3.BoolVal(isinstance(r, Opaque) and r.tag == "minimized" and ctx["self"]._f.get("_conventional_system") is r))
            st.prove("minimised-once", z3.BoolVal(ma is not None))
            if ma is None:
                return
            sysm, axis, ms, cell_at_call, pbc_at_call, muts = ma
            st.prove("minimised-along-the-last-axis-with-min_2d_thickness", z3.And(z3.BoolVal(sysm is ideal and axis == 2), z3num(ms) == ctx["mt"].t))
            st.prove("pbc-is-(T,T,F)-at-that-point", z3.BoolVal([bool(x) for x in pbc_at_call] == [True, True, False]))
            # which row of the standardised cell was declared non-periodic: a row a of T with only its k-th entry non-zero
            prec = z3.RealVal("1/100000000")

            def ab(x):
                return z3.If(z3num(x) >= 0, z3num(x), -z3num(x))

            c0 = ctx["cell0"]
            # the last cell vector at the call is one of the original rows a, and that row satisfies the detection predicate; the other two rows are kept
            alts = []
            for a in range(3):
                others = [b for b in range(3) if b != a]
                perm = {a: 2, 2: a}
                rows_ok = z3.And([z3num(cell_at_call[perm.get(b, b), q]) == z3num(c0[b, q]) for b in range(3) for q in range(3)])
                pred = z3.And(ab(T[a, k]) > prec, ab(T[a, (k + 1) % 3]) < prec, ab(T[a, (k + 2) % 3]) < prec)
                first = z3.And([z3.Not(z3.And(ab(T[b, k]) > prec, ab(T[b, (k + 1) % 3]) < prec, ab(T[b, (k + 2) % 3]) < prec)) for b in range(a)])
                alts.append(z3.And(rows_ok, pred, first))
            st.prove("non-periodic-vector-last-others-kept", z3.Or(alts))
            st.prove("atoms-wrapped-and-centred-before", z3.BoolVal("wrap" in muts and "translate" in muts))
            # the fold back into the cell after the shift must include the non-periodic direction (the shift is along it)
            pw = getattr(ideal, "pbc_at_wrap", None)
            st.prove("wrapped-along-all-three-directions-after-the-shift", z3.BoolVal(pw is not None and all(x is True or (not isinstance(x, SB) and bool(x)) for x in pw)
                                                                                  and "translate" in muts and "wrap" in muts and muts.index("translate") < len(muts) - 1 - muts[::-1].index("wrap") + 1))
            # centring (so that the sheet is not split by the cell boundary when the cell is minimised): one shift that puts the periodic
            # centre of mass at the cell centre along the detected non-periodic direction - whichever row of the standardised cell that is
            trs = getattr(ideal, "translations", [])
            cm = st.ghost.get("cm")
            st.prove("centred-once", z3.BoolVal(len(trs) == 1 and cm is not None))
            if len(trs) == 1 and cm is not None:
                t = trs[0]
                centre = [z3.Sum([z3num(c0[b, q]) for b in range(3)]) / 2 for q in range(3)]
                alts2 = []
                for a in range(3):
                    pred = z3.And(ab(T[a, k]) > prec, ab(T[a, (k + 1) % 3]) < prec, ab(T[a, (k + 2) % 3]) < prec)
                    first = z3.And([z3.Not(z3.And(ab(T[b, k]) > prec, ab(T[b, (k + 1) % 3]) < prec, ab(T[b, (k + 2) % 3]) < prec)) for b in range(a)])
                    # only the component along the non-periodic direction matters (an in-plane shift describes the same sheet)
                    shift = z3num(t[a]) == centre[a] - z3num(cm[a])
                    alts2.append(z3.And(pred, first, shift))
                st.prove("periodic-centre-of-mass-moved-to-the-cell-centre-along-the-non-periodic-direction", z3.Or(alts2))
            if LETTERS_VS_POSITIONS["on"] and len(trs) == 1:
                # the Wyckoff letters were assigned to the positions of the standardised system; a later shift by anything but a lattice
                # vector (here: along the non-periodic direction, by centre - centre of mass) leaves them describing other positions
                t = trs[0]
                alts3 = []
                for a in range(3):
                    pred = z3.And(ab(T[a, k]) > prec, ab(T[a, (k + 1) % 3]) < prec, ab(T[a, (k + 2) % 3]) < prec)
                    first = z3.And([z3.Not(z3.And(ab(T[b, k]) > prec, ab(T[b, (k + 1) % 3]) < prec, ab(T[b, (k + 2) % 3]) < prec)) for b in range(a)])
                    alts3.append(z3.And(pred, first, z3num(t[a]) == 0))
                st.prove("letters-refer-to-the-positions-handed-out", z3.Or(alts3))
            st.prove("letters-from-the-ground-state", z3.BoolVal(ctx["self"]._f.get("_conventional_wyckoff_letters") == "LETTERS"))

        run_fv(rep, "conventional[nonperiodic=%d]." % k, m, "SymmetryAnalyzer.get_conventional_system", mk, post, raises=raises, max_paths=4000,
               contracts={REL + ":SymmetryAnalyzer.get_symmetry_dataset": ds_contract, REL + ":SymmetryAnalyzer._find_wyckoff_ground_state": ground_contract,
                          REL + ":SymmetryAnalyzer._get_spglib_conventional_system": lambda *a: Opaque("spglib-conv"),
                          REL + ":SymmetryAnalyzer.get_space_group_number": lambda *a: 1,
                          REL + ":SymmetryAnalyzer._get_spglib_wyckoff_letters_conventional": lambda *a: "L0",
                          REL + ":SymmetryAnalyzer._get_spglib_equivalent_atoms_conventional": lambda *a: "E0",
                          GEO + ":get_center_of_mass": com_contract, GEO + ":get_minimized_cell": min_contract})


def _id(rep):
    from props import C06
    C06._id(rep)


def replay_key(ob):
    return "c11"


def replay(ob):
    """native: graphene / BN / MoS2-like layers with different vacuum, axis relabelling, flips, supercells"""
    from ase import Atoms
    from ase.build import graphene, mx2
    from matid.symmetry.symmetryanalyzer import SymmetryAnalyzer
    import itertools

    fails = []
    layers = [("graphene", graphene(vacuum=6)), ("MoS2", mx2("MoS2", vacuum=6)), ("BN", graphene("BN", vacuum=6))]
    # buckled layers on an oblique lattice: monoclinic layer groups, whose standard setting does not put the sheet normal on c
    g = np.radians(100.0)
    ocell = np.array([[3.1, 0, 0], [4.85 * np.cos(g), 4.85 * np.sin(g), 0], [0, 0, 12.0]])

    def oblique(symbols, frac, heights):
        pos = [f[0] * ocell[0] + f[1] * ocell[1] + np.array([0, 0, 6.0 + h]) for f, h in zip(frac, heights)]
        return Atoms(symbols=symbols, positions=pos, cell=ocell, pbc=[True, True, False])

    layers.append(("oblique 2/m layer", oblique(["Ge"] * 4 + ["S"] * 4, [(0.1, 0.2), (0.9, 0.8), (0.1, 0.2), (0.9, 0.8), (0.4, 0.3), (0.6, 0.7), (0.4, 0.3), (0.6, 0.7)],
                                                [0.35, 0.35, -0.35, -0.35, -0.9, -0.9, 0.9, 0.9])))
    # two-plane buckled hexagonal sheet whose extent (2.8 A) lies between 5/3 A and 5 A: the vacuum of the analysed copy depends on the thickness
    bn = graphene("BN", vacuum=6)
    pz = bn.get_positions()
    pz[0, 2] += 1.4
    pz[1, 2] -= 1.4
    bn.set_positions(pz)
    layers.append(("buckled BN, extent 2.8 A", bn))
    si = graphene("C2", a=3.8, vacuum=6)
    pz = si.get_positions()
    pz[0, 2] += 1.4
    pz[1, 2] -= 1.4
    si.set_positions(pz)
    layers.append(("buckled honeycomb of one species, extent 2.8 A", si))
    layers.append(("oblique m layer", oblique(["Ge", "Ge", "S", "S", "Sn"], [(0.1, 0.2), (0.1, 0.2), (0.4, 0.3), (0.4, 0.3), (0.7, 0.6)], [0.35, -0.35, -0.9, 0.9, 0.0])))
    for name, lay in layers:
        ref = None
        # reference for the symmetry of the sheet: the same sheet as a 3D crystal with 25 A of vacuum (no symmetry can relate sheets that far apart)
        try:
            b3 = lay.copy()
            b3.center(vacuum=12.5, axis=2)
            b3.set_pbc(True)
            sg3 = int(SymmetryAnalyzer(b3, symmetry_tol=0.1).get_space_group_number())
        except Exception:
            sg3 = None
        for vac, perm, rep_ in itertools.product((5.0, 9.0), ((0, 1, 2), (2, 0, 1), (0, 2, 1)), ((1, 1, 1), (2, 1, 1))):
            at = lay.copy()
            at.center(vacuum=vac, axis=2)
            at = at.repeat(rep_)
            cell = np.array(at.get_cell())[list(perm)][:, list(perm)]
            pos = at.get_positions()[:, list(perm)]
            pbc = np.array([True, True, False])[list(perm)]
            b = Atoms(numbers=at.get_atomic_numbers(), positions=pos, cell=cell, pbc=pbc)
            if rep_ == (2, 1, 1) and perm != (0, 1, 2):
                # the same sheet in a rotated frame (no cell vector along a cartesian axis)
                b.rotate(72.0, (1.0, 1.0, 0.3), rotate_cell=True)
            for mt in (0.5, 3.0):
                try:
                    a = SymmetryAnalyzer(b, symmetry_tol=0.1, min_2d_thickness=mt)
                    conv = a.get_conventional_system()
                    bad = []
                    if list(conv.get_pbc()) != [True, True, False]:
                        bad.append("pbc %s" % list(conv.get_pbc()))
                    sp = conv.get_scaled_positions(wrap=False)
                    if sp.min() < -1e-6 or sp.max() > 1 + 1e-6:
                        bad.append("atoms outside the cell")
                    ext = np.ptp(at.get_positions()[:, 2])
                    thick = np.linalg.norm(conv.get_cell()[2])
                    if abs(thick - max(ext, mt)) > 1e-3:
                        bad.append("thickness %.4f, expected max(%.4f, %.1f)" % (thick, ext, mt))
                    if sg3 is not None and int(a.get_space_group_number()) != sg3:
                        bad.append("space group %d, the isolated sheet has %d" % (int(a.get_space_group_number()), sg3))
                    key = (a.get_material_id(), int(a.get_space_group_number()), tuple(sorted((s.wyckoff_letter, s.element, len(s.indices)) for s in a.get_wyckoff_sets_conventional(False))),
                           tuple(np.round(sorted(conv.cell.lengths()[:2]), 3)))
                    if ref is None:
                        ref = key
                    elif key != ref:
                        bad.append("normal form differs: %s vs %s" % (str(key)[:150], str(ref)[:150]))
                    b3 = b.copy(); b3.set_pbc(True)
                    if SymmetryAnalyzer(b3, symmetry_tol=0.1).get_material_id() == key[0]:
                        bad.append("2D id equals the 3D id")
                    if bad:
                        fails.append({"layer": name, "vacuum": vac, "axes": perm, "repeat": rep_, "min_2d_thickness": mt, "observed": bad[:3]})
                except Exception as e:  # noqa
                    fails.append({"layer": name, "vacuum": vac, "axes": perm, "observed": "%s: %s" % (type(e).__name__, str(e)[:200])})
                if len(fails) >= 3:
                    return {"reproduced": True, "failing_inputs": fails}
    return {"reproduced": bool(fails), "failing_inputs": fails}


def replay_file(rp):
    return replay(Ob(id=rp["obligation"]))
